//! Runner, counters, shrinking glue, replay files, evidence writer, known-findings matcher.

use crate::src::{hash_str, mix, Src};
use proptest::collection::vec as pvec;
use proptest::prelude::any;
use proptest::test_runner::{Config, RngSeed, TestCaseError, TestError, TestRunner};
use serde::de::DeserializeOwned;
use serde::Serialize;
use serde_json::{json, Value};
use std::collections::hash_map::DefaultHasher;
use std::collections::{BTreeMap, HashMap, HashSet};
use std::hash::{Hash, Hasher};
use std::sync::atomic::{AtomicBool, AtomicU64, Ordering};
use std::sync::{Arc, Mutex};
use std::time::Instant;

static REAL_STDOUT: std::sync::OnceLock<Mutex<std::fs::File>> = std::sync::OnceLock::new();

/// The library under test prints diagnostics with println!; route file descriptor 1 to /dev/null and keep
/// the real stdout for the harness's own lines (VIOLATION / KNOWN-FINDING / summary).
pub fn silence_library_stdout() {
    use std::os::unix::io::FromRawFd;
    if REAL_STDOUT.get().is_some() {
        return;
    }
    extern "C" {
        fn dup(fd: i32) -> i32;
        fn dup2(a: i32, b: i32) -> i32;
        fn open(path: *const u8, flags: i32) -> i32;
    }
    unsafe {
        let real = dup(1);
        let null = open(b"/dev/null\0".as_ptr(), 1);
        if real >= 0 && null >= 0 {
            dup2(null, 1);
            let _ = REAL_STDOUT.set(Mutex::new(std::fs::File::from_raw_fd(real)));
        }
    }
}

pub fn out_line(s: &str) {
    use std::io::Write;
    match REAL_STDOUT.get() {
        Some(f) => {
            let mut g = f.lock().unwrap();
            let _ = writeln!(g, "{}", s);
        }
        None => println!("{}", s),
    }
}

#[macro_export]
macro_rules! outln {
    ($($arg:tt)*) => { $crate::report::out_line(&format!($($arg)*)) };
}

#[derive(Clone, Copy, PartialEq, Eq, Debug)]
pub enum Tier {
    Quick,
    Thorough,
}

impl Tier {
    pub fn name(&self) -> &'static str {
        match self {
            Tier::Quick => "quick",
            Tier::Thorough => "thorough",
        }
    }
    /// pick a budget by tier
    pub fn n(&self, quick: u64, thorough: u64) -> u64 {
        match self {
            Tier::Quick => quick,
            Tier::Thorough => thorough,
        }
    }
}

#[derive(Clone, Debug)]
pub struct Failure {
    pub signature: String,
    pub detail: String,
}

#[derive(Clone, Debug, Default)]
pub struct Outcome {
    pub labels: Vec<&'static str>,
    pub nontrivial: bool,
    pub failure: Option<Failure>,
}

impl Outcome {
    pub fn new() -> Self {
        Outcome::default()
    }
    pub fn label(&mut self, l: &'static str) -> &mut Self {
        self.labels.push(l);
        self
    }
    pub fn nontrivial(&mut self, b: bool) -> &mut Self {
        self.nontrivial = self.nontrivial || b;
        self
    }
    pub fn fail(&mut self, signature: impl Into<String>, detail: impl Into<String>) -> &mut Self {
        if self.failure.is_none() {
            self.failure = Some(Failure { signature: signature.into(), detail: detail.into() });
        }
        self
    }
    pub fn failed(&self) -> bool {
        self.failure.is_some()
    }
}

#[derive(Clone, Debug, serde::Deserialize)]
pub struct KnownEntry {
    pub property: String,
    pub status: String, // "open" | "fixed"
    pub signature: String,
    #[serde(default)]
    pub commit: String,
    #[serde(default)]
    pub what: String,
}

#[derive(Default)]
struct Local {
    evals: u64,
    labels: HashMap<&'static str, u64>,
    distinct: HashSet<u64>,
    nontrivial_evals: u64,
    samples: Vec<Value>,
    nt_samples: Vec<Value>,
    known_hits: BTreeMap<String, (u64, Option<Value>)>,
}

struct ViolationRec {
    section: String,
    signature: String,
    detail: String,
    case: Value,
    bytes: Option<Vec<u8>>,
}

struct Slot {
    start_ms: AtomicU64, // 0 = idle
    info: Mutex<(String, Vec<u8>, u64)>,
    /// enumerated sections: position of the running case in this worker's partition
    enum_idx: AtomicU64,
    /// a regression replay is running on this slot: the case itself
    regress_case: Mutex<Option<Value>>,
}

/// Case journal for runs that can die without unwinding (AddressSanitizer aborts): when VERIF_JOURNAL_DIR is set every
/// worker writes the case it is about to execute to its own file, so the wrapper can attribute an abort to a case.
fn journal_bytes(id: &str, section: &str, worker: usize, bytes: &[u8]) {
    if JOURNAL_ON.with(|j| *j) {
        journal_value(id, section, worker, json!({"property": id, "section": section, "bytes_hex": hex(bytes)}));
    }
}

thread_local! { static JOURNAL_ON: bool = std::env::var("VERIF_JOURNAL_DIR").is_ok(); }

fn journal<C: Serialize>(id: &str, section: &str, worker: usize, case: &C) {
    if JOURNAL_ON.with(|j| *j) {
        journal_value(id, section, worker, json!({"property": id, "section": section, "case": case}));
    }
}

fn journal_value(_id: &str, _section: &str, worker: usize, doc: Value) {
    use std::io::{Seek, SeekFrom, Write};
    thread_local! { static JFILE: std::cell::RefCell<Option<Option<std::fs::File>>> = const { std::cell::RefCell::new(None) }; }
    JFILE.with(|cell| {
        let mut g = cell.borrow_mut();
        if g.is_none() {
            *g = Some(std::env::var("VERIF_JOURNAL_DIR").ok().and_then(|dir| std::fs::File::create(format!("{}/journal-{}.json", dir, worker)).ok()));
        }
        if let Some(Some(f)) = g.as_mut() {
            let text = serde_json::to_string(&doc).unwrap_or_default();
            let _ = f.seek(SeekFrom::Start(0));
            let _ = f.write_all(text.as_bytes());
            let _ = f.set_len(text.len() as u64);
        }
    });
}

pub struct Report {
    pub id: &'static str,
    pub tier: Tier,
    pub seed: u64,
    level: &'static str,
    rule: String,
    start: Instant,
    threads: usize,
    verif_dir: String,
    evals: AtomicU64,
    nontrivial_evals: AtomicU64,
    labels: Mutex<BTreeMap<String, u64>>,
    distinct: Mutex<HashSet<u64>>,
    samples: Mutex<Vec<Value>>,
    violations: Mutex<Vec<ViolationRec>>,
    known: Vec<KnownEntry>,
    known_hits: Mutex<BTreeMap<String, (u64, Option<Value>)>>,
    sections: Mutex<Vec<Value>>,
    assumptions: Mutex<Vec<String>>,
    inconclusive: Mutex<Vec<String>>,
    replay: Option<(String, Value)>,
    regress: Vec<(String, Value, String)>,
    slots: Arc<Vec<Slot>>,
    stop: AtomicBool,
    all_exhaustive: AtomicBool,
    any_section: AtomicBool,
    extra: Mutex<BTreeMap<String, Value>>,
}

fn digest<C: Hash>(section: &str, c: &C) -> u64 {
    let mut h = DefaultHasher::new();
    section.hash(&mut h);
    c.hash(&mut h);
    h.finish()
}

pub fn verif_dir() -> String {
    std::env::var("VERIF_DIR").unwrap_or_else(|_| "/verif".to_string())
}

impl Report {
    pub fn new(id: &'static str, tier: Tier, level: &'static str, rule: &str) -> Arc<Report> {
        Self::with_replay(id, tier, level, rule, None)
    }

    pub fn with_replay(id: &'static str, tier: Tier, level: &'static str, rule: &str, replay: Option<(String, Value)>) -> Arc<Report> {
        crate::guard::install_panic_hook();
        let seed = std::env::var("VERIF_SEED").ok().and_then(|s| s.trim().parse::<u64>().ok()).unwrap_or(0);
        let threads = std::env::var("VERIF_THREADS")
            .ok()
            .and_then(|s| s.parse::<usize>().ok())
            .unwrap_or_else(|| std::thread::available_parallelism().map(|n| n.get()).unwrap_or(4).min(16))
            .max(1);
        let dir = verif_dir();
        let known: Vec<KnownEntry> = std::fs::read_to_string(format!("{}/known-findings.json", dir))
            .ok()
            .and_then(|s| serde_json::from_str::<Value>(&s).ok())
            .and_then(|v| v.get("findings").cloned())
            .and_then(|v| serde_json::from_value::<Vec<KnownEntry>>(v).ok())
            .unwrap_or_default()
            .into_iter()
            .filter(|k| k.property == id)
            .collect();
        // regression replays
        let mut regress = Vec::new();
        if replay.is_none() {
            if let Ok(rd) = std::fs::read_dir(format!("{}/replays/regress", dir)) {
                let mut files: Vec<_> = rd.filter_map(|e| e.ok()).map(|e| e.path()).collect();
                files.sort();
                for p in files {
                    let name = p.file_name().unwrap().to_string_lossy().to_string();
                    if !name.starts_with(id) || !name.ends_with(".json") {
                        continue;
                    }
                    if let Ok(s) = std::fs::read_to_string(&p) {
                        if let Ok(v) = serde_json::from_str::<Value>(&s) {
                            if v["property"] == id {
                                regress.push((v["section"].as_str().unwrap_or("").to_string(), v["case"].clone(), name));
                            }
                        }
                    }
                }
            }
        }
        let slots: Arc<Vec<Slot>> = Arc::new((0..threads).map(|_| Slot { start_ms: AtomicU64::new(0), info: Mutex::new((String::new(), Vec::new(), 0)), enum_idx: AtomicU64::new(0), regress_case: Mutex::new(None) }).collect());
        let rep = Arc::new(Report {
            id,
            tier,
            seed,
            level,
            rule: rule.to_string(),
            start: Instant::now(),
            threads,
            verif_dir: dir,
            evals: AtomicU64::new(0),
            nontrivial_evals: AtomicU64::new(0),
            labels: Mutex::new(BTreeMap::new()),
            distinct: Mutex::new(HashSet::new()),
            samples: Mutex::new(Vec::new()),
            violations: Mutex::new(Vec::new()),
            known,
            known_hits: Mutex::new(BTreeMap::new()),
            sections: Mutex::new(Vec::new()),
            assumptions: Mutex::new(Vec::new()),
            inconclusive: Mutex::new(Vec::new()),
            replay,
            regress,
            slots,
            stop: AtomicBool::new(false),
            all_exhaustive: AtomicBool::new(true),
            any_section: AtomicBool::new(false),
            extra: Mutex::new(BTreeMap::new()),
        });
        rep.spawn_watchdog();
        rep
    }

    fn spawn_watchdog(self: &Arc<Self>) {
        let limit_ms: u64 = std::env::var("VERIF_CASE_TIMEOUT_S").ok().and_then(|s| s.parse().ok()).unwrap_or(120) * 1000;
        let weak = Arc::downgrade(self);
        std::thread::spawn(move || loop {
            std::thread::sleep(std::time::Duration::from_millis(500));
            let rep = match weak.upgrade() {
                Some(r) => r,
                None => return,
            };
            let now = rep.start.elapsed().as_millis() as u64 + 1;
            for (i, s) in rep.slots.iter().enumerate() {
                let st = s.start_ms.load(Ordering::Relaxed);
                if st != 0 && now > st && now - st > limit_ms {
                    let info = s.info.lock().unwrap().clone();
                    // (VERIF_OUT_DIR redirects replay output, as for violations)
                    let dir = std::env::var("VERIF_OUT_DIR").unwrap_or_else(|_| rep.verif_dir.clone());
                    let path = format!("{}/replays/{}-watchdog-{}.json", dir, rep.id, i);
                    let _ = std::fs::create_dir_all(format!("{}/replays", dir));
                    let _ = std::fs::write(
                        &path,
                        // random sections: the choice bytes; enumerated sections: the position in the worker's partition (the enumeration is a
                        // pure function of (worker, workers), so the replay regenerates the case)
                        serde_json::to_string_pretty(&if let Some(case) = s.regress_case.lock().unwrap().clone() {
                            json!({"property": rep.id, "section": info.0, "kind": "watchdog", "case": case})
                        } else if info.1.is_empty() {
                            json!({"property": rep.id, "section": info.0, "kind": "watchdog", "tier": rep.tier.name(), "enum": {"worker": i, "workers": rep.threads, "index": s.enum_idx.load(Ordering::Relaxed)}})
                        } else {
                            json!({"property": rep.id, "section": info.0, "kind": "watchdog", "bytes_hex": hex(&info.1), "index": info.2})
                        })
                        .unwrap(),
                    );
                    outln!("INCONCLUSIVE property={} watchdog: a case in section {} ran longer than {} s; saved {}", rep.id, info.0, limit_ms / 1000, path);
                    std::process::exit(2);
                }
            }
        });
    }

    pub fn threads(&self) -> usize {
        self.threads
    }
    pub fn assume(&self, s: &str) {
        self.assumptions.lock().unwrap().push(s.to_string());
    }
    pub fn extra(&self, k: &str, v: Value) {
        self.extra.lock().unwrap().insert(k.to_string(), v);
    }
    pub fn inconclusive(&self, s: String) {
        self.inconclusive.lock().unwrap().push(s);
    }
    pub fn is_replay(&self) -> bool {
        self.replay.is_some()
    }
    pub fn stopped(&self) -> bool {
        self.stop.load(Ordering::Relaxed)
    }

    fn is_known(&self, sig: &str) -> bool {
        self.known.iter().any(|k| k.status == "open" && sig_match(&k.signature, sig))
    }

    fn merge(&self, section: &str, l: Local) {
        self.evals.fetch_add(l.evals, Ordering::Relaxed);
        self.nontrivial_evals.fetch_add(l.nontrivial_evals, Ordering::Relaxed);
        {
            let mut g = self.labels.lock().unwrap();
            for (k, v) in l.labels {
                *g.entry(format!("{}/{}", section, k)).or_insert(0) += v;
            }
        }
        self.distinct.lock().unwrap().extend(l.distinct);
        {
            let mut s = self.samples.lock().unwrap();
            let have = s.iter().filter(|v| v["section"] == section).count();
            let mut room = 4usize.saturating_sub(have);
            for v in l.nt_samples.into_iter().chain(l.samples.into_iter()) {
                if room == 0 {
                    break;
                }
                s.push(json!({"section": section, "case": v}));
                room -= 1;
            }
        }
        let mut kh = self.known_hits.lock().unwrap();
        for (k, (n, c)) in l.known_hits {
            let e = kh.entry(k).or_insert((0, None));
            e.0 += n;
            if e.1.is_none() {
                e.1 = c;
            }
        }
    }

    fn account<C: Serialize + Hash>(&self, section: &str, local: &mut Local, case: &C, out: &Outcome) {
        local.evals += 1;
        for l in &out.labels {
            *local.labels.entry(l).or_insert(0) += 1;
        }
        if out.nontrivial {
            local.nontrivial_evals += 1;
            if local.distinct.len() < 4_000_000 {
                local.distinct.insert(digest(section, case));
            }
            if local.nt_samples.len() < 2 {
                local.nt_samples.push(sample_value(case));
            }
        } else if local.samples.len() < 1 {
            local.samples.push(sample_value(case));
        }
    }

    /// Handle the failure part of an outcome. Returns Some(signature) when it is a new (unlisted) violation.
    fn classify<C: Serialize>(&self, local: &mut Local, case: &C, out: &Outcome) -> Option<Failure> {
        match &out.failure {
            None => None,
            Some(f) => {
                if f.signature.starts_with("inconclusive:") {
                    // a time budget / socket timeout is never a violation (exit 2 instead)
                    let mut g = self.inconclusive.lock().unwrap();
                    if g.len() < 5 {
                        g.push(format!("{} — {}", f.signature, f.detail));
                    }
                    return None;
                }
                if self.is_known(&f.signature) {
                    let e = local.known_hits.entry(f.signature.clone()).or_insert((0, None));
                    e.0 += 1;
                    if e.1.is_none() {
                        e.1 = Some(serde_json::to_value(case).unwrap_or(Value::Null));
                    }
                    None
                } else {
                    Some(f.clone())
                }
            }
        }
    }

    fn record_violation(&self, section: &str, f: &Failure, case: Value, bytes: Option<Vec<u8>>) {
        self.stop.store(true, Ordering::Relaxed);
        let mut v = self.violations.lock().unwrap();
        if v.iter().any(|x| x.signature == f.signature) {
            return;
        }
        v.push(ViolationRec { section: section.to_string(), signature: f.signature.clone(), detail: f.detail.clone(), case, bytes });
    }

    fn section_done(&self, name: &str, kind: &str, planned: u64, exhaustive: bool, t0: Instant) {
        self.any_section.store(true, Ordering::Relaxed);
        if !exhaustive {
            self.all_exhaustive.store(false, Ordering::Relaxed);
        }
        self.sections.lock().unwrap().push(json!({"name": name, "kind": kind, "planned": planned, "exhaustive": exhaustive, "wall_s": t0.elapsed().as_secs_f64()}));
    }

    fn run_regress<C, R>(&self, section: &str, run: &R)
    where
        C: Serialize + DeserializeOwned + Hash,
        R: Fn(&C) -> Outcome,
    {
        let mut local = Local::default();
        for (sec, val, name) in &self.regress {
            if sec != section {
                continue;
            }
            match serde_json::from_value::<C>(val.clone()) {
                Ok(c) => {
                    // regression replays run on the calling thread before the workers start: slot 0 is theirs for the watchdog
                    let slot = &self.slots[0];
                    {
                        let mut g = slot.info.lock().unwrap();
                        g.0 = section.to_string();
                        g.1.clear();
                    }
                    *slot.regress_case.lock().unwrap() = Some(val.clone());
                    slot.start_ms.store(self.start.elapsed().as_millis() as u64 + 1, Ordering::Relaxed);
                    let out = run(&c);
                    slot.start_ms.store(0, Ordering::Relaxed);
                    *slot.regress_case.lock().unwrap() = None;
                    let mut o2 = out.clone();
                    o2.labels.push("regress-replay");
                    self.account(section, &mut local, &c, &o2);
                    if let Some(f) = self.classify(&mut local, &c, &out) {
                        self.record_violation(section, &f, val.clone(), None);
                    }
                }
                Err(e) => self.inconclusive(format!("regress file {} does not deserialize: {}", name, e)),
            }
        }
        self.merge(section, local);
    }

    fn replay_only<C, R>(&self, section: &str, run: &R) -> bool
    where
        C: Serialize + DeserializeOwned + Hash,
        R: Fn(&C) -> Outcome,
    {
        if let Some((sec, val)) = &self.replay {
            if sec == section {
                match serde_json::from_value::<C>(val.clone()) {
                    Ok(c) => {
                        let out = run(&c);
                        let mut local = Local::default();
                        self.account(section, &mut local, &c, &out);
                        self.merge(section, local);
                        match &out.failure {
                            Some(f) => {
                                outln!("REPLAY property={} section={} outcome=FAIL signature={}\n  detail: {}", self.id, section, f.signature, f.detail);
                                self.record_violation(section, f, val.clone(), None);
                            }
                            None => outln!("REPLAY property={} section={} outcome=pass labels={:?}", self.id, section, out.labels),
                        }
                    }
                    Err(e) => {
                        outln!("REPLAY property={} section={} cannot deserialize case: {}", self.id, section, e);
                        self.inconclusive(format!("replay case does not deserialize: {}", e));
                    }
                }
            }
            true
        } else {
            false
        }
    }

    /// Random section: proptest generates and shrinks a byte string which `decode` turns into a case.
    pub fn random<C, D, R>(&self, section: &'static str, cases: u64, max_len: usize, decode: D, run: R)
    where
        C: Serialize + DeserializeOwned + Hash + Clone + Send,
        D: Fn(&mut Src) -> C + Sync,
        R: Fn(&C) -> Outcome + Sync,
    {
        if let Some((sec, val)) = &self.replay {
            if sec == section {
                if let Some(hx) = val.get("__bytes").and_then(|v| v.as_str()) {
                    // replay from the raw choice bytes (watchdog files, fuzzer inputs)
                    let bytes = unhex(hx);
                    let case = decode(&mut Src::new(&bytes));
                    outln!("DECODED {}", serde_json::to_string(&case).unwrap_or_default());
                    let out = run(&case);
                    match &out.failure {
                        Some(f) => {
                            outln!("REPLAY property={} section={} outcome=FAIL signature={}\n  detail: {}", self.id, section, f.signature, f.detail);
                            self.record_violation(section, f, serde_json::to_value(&case).unwrap_or(Value::Null), Some(bytes));
                        }
                        None => outln!("REPLAY property={} section={} outcome=pass labels={:?}", self.id, section, out.labels),
                    }
                    return;
                }
            }
        }
        if self.replay_only::<C, R>(section, &run) {
            return;
        }
        let t0 = Instant::now();
        self.run_regress::<C, R>(section, &run);
        let workers = self.threads.min(((cases + 63) / 64).max(1) as usize);
        let per = (cases + workers as u64 - 1) / workers as u64;
        std::thread::scope(|sc| {
            for w in 0..workers {
                let decode = &decode;
                let run = &run;
                sc.spawn(move || {
                    let seed = mix(mix(self.seed, hash_str(self.id)), mix(hash_str(section), w as u64));
                    let mut seed_bytes = [0u8; 32];
                    for i in 0..4 {
                        seed_bytes[i * 8..i * 8 + 8].copy_from_slice(&mix(seed, i as u64).to_le_bytes());
                    }
                    let _ = seed_bytes;
                    let config = Config {
                        cases: per.min(u32::MAX as u64) as u32,
                        failure_persistence: None,
                        rng_seed: RngSeed::Fixed(seed),
                        max_shrink_iters: std::env::var("VERIF_MAX_SHRINK").ok().and_then(|v| v.parse().ok()).unwrap_or(20_000),
                        max_global_rejects: 64,
                        verbose: 0,
                        ..Config::default()
                    };
                    let mut runner = TestRunner::new(config);
                    let strat = pvec(any::<u8>(), 0..=max_len);
                    let local_cell = std::cell::RefCell::new(Local::default());
                    let first_sig_cell: std::cell::RefCell<Option<String>> = std::cell::RefCell::new(None);
                    let slot = &self.slots[w];
                    let res = runner.run(&strat, |bytes| {
                        let mut local = local_cell.borrow_mut();
                        let mut first_sig = first_sig_cell.borrow_mut();
                        if first_sig.is_none() && self.stop.load(Ordering::Relaxed) {
                            return Err(TestCaseError::reject("stopped"));
                        }
                        {
                            let mut g = slot.info.lock().unwrap();
                            g.0.clear();
                            g.0.push_str(section);
                            g.1.clear();
                            g.1.extend_from_slice(&bytes);
                        }
                        slot.start_ms.store(self.start.elapsed().as_millis() as u64 + 1, Ordering::Relaxed);
                        let case = decode(&mut Src::new(&bytes));
                        journal_bytes(self.id, section, w, &bytes);
                        let out = run(&case);
                        slot.start_ms.store(0, Ordering::Relaxed);
                        if first_sig.is_none() {
                            self.account(section, &mut *local, &case, &out);
                            if let Some(f) = self.classify(&mut *local, &case, &out) {
                                *first_sig = Some(f.signature.clone());
                                self.stop.store(true, Ordering::Relaxed);
                                return Err(TestCaseError::fail(f.signature));
                            }
                            Ok(())
                        } else {
                            // shrinking: only the same signature counts as "still failing"
                            match &out.failure {
                                Some(f) if Some(&f.signature) == first_sig.as_ref() => Err(TestCaseError::fail(f.signature.clone())),
                                _ => Ok(()),
                            }
                        }
                    });
                    slot.start_ms.store(0, Ordering::Relaxed);
                    let first_sig = first_sig_cell.into_inner();
                    let local = local_cell.into_inner();
                    if let Err(TestError::Fail(_, bytes)) = res {
                        let case = decode(&mut Src::new(&bytes));
                        let out = run(&case);
                        let f = out.failure.clone().unwrap_or(Failure { signature: first_sig.clone().unwrap_or_default(), detail: "failure did not reproduce on the shrunk case (flaky?)".into() });
                        self.record_violation(section, &f, serde_json::to_value(&case).unwrap_or(Value::Null), Some(bytes));
                    }
                    self.merge(section, local);
                });
            }
        });
        self.section_done(section, "random(proptest bytes->case)", cases, false, t0);
    }

    /// Enumerated section: `gen(part, parts)` yields the cases of one partition of a finite space.
    pub fn enumerate<C, I, G, R>(&self, section: &'static str, exhaustive: bool, gen: G, run: R)
    where
        C: Serialize + DeserializeOwned + Hash + Clone + Send,
        I: Iterator<Item = C>,
        G: Fn(usize, usize) -> I + Sync,
        R: Fn(&C) -> Outcome + Sync,
    {
        if let Some((sec, val)) = &self.replay {
            if sec == section {
                if let Some(e) = val.get("__enum") {
                    // a watchdog file of an enumerated section: regenerate the case from its position
                    let (w, n, i) = (e["worker"].as_u64().unwrap_or(0) as usize, e["workers"].as_u64().unwrap_or(1) as usize, e["index"].as_u64().unwrap_or(0) as usize);
                    match gen(w, n.max(1)).nth(i) {
                        Some(case) => {
                            outln!("DECODED {}", serde_json::to_string(&case).unwrap_or_default());
                            let out = run(&case);
                            match &out.failure {
                                Some(f) => {
                                    outln!("REPLAY property={} section={} outcome=FAIL signature={}\n  detail: {}", self.id, section, f.signature, f.detail);
                                    self.record_violation(section, f, serde_json::to_value(&case).unwrap_or(Value::Null), None);
                                }
                                None => outln!("REPLAY property={} section={} outcome=pass labels={:?}", self.id, section, out.labels),
                            }
                        }
                        None => outln!("REPLAY property={} section={} no case at worker {} of {} index {}", self.id, section, w, n, i),
                    }
                    return;
                }
            }
        }
        if self.replay_only::<C, R>(section, &run) {
            return;
        }
        let t0 = Instant::now();
        self.run_regress::<C, R>(section, &run);
        let workers = self.threads;
        let total = AtomicU64::new(0);
        std::thread::scope(|sc| {
            for w in 0..workers {
                let gen = &gen;
                let run = &run;
                let total = &total;
                sc.spawn(move || {
                    let mut local = Local::default();
                    let slot = &self.slots[w];
                    {
                        let mut g = slot.info.lock().unwrap();
                        g.0 = section.to_string();
                        g.1.clear();
                    }
                    let mut idx = 0u64;
                    for case in gen(w, workers) {
                        if self.stop.load(Ordering::Relaxed) {
                            break;
                        }
                        slot.enum_idx.store(idx, Ordering::Relaxed);
                        slot.start_ms.store(self.start.elapsed().as_millis() as u64 + 1, Ordering::Relaxed);
                        journal(self.id, section, w, &case);
                        let out = run(&case);
                        slot.start_ms.store(0, Ordering::Relaxed);
                        idx += 1;
                        self.account(section, &mut local, &case, &out);
                        if let Some(f) = self.classify(&mut local, &case, &out) {
                            self.record_violation(section, &f, serde_json::to_value(&case).unwrap_or(Value::Null), None);
                            break;
                        }
                    }
                    total.fetch_add(idx, Ordering::Relaxed);
                    self.merge(section, local);
                });
            }
        });
        let complete = !self.stop.load(Ordering::Relaxed);
        self.section_done(section, "enumeration", total.load(Ordering::Relaxed), exhaustive && complete, t0);
    }

    /// A fixed list of cases (golden vectors, regression inputs).
    pub fn list<C, R>(&self, section: &'static str, cases: Vec<C>, run: R)
    where
        C: Serialize + DeserializeOwned + Hash + Clone + Send + Sync,
        R: Fn(&C) -> Outcome + Sync,
    {
        let cases = &cases;
        self.enumerate(section, false, move |p, n| cases.iter().skip(p).step_by(n).cloned().collect::<Vec<_>>().into_iter(), run);
    }

    pub fn label_count(&self, label: &str) -> u64 {
        self.labels.lock().unwrap().get(label).copied().unwrap_or(0)
    }

    /// generator health: the label must cover at least `min_frac` of the section's evaluations
    pub fn require(&self, section: &str, label: &str, min_count: u64) {
        if self.replay.is_some() || self.stopped() {
            return;
        }
        let n = self.label_count(&format!("{}/{}", section, label));
        if n < min_count {
            self.inconclusive(format!("generator degenerate: label {}/{} seen {} times, floor {}", section, label, n, min_count));
        }
    }

    /// Write evidence, print VIOLATION / KNOWN-FINDING lines, return the process exit code.
    pub fn finish(&self) -> i32 {
        // VERIF_OUT_DIR redirects evidence and replay output (used when the checks are run against seeded changes)
        let out_dir = std::env::var("VERIF_OUT_DIR").unwrap_or_else(|_| self.verif_dir.clone());
        let dir = &out_dir;
        let _ = std::fs::create_dir_all(format!("{}/replays", dir));
        let _ = std::fs::create_dir_all(format!("{}/evidence", dir));
        let viols = self.violations.lock().unwrap();
        let mut lines = Vec::new();
        for v in viols.iter() {
            let h = hash_str(&format!("{}{}", v.signature, v.section)) & 0xffff_ffff;
            let path = format!("{}/replays/{}-{:08x}.json", dir, self.id, h);
            let doc = json!({
                "property": self.id, "section": v.section, "signature": v.signature, "detail": v.detail,
                "case": v.case, "bytes_hex": v.bytes.as_ref().map(|b| hex(b)), "seed": self.seed, "tier": self.tier.name()
            });
            if self.replay.is_none() {
                let _ = std::fs::write(&path, serde_json::to_string_pretty(&doc).unwrap());
            }
            lines.push(format!("VIOLATION property={} replay={}", self.id, path));
            eprintln!("  signature: {}\n  detail: {}", v.signature, truncate(&v.detail, 2000));
        }
        let kh = self.known_hits.lock().unwrap();
        for (sig, (n, _)) in kh.iter() {
            let what = self.known.iter().find(|k| sig_match(&k.signature, sig)).map(|k| k.what.clone()).unwrap_or_default();
            outln!("KNOWN-FINDING: property={} {} [{} cases; {}]", self.id, sig, n, what);
        }
        let incon = self.inconclusive.lock().unwrap();
        for i in incon.iter() {
            outln!("INCONCLUSIVE property={} {}", self.id, i);
        }
        for l in &lines {
            outln!("{}", l);
        }
        if self.replay.is_some() {
            return if !viols.is_empty() { 1 } else if !incon.is_empty() { 2 } else { 0 };
        }
        let harness_fault = viols.iter().any(|v| v.signature.contains("HARNESS-FAULT"));
        let labels = self.labels.lock().unwrap();
        let mut samples = self.samples.lock().unwrap().clone();
        if samples.is_empty() {
            samples.push(json!({"note": "no cases were evaluated"}));
        }
        let known_json: Vec<Value> = kh.iter().map(|(s, (n, c))| json!({"signature": s, "cases": n, "sample": c})).collect();
        let mut coverage = json!({
            "evaluations": self.evals.load(Ordering::Relaxed),
            "distinct_nontrivial": self.distinct.lock().unwrap().len(),
            "nontrivial_evaluations": self.nontrivial_evals.load(Ordering::Relaxed),
            "rule": self.rule,
            "samples": samples,
            "exhaustive": self.any_section.load(Ordering::Relaxed) && self.all_exhaustive.load(Ordering::Relaxed),
            "labels": *labels,
            "sections": *self.sections.lock().unwrap(),
            "known_findings_hit": known_json,
            "threads": self.threads,
        });
        for (k, v) in self.extra.lock().unwrap().iter() {
            coverage[k] = v.clone();
        }
        let ev = json!({
            "property_id": self.id,
            "tier": self.tier.name(),
            "seed": self.seed,
            "level": self.level,
            "coverage": coverage,
            "assumptions": *self.assumptions.lock().unwrap(),
            "wall_s": self.start.elapsed().as_secs_f64(),
            "violations": viols.len(),
            "inconclusive": *incon,
        });
        let _ = std::fs::write(format!("{}/evidence/{}.json", dir, self.id), serde_json::to_string_pretty(&ev).unwrap());
        outln!(
            "{} {} seed={} evaluations={} distinct_nontrivial={} violations={} known={} wall={:.1}s",
            self.id,
            self.tier.name(),
            self.seed,
            self.evals.load(Ordering::Relaxed),
            self.distinct.lock().unwrap().len(),
            viols.len(),
            kh.len(),
            self.start.elapsed().as_secs_f64()
        );
        if harness_fault {
            2
        } else if !viols.is_empty() {
            1
        } else if !incon.is_empty() {
            2
        } else {
            0
        }
    }
}

/// a case as it is printed in the evidence file; very large cases are abbreviated
fn sample_value<C: Serialize>(case: &C) -> Value {
    match serde_json::to_string(case) {
        Ok(s) if s.len() <= 6000 => serde_json::from_str(&s).unwrap_or(Value::Null),
        Ok(s) => {
            let mut cut = 1500;
            while !s.is_char_boundary(cut) {
                cut -= 1;
            }
            json!({"abbreviated": true, "json_bytes": s.len(), "head": &s[..cut]})
        }
        Err(_) => Value::Null,
    }
}

/// known-finding signatures may end with '*' (prefix match)
pub fn sig_match(pattern: &str, sig: &str) -> bool {
    if let Some(p) = pattern.strip_suffix('*') {
        sig.starts_with(p)
    } else {
        pattern == sig
    }
}

pub fn hex(b: &[u8]) -> String {
    let mut s = String::with_capacity(b.len() * 2);
    for x in b {
        s.push_str(&format!("{:02x}", x));
    }
    s
}

pub fn unhex(s: &str) -> Vec<u8> {
    let s: Vec<u8> = s.bytes().filter(|c| c.is_ascii_hexdigit()).collect();
    s.chunks(2).filter(|c| c.len() == 2).map(|c| u8::from_str_radix(std::str::from_utf8(c).unwrap(), 16).unwrap()).collect()
}

fn truncate(s: &str, n: usize) -> String {
    if s.len() <= n {
        s.to_string()
    } else {
        let mut cut = n;
        while !s.is_char_boundary(cut) {
            cut -= 1;
        }
        format!("{}…", &s[..cut])
    }
}
