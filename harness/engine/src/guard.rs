//! Panic capture and allocation accounting around calls into the code under test.

use std::alloc::{GlobalAlloc, Layout, System};
use std::cell::{Cell, RefCell};
use std::panic::{self, AssertUnwindSafe};
use std::sync::Once;

thread_local! {
    static ALLOC_BYTES: Cell<u64> = const { Cell::new(0) };
    static ALLOC_MAX: Cell<u64> = const { Cell::new(0) };
    static ALLOC_ON: Cell<bool> = const { Cell::new(false) };
    static IN_GUARD: Cell<bool> = const { Cell::new(false) };
    static LAST_PANIC: RefCell<Option<PanicInfo>> = const { RefCell::new(None) };
    static HARNESS_FAULT: Cell<bool> = const { Cell::new(false) };
}

/// Counting allocator: the harness binaries install it as #[global_allocator].
pub struct CountingAlloc;

unsafe impl GlobalAlloc for CountingAlloc {
    unsafe fn alloc(&self, layout: Layout) -> *mut u8 {
        note(layout.size());
        System.alloc(layout)
    }
    unsafe fn alloc_zeroed(&self, layout: Layout) -> *mut u8 {
        note(layout.size());
        System.alloc_zeroed(layout)
    }
    unsafe fn dealloc(&self, ptr: *mut u8, layout: Layout) {
        System.dealloc(ptr, layout)
    }
    unsafe fn realloc(&self, ptr: *mut u8, layout: Layout, new_size: usize) -> *mut u8 {
        if new_size > layout.size() {
            note(new_size - layout.size());
            note_single(new_size);
        }
        System.realloc(ptr, layout, new_size)
    }
}

#[inline]
fn note(n: usize) {
    let _ = ALLOC_ON.try_with(|on| {
        if on.get() {
            let _ = ALLOC_BYTES.try_with(|b| b.set(b.get().wrapping_add(n as u64)));
            let _ = ALLOC_MAX.try_with(|m| {
                if (n as u64) > m.get() {
                    m.set(n as u64)
                }
            });
        }
    });
}
#[inline]
fn note_single(n: usize) {
    let _ = ALLOC_ON.try_with(|on| {
        if on.get() {
            let _ = ALLOC_MAX.try_with(|m| {
                if (n as u64) > m.get() {
                    m.set(n as u64)
                }
            });
        }
    });
}

#[derive(Clone, Debug)]
pub struct PanicInfo {
    pub message: String,
    pub file: String,
    pub line: u32,
    pub func: String,
}

impl PanicInfo {
    /// Stable signature: message with digits normalised, source file without line, enclosing function when known.
    pub fn signature(&self) -> String {
        let mut msg = String::new();
        let mut last_digit = false;
        // drop quoted user data (string contents) from the message
        let head = match self.message.find(|c| c == '`' || c == '\'' || c == '"') {
            Some(i) => &self.message[..i],
            None => &self.message[..],
        };
        for c in head.chars() {
            if c.is_ascii_digit() {
                if !last_digit {
                    msg.push('#');
                }
                last_digit = true;
            } else {
                last_digit = false;
                msg.push(c);
            }
        }
        if msg.len() > 120 {
            let mut cut = 120;
            while !msg.is_char_boundary(cut) {
                cut -= 1;
            }
            msg.truncate(cut);
        }
        let file = short_file(&self.file);
        if self.func.is_empty() {
            format!("panic:{}@{}", msg, file)
        } else {
            format!("panic:{}@{}:{}", msg, file, self.func)
        }
    }
}

fn short_file(f: &str) -> String {
    if let Some(i) = f.find("/src/") {
        // keep the crate-relative part, prefixed by the crate directory name
        let head = &f[..i];
        let krate = head.rsplit('/').next().unwrap_or("");
        format!("{}{}", krate, &f[i..])
    } else {
        f.to_string()
    }
}

static HOOK: Once = Once::new();

pub fn install_panic_hook() {
    HOOK.call_once(|| {
        let default = panic::take_hook();
        panic::set_hook(Box::new(move |info| {
            let in_guard = IN_GUARD.try_with(|g| g.get()).unwrap_or(false);
            if !in_guard {
                default(info);
                return;
            }
            let message = if let Some(s) = info.payload().downcast_ref::<&str>() {
                s.to_string()
            } else if let Some(s) = info.payload().downcast_ref::<String>() {
                s.clone()
            } else {
                "<non-string panic>".to_string()
            };
            let (file, line) = info.location().map(|l| (l.file().to_string(), l.line())).unwrap_or(("?".into(), 0));
            let func = first_frame_in_scope();
            let _ = LAST_PANIC.try_with(|p| {
                *p.borrow_mut() = Some(PanicInfo { message, file, line, func });
            });
        }));
    });
}

/// name of the innermost frame that belongs to the code under test (`rdp::…` or `mstsc::…`)
fn first_frame_in_scope() -> String {
    let bt = std::backtrace::Backtrace::force_capture().to_string();
    for l in bt.lines() {
        let t = l.trim();
        // lines look like "12: rdp::core::per::read_integer_16"
        if let Some(idx) = t.find(": ") {
            let name = &t[idx + 2..];
            let name = name.trim_start_matches('<');
            if name.starts_with("rdp::") || name.contains(" rdp::") || name.starts_with("mstsc::") || name.contains("::mstsc::") {
                // strip generic noise and hashes
                let mut n = name.to_string();
                if let Some(h) = n.rfind("::h") {
                    if n.len() - h == 19 {
                        n.truncate(h);
                    }
                }
                return n;
            }
        }
    }
    String::new()
}

#[derive(Clone, Debug, Default)]
pub struct AllocStats {
    pub total: u64,
    pub max_single: u64,
}

pub enum Guarded<T> {
    Done(T, AllocStats),
    Panicked(PanicInfo),
}

/// Run `f` (a call into the code under test) catching panics and counting allocations.
pub fn guarded<T>(f: impl FnOnce() -> T) -> Guarded<T> {
    install_panic_hook();
    let prev_guard = IN_GUARD.with(|g| g.replace(true));
    let prev_on = ALLOC_ON.with(|a| a.replace(true));
    let (b0, m0) = (ALLOC_BYTES.with(|b| b.replace(0)), ALLOC_MAX.with(|m| m.replace(0)));
    let r = panic::catch_unwind(AssertUnwindSafe(f));
    let stats = AllocStats { total: ALLOC_BYTES.with(|b| b.get()), max_single: ALLOC_MAX.with(|m| m.get()) };
    ALLOC_ON.with(|a| a.set(prev_on));
    IN_GUARD.with(|g| g.set(prev_guard));
    // nested guards accumulate into the outer one
    ALLOC_BYTES.with(|b| b.set(b0.wrapping_add(stats.total)));
    ALLOC_MAX.with(|m| m.set(m0.max(stats.max_single)));
    match r {
        Ok(v) => Guarded::Done(v, stats),
        Err(_) => {
            let harness = HARNESS_FAULT.with(|h| h.replace(false));
            let mut info = LAST_PANIC.with(|p| p.borrow_mut().take()).unwrap_or(PanicInfo {
                message: "<unknown panic>".into(),
                file: "?".into(),
                line: 0,
                func: String::new(),
            });
            if harness {
                info.message = format!("HARNESS-FAULT {}", info.message);
            }
            Guarded::Panicked(info)
        }
    }
}

/// Pause allocation accounting (used by in-memory reference servers that run inside a guarded call)
pub fn unaccounted<T>(f: impl FnOnce() -> T) -> T {
    let prev = ALLOC_ON.with(|a| a.replace(false));
    let r = panic::catch_unwind(AssertUnwindSafe(f));
    ALLOC_ON.with(|a| a.set(prev));
    match r {
        Ok(v) => v,
        Err(e) => {
            // a panic in harness code running inside a guarded call must never be blamed on the library
            HARNESS_FAULT.with(|h| h.set(true));
            panic::resume_unwind(e)
        }
    }
}
