pub mod guard;
pub mod report;
pub mod src;

pub use guard::{guarded, unaccounted, AllocStats, CountingAlloc, Guarded, PanicInfo};
pub use report::{hex, unhex, Failure, Outcome, Report, Tier};
pub use src::Src;
