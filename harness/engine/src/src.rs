//! Choice source: every random decision of a generated case is decoded from a
//! byte string.  proptest generates and shrinks the byte string, libFuzzer
//! mutates it; when the bytes run out every further choice is 0, i.e. the
//! simplest alternative, so shrinking the byte string shrinks the case.

pub struct Src<'a> {
    data: &'a [u8],
    pos: usize,
}

pub const B16: [u16; 40] = [
    0, 1, 2, 3, 4, 5, 6, 7, 8, 9, 14, 15, 16, 17, 18, 19, 31, 32, 33, 63, 64, 127, 128, 129, 255, 256, 257, 1000, 1001,
    1002, 1003, 1004, 0x7ffe, 0x7fff, 0x8000, 0x8001, 0xfbff, 0xfffd, 0xfffe, 0xffff,
];

pub const B32: [u32; 24] = [
    0, 1, 2, 3, 4, 7, 8, 0x7f, 0x80, 0xff, 0x100, 0x7fff, 0x8000, 0xffff, 0x1_0000, 0x1_0001, 0x7fff_ffff, 0x8000_0000,
    0x8000_0001, 0xffff_0000, 0xffff_fffc, 0xffff_fffd, 0xffff_fffe, 0xffff_ffff,
];

impl<'a> Src<'a> {
    pub fn new(data: &'a [u8]) -> Self {
        Src { data, pos: 0 }
    }
    pub fn consumed(&self) -> usize {
        self.pos
    }
    pub fn exhausted(&self) -> bool {
        self.pos >= self.data.len()
    }
    pub fn u8(&mut self) -> u8 {
        let v = self.data.get(self.pos).copied().unwrap_or(0);
        self.pos += 1;
        v
    }
    pub fn u16(&mut self) -> u16 {
        let hi = self.u8() as u16;
        let lo = self.u8() as u16;
        (hi << 8) | lo
    }
    pub fn u32(&mut self) -> u32 {
        let hi = self.u16() as u32;
        let lo = self.u16() as u32;
        (hi << 16) | lo
    }
    pub fn u64(&mut self) -> u64 {
        let hi = self.u32() as u64;
        let lo = self.u32() as u64;
        (hi << 32) | lo
    }
    pub fn bool(&mut self) -> bool {
        self.u8() & 1 == 1
    }
    /// true with probability num/256; a zero byte means false
    pub fn chance(&mut self, num: u16) -> bool {
        (self.u8() as u16) + num >= 256
    }
    /// uniform-ish index below n, monotone in the underlying bytes (0 -> 0)
    pub fn below(&mut self, n: usize) -> usize {
        if n <= 1 {
            return 0;
        }
        if n <= 256 {
            (self.u8() as usize * n) >> 8
        } else if n <= 65536 {
            (self.u16() as usize * n) >> 16
        } else {
            ((self.u32() as u64 * n as u64) >> 32) as usize
        }
    }
    /// inclusive range
    pub fn range(&mut self, lo: usize, hi: usize) -> usize {
        if hi <= lo {
            return lo;
        }
        lo + self.below(hi - lo + 1)
    }
    pub fn pick<T: Clone>(&mut self, xs: &[T]) -> T {
        xs[self.below(xs.len())].clone()
    }
    /// n literal bytes (zeros once exhausted)
    pub fn bytes(&mut self, n: usize) -> Vec<u8> {
        (0..n).map(|_| self.u8()).collect()
    }
    /// n bytes expanded from a 4-byte seed with xorshift; seed 0 gives zeros.
    pub fn fill(&mut self, n: usize) -> Vec<u8> {
        let seed = self.u32();
        expand(seed, n)
    }
    /// boundary-biased u16: half of the time a boundary value, otherwise raw
    pub fn b16(&mut self) -> u16 {
        let sel = self.u8();
        if sel < 128 {
            B16[(sel as usize * B16.len()) >> 7]
        } else {
            self.u16()
        }
    }
    pub fn b32(&mut self) -> u32 {
        let sel = self.u8();
        if sel < 96 {
            B32[(sel as usize * B32.len()) / 96]
        } else if sel < 160 {
            self.b16() as u32
        } else {
            self.u32()
        }
    }
    /// small count biased towards small values: 0..=max
    pub fn small(&mut self, max: usize) -> usize {
        let b = self.u8() as usize;
        // square the fraction so small values dominate
        let f = b * b; // 0..65025
        (f * (max + 1)) / 65026
    }
}

pub fn expand(seed: u32, n: usize) -> Vec<u8> {
    if seed == 0 {
        return vec![0; n];
    }
    // 1 seed in 32: content that looks like protocol structure rather than noise (payloads that start with a frame header,
    // a token signature, a DER header; constant and alternating fills)
    if seed >> 27 == 0x1F {
        // headers that announce exactly n bytes: a payload that is itself a complete frame / token of its own length
        let own: [Vec<u8>; 4] = [vec![3, 0, (n >> 8) as u8, n as u8], vec![0, n as u8], vec![0, 0x80 | (n >> 8) as u8, n as u8], vec![0x30, 0x82, (n.saturating_sub(4) >> 8) as u8, n.saturating_sub(4) as u8]];
        let magic: &[u8] = match (seed >> 16) % 18 {
            14 => &own[0],
            15 => &own[1],
            16 => &own[2],
            17 => &own[3],
            0 => &[0xFF],
            1 => &[3, 0, 0, 4],
            2 => &[3, 0, 0xFF, 0xFF],
            3 => &[0, 2],
            4 => &[0x80, 0x80, 3],
            5 => b"NTLMSSP\0",
            6 => &[0x30, 0x82, 0xFF, 0xFF],
            7 => &[2, 0xF0, 0x80],
            8 => &[0, 0xFF],
            9 => &[0x7F, 0x66, 0x82],
            10 => &[0x64, 0, 0, 3, 0xEB, 0x70],
            11 => &[1, 0, 0, 0],
            12 => &[0x10],
            _ => &[0xAA, 0x55],
        };
        let repeat = (seed >> 8) & 1 == 0;
        let mut out = Vec::with_capacity(n);
        while out.len() < n {
            if repeat || out.len() < magic.len() {
                let k = out.len() % magic.len();
                out.push(magic[k]);
            } else {
                out.push(0);
            }
        }
        return out;
    }
    let mut s = seed as u64 | ((seed as u64) << 32) | 1;
    let mut out = Vec::with_capacity(n);
    while out.len() < n {
        s ^= s << 13;
        s ^= s >> 7;
        s ^= s << 17;
        let w = s.to_le_bytes();
        let take = (n - out.len()).min(8);
        out.extend_from_slice(&w[..take]);
    }
    out
}

/// splitmix-style derivation of per-worker seeds
pub fn mix(a: u64, b: u64) -> u64 {
    let mut z = a.wrapping_add(0x9E3779B97F4A7C15).wrapping_add(b.wrapping_mul(0xBF58476D1CE4E5B9));
    z = (z ^ (z >> 30)).wrapping_mul(0xBF58476D1CE4E5B9);
    z = (z ^ (z >> 27)).wrapping_mul(0x94D049BB133111EB);
    z ^ (z >> 31)
}

pub fn hash_str(s: &str) -> u64 {
    let mut h: u64 = 0xcbf29ce484222325;
    for b in s.bytes() {
        h ^= b as u64;
        h = h.wrapping_mul(0x100000001b3);
    }
    h
}
