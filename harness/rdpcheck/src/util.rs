//! Helpers shared by the property checks.
use engine::{guarded, AllocStats, Guarded, Outcome, PanicInfo};
use rdp::model::error::RdpResult;

pub enum Res<T> {
    Ok(T),
    Err(String),
    Panic(PanicInfo),
}

impl<T> Res<T> {
    pub fn is_ok(&self) -> bool {
        matches!(self, Res::Ok(_))
    }
    pub fn is_err(&self) -> bool {
        matches!(self, Res::Err(_))
    }
    pub fn kind(&self) -> &'static str {
        match self {
            Res::Ok(_) => "ok",
            Res::Err(_) => "err",
            Res::Panic(_) => "panic",
        }
    }
}

/// Call into the library: catches panics, counts allocations.
pub fn call<T>(f: impl FnOnce() -> RdpResult<T>) -> (Res<T>, AllocStats) {
    match guarded(f) {
        Guarded::Done(Ok(v), st) => (Res::Ok(v), st),
        Guarded::Done(Err(e), st) => (Res::Err(format!("{:?}", e)), st),
        Guarded::Panicked(p) => (Res::Panic(p), AllocStats::default()),
    }
}

/// Same for infallible library functions.
pub fn call_plain<T>(f: impl FnOnce() -> T) -> (Res<T>, AllocStats) {
    match guarded(f) {
        Guarded::Done(v, st) => (Res::Ok(v), st),
        Guarded::Panicked(p) => (Res::Panic(p), AllocStats::default()),
    }
}

/// record a panic as a failure of the "never panics" clause
pub fn fail_panic(out: &mut Outcome, entry: &str, p: &PanicInfo) {
    out.fail(format!("{}:{}", entry, p.signature()), format!("panic in {}: '{}' at {}:{} (in {})", entry, p.message, p.file, p.line, p.func));
}

/// DESIGN §5 "memory out of proportion" for a call on n input bytes
pub fn check_alloc(out: &mut Outcome, entry: &str, st: &AllocStats, n: usize) {
    let single = 1u64 << 20 | 0;
    let single_bound = single + 64 * n as u64;
    let total_bound = (16u64 << 20) + 4096 * n as u64;
    if st.max_single > single_bound {
        out.fail(format!("{}:alloc-single", entry), format!("single allocation of {} bytes for {} input bytes (bound {})", st.max_single, n, single_bound));
    } else if st.total > total_bound {
        out.fail(format!("{}:alloc-total", entry), format!("{} bytes allocated for {} input bytes (bound {})", st.total, n, total_bound));
    }
}

pub fn hexs(b: &[u8]) -> String {
    let mut s = String::new();
    for (i, x) in b.iter().enumerate() {
        if i >= 64 {
            s.push_str(&format!("…(+{})", b.len() - 64));
            break;
        }
        s.push_str(&format!("{:02x}", x));
    }
    s
}
