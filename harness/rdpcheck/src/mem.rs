//! In-memory lane: the client stack from X.224 upwards runs over a duplex whose server side is the
//! sans-IO reference server (DESIGN §2.2).
use crate::util::{call, Res};
use engine::{unaccounted, Src};
use rdp::core::client::RdpClient;
use rdp::core::gcc::KeyboardLayout;
use rdp::core::global;
use rdp::core::mcs;
use rdp::core::sec;
use rdp::core::tpkt;
use rdp::core::x224;
use rdp::model::link::{Link, Stream};
use refimpl::server::{Fault, OutMsg, Server, ServerProfile};
use serde::{Deserialize, Serialize};
use std::cell::RefCell;
use std::collections::VecDeque;
use std::io::{self, Read, Write};
use std::rc::Rc;

pub struct Shared {
    pub server: Server,
    pub to_client: VecDeque<u8>,
    pub pending: Vec<u8>,
    /// everything the client wrote
    pub transcript: Vec<u8>,
    pub eof_reads: u32,
    pub delivered: usize,
    pub sent_msgs: Vec<(String, usize, Option<String>)>,
    /// per-read chunk cap (0 = unlimited)
    pub chunk: usize,
    pub spin: bool,
    /// when false the server is not consulted (manual feeding only)
    pub auto_feed: bool,
    /// the next write calls of the client fail with this io::ErrorKind index (crate::io::ERROR_KINDS; 255 = WouldBlock),
    /// nothing is accepted: a transient transport error
    pub fail_writes: Vec<u8>,
}

pub type Handle = Rc<RefCell<Shared>>;

pub struct Duplex(pub Handle);

pub fn new_duplex(profile: ServerProfile, fault: Option<Fault>) -> (Duplex, Handle) {
    let mut server = Server::new(profile);
    server.fault = fault;
    let h = Rc::new(RefCell::new(Shared { server, to_client: VecDeque::new(), pending: Vec::new(), transcript: Vec::new(), eof_reads: 0, delivered: 0, sent_msgs: Vec::new(), chunk: 0, spin: false, auto_feed: true, fail_writes: Vec::new() }));
    (Duplex(h.clone()), h)
}

impl Shared {
    /// let the reference server consume what the client has written so far
    pub fn pump(&mut self) {
        if self.pending.is_empty() {
            return;
        }
        let data = std::mem::take(&mut self.pending);
        let msgs: Vec<OutMsg> = self.server.feed(&data);
        for m in msgs {
            self.sent_msgs.push((m.name.to_string(), m.bytes.len(), m.faulted.clone()));
            self.to_client.extend(m.bytes.iter());
        }
    }
    pub fn push(&mut self, bytes: &[u8]) {
        self.to_client.extend(bytes.iter());
    }
}

impl Read for Duplex {
    fn read(&mut self, buf: &mut [u8]) -> io::Result<usize> {
        if buf.is_empty() {
            return Ok(0);
        }
        unaccounted(|| {
            let mut s = self.0.borrow_mut();
            if s.to_client.is_empty() && s.auto_feed {
                s.pump();
            }
            if s.to_client.is_empty() {
                s.eof_reads += 1;
                if s.eof_reads > 64 {
                    s.spin = true;
                    return Err(io::Error::new(io::ErrorKind::Other, "spin: more than 64 reads at end of stream"));
                }
                return Ok(0);
            }
            let cap = if s.chunk == 0 { usize::MAX } else { s.chunk };
            let n = buf.len().min(cap).min(s.to_client.len());
            for b in buf.iter_mut().take(n) {
                *b = s.to_client.pop_front().unwrap();
            }
            s.delivered += n;
            Ok(n)
        })
    }
}

impl Write for Duplex {
    fn write(&mut self, buf: &[u8]) -> io::Result<usize> {
        unaccounted(|| {
            let mut s = self.0.borrow_mut();
            if !s.fail_writes.is_empty() {
                let k = s.fail_writes.remove(0);
                let kind = if k == 255 { io::ErrorKind::WouldBlock } else { crate::io::ERROR_KINDS[k as usize % crate::io::ERROR_KINDS.len()] };
                return Err(io::Error::new(kind, "injected transient write error"));
            }
            s.pending.extend_from_slice(buf);
            s.transcript.extend_from_slice(buf);
            Ok(buf.len())
        })
    }
    fn flush(&mut self) -> io::Result<()> {
        Ok(())
    }
}

pub const LAYOUTS: [KeyboardLayout; 19] = [
    KeyboardLayout::Arabic,
    KeyboardLayout::Bulgarian,
    KeyboardLayout::ChineseUsKeyboard,
    KeyboardLayout::Czech,
    KeyboardLayout::Danish,
    KeyboardLayout::German,
    KeyboardLayout::Greek,
    KeyboardLayout::US,
    KeyboardLayout::Spanish,
    KeyboardLayout::Finnish,
    KeyboardLayout::French,
    KeyboardLayout::Hebrew,
    KeyboardLayout::Hungarian,
    KeyboardLayout::Icelandic,
    KeyboardLayout::Italian,
    KeyboardLayout::Japanese,
    KeyboardLayout::Korean,
    KeyboardLayout::Dutch,
    KeyboardLayout::Norwegian,
];

#[derive(Serialize, Deserialize, Hash, Clone, Debug, PartialEq, Eq)]
pub struct ClientCfg {
    pub width: u16,
    pub height: u16,
    pub layout: u8,
    pub name: String,
    pub domain: String,
    pub user: String,
    pub password: String,
    pub hash: Option<Vec<u8>>,
    pub auto_logon: bool,
    pub restricted_admin: bool,
    pub blank_creds: bool,
    pub nla: bool,
    pub check_certificate: bool,
    /// order in which the Connector's setters are called (0 = the order of the builder's declaration); bit 15: every boolean
    /// setter is first called with the opposite value (a toggle that ends where it should)
    #[serde(default)]
    pub setter_order: u16,
}

impl ClientCfg {
    pub fn simple() -> ClientCfg {
        ClientCfg { width: 800, height: 600, layout: 7, name: "rdp-rs".into(), domain: "".into(), user: "user".into(), password: "pass".into(), hash: None, auto_logon: false, restricted_admin: false, blank_creds: false, nla: false, check_certificate: false, setter_order: 0 }
    }
    pub fn layout(&self) -> KeyboardLayout {
        LAYOUTS[self.layout as usize % LAYOUTS.len()]
    }
}

/// string classes of DESIGN §C04
/// code points at the edges of the UTF-8 / UTF-16 encoding forms (none of them has a case mapping)
pub const EDGE_CHARS: [char; 18] = ['\u{7F}', '\u{80}', '\u{7FF}', '\u{800}', '\u{D7FF}', '\u{E000}', '\u{FFFD}', '\u{FFFF}', '\u{10000}', '\u{10001}', '\u{FFFFF}', '\u{100000}', '\u{10FFFE}', '\u{10FFFF}', '\u{FEFF}', '\u{FFFE}', '\u{200B}', '\u{202E}'];

/// strings with a meaning of their own for some tool, server or encoder (local-account shorthand, wildcards, a byte order
/// mark in front, separators)
pub const MAGIC_STRINGS: [&str; 16] = [".", "..", "\\", "@", ".\\", "localhost", "WORKGROUP", "-", "*", " ", "NT AUTHORITY", "$", "\u{FEFF}name", "\u{FEFF}", "a@b", "%s"];

pub fn gen_string(s: &mut Src, max_units: usize) -> String {
    if s.chance(10) {
        return s.pick(&MAGIC_STRINGS).to_string();
    }
    let class = s.below(11);
    let n = match s.below(6) {
        0 => 0,
        1 => s.pick(&[14usize, 15, 16, 17, 31, 32, 33]).min(max_units),
        _ => 1 + s.below(max_units.max(1)),
    };
    let ascii = |s: &mut Src| (0x21 + s.below(0x5E) as u8) as char;
    let latin = |s: &mut Src| char::from_u32(0xC0 + s.below(0x3F) as u32).unwrap_or('é');
    let cjk = |s: &mut Src| char::from_u32(0x4E00 + s.below(0x2000) as u32).unwrap_or('日');
    let emoji = |s: &mut Src| char::from_u32(0x1F600 + s.below(0x40) as u32).unwrap_or('😀');
    let comb = |s: &mut Src| char::from_u32(0x0300 + s.below(0x30) as u32).unwrap_or('\u{301}');
    let mut out = String::new();
    let mut units = 0usize;
    while units < n {
        let c = match class {
            0 | 1 | 2 | 3 => ascii(s),
            4 => latin(s),
            5 => cjk(s),
            6 => emoji(s),
            7 => {
                if units % 2 == 1 {
                    comb(s)
                } else {
                    ascii(s)
                }
            }
            10 => {
                if s.bool() {
                    s.pick(&EDGE_CHARS)
                } else {
                    ascii(s)
                }
            }
            _ => match s.below(6) {
                5 => s.pick(&EDGE_CHARS),
                0 => latin(s),
                1 => cjk(s),
                2 => emoji(s),
                3 => comb(s),
                _ => ascii(s),
            },
        };
        units += c.len_utf16();
        out.push(c);
    }
    out
}

pub fn gen_cfg(s: &mut Src) -> ClientCfg {
    let width = s.b16();
    let height = s.b16();
    ClientCfg {
        width,
        height,
        layout: s.below(19) as u8,
        name: gen_string(s, 40),
        domain: gen_string(s, 24),
        user: gen_string(s, 24),
        password: gen_string(s, 40),
        hash: if s.chance(48) { Some(s.bytes(16)) } else { None },
        auto_logon: s.bool(),
        restricted_admin: s.chance(64),
        blank_creds: s.chance(64),
        nla: s.bool(),
        check_certificate: false,
        setter_order: 0,
    }
}

pub struct Connected {
    pub client: RdpClient<Duplex>,
}

/// Mirror of Connector::connect after the X.224 negotiation (which needs real TLS): MCS connect, client info /
/// licence, global channel. Returns the connected client or the error / panic of the failing step.
pub fn mem_connect(cfg: &ClientCfg, duplex: Duplex, selected: u32) -> (Res<Connected>, &'static str) {
    let (r, step, _) = mem_connect_stats(cfg, duplex, selected);
    (r, step)
}

/// like `mem_connect`, also returning what the client code allocated on the way (sum of the totals, largest single request)
pub fn mem_connect_stats(cfg: &ClientCfg, duplex: Duplex, selected: u32) -> (Res<Connected>, &'static str, engine::guard::AllocStats) {
    let mut acc = engine::guard::AllocStats { total: 0, max_single: 0 };
    let mut add = |st: &engine::guard::AllocStats| {
        acc.total += st.total;
        acc.max_single = acc.max_single.max(st.max_single);
    };
    let tp = tpkt::Client::new(Link::new(Stream::Raw(duplex)));
    let proto = if selected == 2 { x224::Protocols::ProtocolHybrid } else { x224::Protocols::ProtocolSSL };
    let x = x224::Client::from_transport(tp, proto);
    let mut m = mcs::Client::new(x);
    let (name, w, h, layout) = (cfg.name.clone(), cfg.width, cfg.height, cfg.layout());
    let (r, st) = call(|| m.connect(name, w, h, layout));
    add(&st);
    match r {
        Res::Ok(()) => {}
        Res::Err(e) => return (Res::Err(e), "mcs.connect", acc),
        Res::Panic(p) => return (Res::Panic(p), "mcs.connect", acc),
    }
    let empty = String::new();
    let (d, u, p) = if cfg.restricted_admin { (&empty, &empty, &empty) } else { (&cfg.domain, &cfg.user, &cfg.password) };
    let auto = cfg.auto_logon;
    let (r, st) = call(|| sec::connect(&mut m, d, u, p, auto));
    add(&st);
    match r {
        Res::Ok(()) => {}
        Res::Err(e) => return (Res::Err(e), "sec.connect", acc),
        Res::Panic(p) => return (Res::Panic(p), "sec.connect", acc),
    }
    let (r, st) = call(|| Ok(global::Client::new(m.get_user_id(), m.get_global_channel_id(), w, h, layout, &cfg.name)));
    add(&st);
    match r {
        Res::Ok(g) => (Res::Ok(Connected { client: RdpClient::from_layers(m, g) }), "connected", acc),
        Res::Err(e) => (Res::Err(e), "global.new", acc),
        Res::Panic(p) => (Res::Panic(p), "global.new", acc),
    }
}

/// connect and run the activation against an auto-mode profile; Err(description) when that fails
pub fn activated_session(cfg: &ClientCfg, profile: ServerProfile) -> Result<(Connected, Handle), String> {
    let sel = profile.selected_protocol;
    let (duplex, h) = new_duplex(profile, None);
    let (r, step) = mem_connect(cfg, duplex, sel);
    let mut conn = match r {
        Res::Ok(c) => c,
        Res::Err(e) => return Err(format!("{} failed: {}", step, e)),
        Res::Panic(p) => return Err(format!("{} panicked: {}", step, p.message)),
    };
    for _ in 0..64 {
        let idle = {
            let s = h.borrow();
            s.to_client.is_empty() && s.pending.is_empty()
        };
        if idle {
            break;
        }
        let (r, _) = call(|| conn.client.read(|_| ()));
        match r {
            Res::Ok(()) => {}
            Res::Err(e) => return Err(format!("read during activation failed: {}", e)),
            Res::Panic(p) => return Err(format!("read during activation panicked: {}", p.message)),
        }
    }
    if h.borrow().server.phase != refimpl::server::Phase::Active {
        return Err(format!("activation did not complete: phase {:?}, violations {:?}", h.borrow().server.phase, h.borrow().server.violations));
    }
    Ok((conn, h))
}
