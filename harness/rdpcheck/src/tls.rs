//! TLS lane: the real public entry `Connector::connect` runs over one end of a socket pair; a server
//! thread accepts TLS with OpenSSL and runs the reference CredSSP/NTLM server and the sans-IO RDP server.
use openssl::asn1::Asn1Time;
use openssl::bn::{BigNum, BigNumContext, MsbOption};
use openssl::ec::{EcGroup, EcKey, PointConversionForm};
use openssl::hash::MessageDigest;
use openssl::nid::Nid;
use openssl::pkey::{PKey, Private};
use openssl::rsa::Rsa;
use openssl::ssl::{SslAcceptor, SslMethod, SslStream};
use openssl::x509::extension::BasicConstraints;
use openssl::x509::{X509NameBuilder, X509};
use refimpl::crypto::{self, SealCtx};
use refimpl::der::LenForm;
use refimpl::ntlm::{self, Account, Challenge, TsCredentials};
use refimpl::server::{Server, ServerProfile};
use refimpl::wire::{self, ConnectionRequest, NegReply};
use serde::{Deserialize, Serialize};
use std::io::{self, Read, Write};
use std::os::unix::net::UnixStream;
use std::sync::{Arc, Mutex, OnceLock};
use std::time::Duration;

pub struct Identity {
    pub name: &'static str,
    pub cert: X509,
    pub key: PKey<Private>,
    /// contents of the certificate's subjectPublicKey BIT STRING
    pub spk: Vec<u8>,
    pub trusted: bool,
    pub acceptor: SslAcceptor,
}

pub struct Pki {
    pub ids: Vec<Identity>,
}

fn name(cn: &str) -> openssl::x509::X509Name {
    let mut b = X509NameBuilder::new().unwrap();
    b.append_entry_by_text("CN", cn).unwrap();
    b.build()
}

fn make_cert(cn: &str, key: &PKey<Private>, issuer: Option<(&X509, &PKey<Private>)>, ca: bool, serial: u32) -> X509 {
    let mut b = X509::builder().unwrap();
    b.set_version(2).unwrap();
    let mut sn = BigNum::new().unwrap();
    sn.rand(64, MsbOption::MAYBE_ZERO, false).unwrap();
    sn.add_word(serial).unwrap();
    b.set_serial_number(&sn.to_asn1_integer().unwrap()).unwrap();
    b.set_subject_name(&name(cn)).unwrap();
    match issuer {
        Some((c, _)) => b.set_issuer_name(c.subject_name()).unwrap(),
        None => b.set_issuer_name(&name(cn)).unwrap(),
    }
    b.set_pubkey(key).unwrap();
    b.set_not_before(&Asn1Time::from_unix(1_600_000_000).unwrap()).unwrap();
    b.set_not_after(&Asn1Time::days_from_now(3650).unwrap()).unwrap();
    if ca {
        b.append_extension(BasicConstraints::new().critical().ca().build().unwrap()).unwrap();
    }
    match issuer {
        Some((_, k)) => b.sign(k, MessageDigest::sha256()).unwrap(),
        None => b.sign(key, MessageDigest::sha256()).unwrap(),
    }
    b.build()
}

/// certificates with unusual but valid features: variant 0 = plain (EdDSA signature), 1 = X.509 v1 without extensions and a
/// 20-byte serial, 2 = validity beyond 2050 (GeneralizedTime) with several extensions, 3 = many name attributes (UTF-8)
fn make_odd_cert(cn: &str, key: &PKey<Private>, variant: u8) -> X509 {
    use openssl::x509::extension::{ExtendedKeyUsage, KeyUsage, SubjectAlternativeName};
    let mut b = X509::builder().unwrap();
    b.set_version(if variant == 1 { 0 } else { 2 }).unwrap();
    let mut sn = BigNum::new().unwrap();
    sn.rand(if variant == 1 { 158 } else { 64 }, MsbOption::ONE, false).unwrap();
    b.set_serial_number(&sn.to_asn1_integer().unwrap()).unwrap();
    let mut nb = X509NameBuilder::new().unwrap();
    nb.append_entry_by_text("CN", cn).unwrap();
    if variant == 3 {
        nb.append_entry_by_text("O", "Organisation \u{e9}\u{e8} \u{65e5}\u{672c}").unwrap();
        nb.append_entry_by_text("OU", "unit").unwrap();
        nb.append_entry_by_text("C", "FR").unwrap();
        nb.append_entry_by_text("L", &"x".repeat(120)).unwrap();
    }
    let n = nb.build();
    b.set_subject_name(&n).unwrap();
    b.set_issuer_name(&n).unwrap();
    b.set_pubkey(key).unwrap();
    b.set_not_before(&Asn1Time::from_unix(1_600_000_000).unwrap()).unwrap();
    b.set_not_after(&Asn1Time::days_from_now(if variant == 2 { 20_000 } else { 3650 }).unwrap()).unwrap();
    if variant == 2 {
        b.append_extension(BasicConstraints::new().build().unwrap()).unwrap();
        b.append_extension(KeyUsage::new().critical().digital_signature().key_encipherment().build().unwrap()).unwrap();
        b.append_extension(ExtendedKeyUsage::new().server_auth().build().unwrap()).unwrap();
        let ctx = b.x509v3_context(None, None);
        let san = SubjectAlternativeName::new().dns("rdp.example.org").ip("10.1.2.3").email("a@b.c").build(&ctx).unwrap();
        b.append_extension(san).unwrap();
    }
    let md = if key.id() == openssl::pkey::Id::ED25519 { MessageDigest::null() } else { MessageDigest::sha384() };
    b.sign(key, md).unwrap();
    b.build()
}

fn acceptor(cert: &X509, key: &PKey<Private>) -> SslAcceptor {
    let mut a = SslAcceptor::mozilla_intermediate_v5(SslMethod::tls()).unwrap();
    a.set_private_key(key).unwrap();
    a.set_certificate(cert).unwrap();
    a.build()
}

static PKI: OnceLock<Pki> = OnceLock::new();

/// Generates the key pool and points SSL_CERT_FILE at the harness CA. Call once before worker threads start.
pub fn pki() -> &'static Pki {
    PKI.get_or_init(|| {
        let ca_key = PKey::from_rsa(Rsa::generate(2048).unwrap()).unwrap();
        let ca = make_cert("verif harness CA", &ca_key, None, true, 1);
        let dir = format!("{}/harness/target", engine::report::verif_dir());
        let _ = std::fs::create_dir_all(&dir);
        let path = format!("{}/verif-ca-{}.pem", dir, std::process::id());
        std::fs::write(&path, ca.to_pem().unwrap()).unwrap();
        std::env::set_var("SSL_CERT_FILE", &path);
        std::env::set_var("SSL_CERT_DIR", "/nonexistent");
        let mut ids = Vec::new();
        let rsa_spk = |k: &PKey<Private>| k.rsa().unwrap().public_key_to_der_pkcs1().unwrap();
        // 0: RSA-2048 leaf signed by the CA (trusted)
        let k = PKey::from_rsa(Rsa::generate(2048).unwrap()).unwrap();
        let c = make_cert("rdp-server.trusted", &k, Some((&ca, &ca_key)), false, 2);
        ids.push(Identity { name: "rsa2048-ca-signed", spk: rsa_spk(&k), acceptor: acceptor(&c, &k), cert: c, key: k, trusted: true });
        // 1: RSA-2048 self-signed (untrusted)
        let k = PKey::from_rsa(Rsa::generate(2048).unwrap()).unwrap();
        let c = make_cert("rdp-server.selfsigned", &k, None, false, 3);
        ids.push(Identity { name: "rsa2048-self-signed", spk: rsa_spk(&k), acceptor: acceptor(&c, &k), cert: c, key: k, trusted: false });
        // 2: RSA-3072 self-signed
        let k = PKey::from_rsa(Rsa::generate(3072).unwrap()).unwrap();
        let c = make_cert("rdp-server.rsa3072", &k, None, false, 4);
        ids.push(Identity { name: "rsa3072-self-signed", spk: rsa_spk(&k), acceptor: acceptor(&c, &k), cert: c, key: k, trusted: false });
        // 3: P-256 self-signed
        let group = EcGroup::from_curve_name(Nid::X9_62_PRIME256V1).unwrap();
        let ec = EcKey::generate(&group).unwrap();
        let mut ctx = BigNumContext::new().unwrap();
        let spk = ec.public_key().to_bytes(&group, PointConversionForm::UNCOMPRESSED, &mut ctx).unwrap();
        let k = PKey::from_ec_key(ec).unwrap();
        let c = make_cert("rdp-server.p256", &k, None, false, 5);
        ids.push(Identity { name: "p256-self-signed", spk, acceptor: acceptor(&c, &k), cert: c, key: k, trusted: false });
        // unusual but valid certificates (index >= 4; used by C07 to exercise the client's certificate parser)
        for (nm, nid) in [("p384-self-signed", Nid::SECP384R1), ("p521-self-signed", Nid::SECP521R1)] {
            let group = EcGroup::from_curve_name(nid).unwrap();
            let ec = EcKey::generate(&group).unwrap();
            let spk = ec.public_key().to_bytes(&group, PointConversionForm::UNCOMPRESSED, &mut ctx).unwrap();
            let k = PKey::from_ec_key(ec).unwrap();
            let c = make_cert(nm, &k, None, false, 6);
            ids.push(Identity { name: nm, spk, acceptor: acceptor(&c, &k), cert: c, key: k, trusted: false });
        }
        if let Ok(k) = PKey::generate_ed25519() {
            let spk = k.raw_public_key().unwrap();
            let c = make_odd_cert("rdp-server.ed25519", &k, 0);
            ids.push(Identity { name: "ed25519-self-signed", spk, acceptor: acceptor(&c, &k), cert: c, key: k, trusted: false });
        }
        for variant in 1..=3u8 {
            let k = PKey::from_rsa(Rsa::generate(2048).unwrap()).unwrap();
            let c = make_odd_cert("rdp-server.odd-\u{e9}\u{4e2d}", &k, variant);
            ids.push(Identity { name: "rsa2048-odd-certificate", spk: rsa_spk(&k), acceptor: acceptor(&c, &k), cert: c, key: k, trusted: false });
        }
        // raw-key certificates whose public key begins (and, for the second, also ends) with 0xFF: the "+ 1" of the CredSSP
        // binding carries out of the first byte there (index 10 when Ed25519 is available)
        for want_last in [false] {
            for _ in 0..20_000 {
                if let Ok(k) = PKey::generate_ed25519() {
                    let spk = k.raw_public_key().unwrap();
                    if spk[0] == 0xFF && (!want_last || spk[1] == 0xFF) {
                        let c = make_odd_cert("rdp-server.ed25519-ff", &k, 0);
                        ids.push(Identity { name: "ed25519-key-starting-with-ff", spk, acceptor: acceptor(&c, &k), cert: c, key: k, trusted: false });
                        break;
                    }
                } else {
                    break;
                }
            }
        }
        // twins (always the last two): same subject, issuer and serial number, different keys - what a relay presenting its own
        // key under the identity of a server the client has met before looks like
        for nm in ["twin-a", "twin-b"] {
            let k = PKey::from_rsa(Rsa::generate(2048).unwrap()).unwrap();
            let mut c = make_cert("rdp-server.twin", &k, None, false, 9);
            // make_cert randomises the serial number: rebuild with a fixed one
            {
                let mut b = X509::builder().unwrap();
                b.set_version(2).unwrap();
                b.set_serial_number(&BigNum::from_u32(0x00C0FFEE).unwrap().to_asn1_integer().unwrap()).unwrap();
                b.set_subject_name(c.subject_name()).unwrap();
                b.set_issuer_name(c.issuer_name()).unwrap();
                b.set_pubkey(&k).unwrap();
                b.set_not_before(&Asn1Time::from_unix(1_600_000_000).unwrap()).unwrap();
                b.set_not_after(&Asn1Time::days_from_now(3650).unwrap()).unwrap();
                b.sign(&k, MessageDigest::sha256()).unwrap();
                c = b.build();
            }
            ids.push(Identity { name: nm, spk: rsa_spk(&k), acceptor: acceptor(&c, &k), cert: c, key: k, trusted: false });
        }
        Pki { ids }
    })
}

/// indices of the twin identities (same subject / issuer / serial, different keys)
pub fn twins() -> (u8, u8) {
    let n = pki().ids.len();
    ((n - 2) as u8, (n - 1) as u8)
}

/// the certificate whose key + 1 a relay would present instead of `id`'s
fn other_identity(id: &Identity) -> &'static Identity {
    let ids = &pki().ids;
    match id.name {
        "twin-a" => &ids[ids.len() - 1],
        "twin-b" => &ids[ids.len() - 2],
        _ => &ids[if std::ptr::eq(id, &ids[1]) { 0 } else { 1 }],
    }
}

/// raw-transport recorder around the client's end of the socket pair
pub struct Tee {
    pub inner: UnixStream,
    pub log: Arc<Mutex<Vec<(bool, Vec<u8>)>>>,
}

impl Read for Tee {
    fn read(&mut self, buf: &mut [u8]) -> io::Result<usize> {
        let n = self.inner.read(buf)?;
        self.log.lock().unwrap().push((false, buf[..n].to_vec()));
        Ok(n)
    }
}
impl Write for Tee {
    fn write(&mut self, buf: &[u8]) -> io::Result<usize> {
        let n = self.inner.write(buf)?;
        self.log.lock().unwrap().push((true, buf[..n].to_vec()));
        Ok(n)
    }
    fn flush(&mut self) -> io::Result<()> {
        self.inner.flush()
    }
}

#[derive(Serialize, Deserialize, Hash, Clone, Debug, PartialEq, Eq)]
pub enum FinalReply {
    Honest,
    /// one bit of the honest TSRequest flipped (index modulo its bit length)
    BitFlip(u32),
    /// public key plus this little-endian offset instead of plus one (0 = unchanged key, 2, 255, 256 …)
    Offset(u32),
    /// minus one
    MinusOne,
    /// big-endian plus one
    BigEndianPlusOne,
    /// plus one on the last byte
    LastBytePlusOne,
    /// sealed under a session key the server could not know
    WrongSessionKey(Vec<u8>),
    /// sealed with the client-to-server keys
    WrongDirection,
    /// right sealing key, wrong signing key
    WrongSignKey,
    /// key+1 of a different certificate (relay / MITM)
    OtherCert,
    /// the client's own pubKeyAuth token echoed back
    Reflect,
    Truncate(u16),
    /// bytes appended inside the sealed token
    ExtendToken(Vec<u8>),
    /// bytes appended after the DER structure
    ExtendAfter(Vec<u8>),
    /// BER long-form lengths, same content
    Reencode(u8),
    /// the server's cipher state advanced by n bytes before sealing
    AdvancedRc4(u8),
    /// sequence number other than 0
    WrongSeq(u32),
    Garbage(Vec<u8>),
    /// well-formed TSRequest with a random token
    RandomToken(Vec<u8>),
    /// properly sealed and signed, but the plaintext is key + 1 followed by these bytes (more significant bytes of the little-endian number)
    PlainSuffix(Vec<u8>),
    /// properly sealed and signed, but the plaintext is these bytes followed by key + 1
    PlainPrefix(Vec<u8>),
    /// the honest token with its 8 checksum bytes replaced by a constant ("dummy signature")
    ConstChecksum(u8),
    /// RC4(key + 1 of another certificate) obtained by xor-ing into the honest ciphertext, checksum zeroed (relay without the session key)
    RelayedXor,
    /// properly sealed and signed, plaintext = key + 1 with these (position modulo length, mask) bytes xor-ed: differences that
    /// cancel out under a sloppy comparison (the same mask twice, swapped bytes ...)
    PlainXor(Vec<(u16, u8)>),
    /// properly sealed and signed, plaintext = the first n bytes of key + 1 (n modulo the length; 0 = empty)
    PlainTruncated(u16),
    /// properly sealed and signed, plaintext = the key with 1 added to its first byte WITHOUT carry (differs from key + 1 only
    /// when that byte is 0xFF)
    NoCarryPlusOne,
}

#[derive(Serialize, Deserialize, Hash, Clone, Debug)]
pub struct NlaCfg {
    pub account_domain: String,
    pub account_user: String,
    pub account_nt_hash: Vec<u8>,
    pub challenge: Challenge,
    pub final_reply: FinalReply,
    /// fault applied to the CHALLENGE TSRequest (C07): replaces the whole TSRequest bytes
    pub challenge_override: Option<Vec<u8>>,
    pub ts_version: u32,
}

#[derive(Serialize, Deserialize, Hash, Clone, Debug)]
pub struct TlsServerCfg {
    pub identity: u8,
    pub reply: NegReply,
    pub nla: Option<NlaCfg>,
    pub profile: ServerProfile,
    /// how server output is cut into TLS records: 0 = one record per frame, n = pieces of n bytes
    pub record_cut: u16,
}

#[derive(Debug, Default)]
pub struct NlaReport {
    pub negotiate: Option<Vec<u8>>,
    pub negotiate_error: Option<String>,
    pub challenge_sent: Vec<u8>,
    pub authenticate: Option<Vec<u8>>,
    pub verify_error: Option<String>,
    pub pubkey_ok: bool,
    pub client_pubkeyauth: Option<Vec<u8>>,
    pub final_sent: Vec<u8>,
    pub final_is_honest: bool,
    /// application bytes received after the final reply was sent
    pub bytes_after_final: Vec<u8>,
    pub credentials: Option<Result<TsCredentials, String>>,
    pub ts_requests: Vec<Vec<u8>>,
    pub reached_final: bool,
    pub notes: Vec<String>,
    /// the session key of this connection as the server recovered it from the AUTHENTICATE message
    pub exported_session_key: Option<Vec<u8>>,
}

pub struct ServerReport {
    pub cr: Option<Result<ConnectionRequest, String>>,
    pub pre_tls: Vec<u8>,
    pub tls_established: bool,
    pub tls_error: Option<String>,
    pub nla: NlaReport,
    pub server: Option<Server>,
    pub app_bytes: usize,
    pub timeout: bool,
    pub early_bytes_before_reply: bool,
}

fn read_exact_or(s: &mut dyn Read, n: usize) -> io::Result<Vec<u8>> {
    let mut b = vec![0u8; n];
    s.read_exact(&mut b)?;
    Ok(b)
}

/// read one DER element (a TSRequest) from the stream
fn read_der(s: &mut dyn Read) -> io::Result<Vec<u8>> {
    let mut h = read_exact_or(s, 2)?;
    let len = if h[1] < 0x80 {
        h[1] as usize
    } else {
        let k = (h[1] & 0x7F) as usize;
        if k == 0 || k > 3 {
            return Err(io::Error::new(io::ErrorKind::InvalidData, "DER length form"));
        }
        let l = read_exact_or(s, k)?;
        h.extend_from_slice(&l);
        l.iter().fold(0usize, |a, b| (a << 8) | *b as usize)
    };
    let body = read_exact_or(s, len)?;
    h.extend_from_slice(&body);
    Ok(h)
}

fn is_timeout(e: &io::Error) -> bool {
    matches!(e.kind(), io::ErrorKind::WouldBlock | io::ErrorKind::TimedOut)
}

pub const TIMEOUT_S: u64 = 20;

/// The server side of one connection. Runs in its own thread.
pub fn serve(mut sock: UnixStream, cfg: TlsServerCfg) -> ServerReport {
    let mut rep = ServerReport { cr: None, pre_tls: Vec::new(), tls_established: false, tls_error: None, nla: NlaReport::default(), server: None, app_bytes: 0, timeout: false, early_bytes_before_reply: false };
    let _ = sock.set_read_timeout(Some(Duration::from_secs(TIMEOUT_S)));
    let _ = sock.set_write_timeout(Some(Duration::from_secs(TIMEOUT_S)));
    // 1. connection request in clear
    let hdr = match read_exact_or(&mut sock, 4) {
        Ok(h) => h,
        Err(e) => {
            rep.timeout = is_timeout(&e);
            return rep;
        }
    };
    rep.pre_tls.extend_from_slice(&hdr);
    let len = ((hdr[2] as usize) << 8) | hdr[3] as usize;
    if hdr[0] != 3 || len < 7 {
        rep.cr = Some(Err(format!("TPKT header {:02x?}", hdr)));
        return rep;
    }
    let body = match read_exact_or(&mut sock, len - 4) {
        Ok(b) => b,
        Err(e) => {
            rep.timeout = is_timeout(&e);
            return rep;
        }
    };
    rep.pre_tls.extend_from_slice(&body);
    rep.cr = Some(wire::parse_connection_request(&body).map_err(|e| e.0));
    // 2. connection confirm
    let cc = wire::connection_confirm(&cfg.reply);
    if sock.write_all(&cc.bytes).is_err() {
        return rep;
    }
    let start_tls = matches!(cfg.reply, NegReply::Response { selected, .. } if selected == 1 || selected == 2 || selected == 8);
    if !start_tls {
        // the client must refuse: record whatever it still writes on the raw transport
        drain_raw(&mut sock, &mut rep);
        return rep;
    }
    // 3. TLS
    let id = &pki().ids[cfg.identity as usize % pki().ids.len()];
    let mut tls = match id.acceptor.accept(sock) {
        Ok(t) => t,
        Err(e) => {
            rep.tls_error = Some(format!("{}", e));
            return rep;
        }
    };
    rep.tls_established = true;
    let hybrid = matches!(cfg.reply, NegReply::Response { selected: 2, .. });
    // 4. CredSSP
    if hybrid {
        if let Some(n) = &cfg.nla {
            if !credssp(&mut tls, id, n, &mut rep) {
                return rep;
            }
        }
    }
    // 5. RDP
    let mut server = Server::new(cfg.profile.clone());
    let mut buf = vec![0u8; 16384];
    loop {
        match tls.read(&mut buf) {
            Ok(0) => break,
            Ok(n) => {
                rep.app_bytes += n;
                let outs = server.feed(&buf[..n]);
                for m in outs {
                    let ok = if cfg.record_cut == 0 {
                        tls.write_all(&m.bytes).is_ok()
                    } else {
                        m.bytes.chunks(cfg.record_cut as usize).all(|c| tls.write_all(c).is_ok())
                    };
                    if !ok {
                        break;
                    }
                }
                if server.phase == refimpl::server::Phase::Closed {
                    // keep reading until the peer closes so that trailing bytes are noticed
                }
            }
            Err(e) => {
                if is_timeout(&e) {
                    rep.timeout = true;
                }
                break;
            }
        }
    }
    rep.server = Some(server);
    rep
}

fn drain_raw(sock: &mut UnixStream, rep: &mut ServerReport) {
    let mut buf = [0u8; 4096];
    loop {
        match sock.read(&mut buf) {
            Ok(0) => break,
            Ok(n) => rep.pre_tls.extend_from_slice(&buf[..n]),
            Err(e) => {
                rep.timeout = is_timeout(&e);
                break;
            }
        }
    }
}

fn drain_tls<T: Read + Write>(tls: &mut SslStream<T>, into: &mut Vec<u8>, rep_timeout: &mut bool) {
    let mut buf = [0u8; 4096];
    loop {
        match tls.read(&mut buf) {
            Ok(0) => break,
            Ok(n) => into.extend_from_slice(&buf[..n]),
            Err(e) => {
                if is_timeout(&e) {
                    *rep_timeout = true;
                }
                break;
            }
        }
    }
}

pub fn account_of(n: &NlaCfg) -> Account {
    Account { domain: n.account_domain.clone(), user: n.account_user.clone(), nt_hash: n.account_nt_hash.clone() }
}

/// returns true when the RDP phase should follow
/// the honest CredSSP / NTLM server rounds for `cfg`'s account over an established TLS stream (used by the GUI lane)
pub fn credssp_honest<T: Read + Write>(tls: &mut SslStream<T>, identity: usize, cfg: &ClientCfg) -> Result<(), String> {
    let mut rep = ServerReport { cr: None, pre_tls: Vec::new(), tls_established: true, tls_error: None, nla: NlaReport::default(), server: None, app_bytes: 0, timeout: false, early_bytes_before_reply: false };
    let challenge = crate::props::c15::gen_challenge(&mut engine::Src::new(&[7, 200, 3, 9, 120, 33, 1, 2, 3, 4, 5, 6, 7, 8, 9, 10, 11, 12, 13, 14, 15, 16, 17, 18, 19, 20]), true);
    let nt_hash = match &cfg.hash {
        Some(h) => h.clone(),
        None => crypto::nt_hash(&cfg.password),
    };
    let n = NlaCfg { account_domain: cfg.domain.clone(), account_user: cfg.user.clone(), account_nt_hash: nt_hash, challenge, final_reply: FinalReply::Honest, challenge_override: None, ts_version: 2 };
    if credssp(tls, &pki().ids[identity], &n, &mut rep) {
        Ok(())
    } else {
        Err(format!("CredSSP failed: negotiate {:?} verify {:?} credentials {:?}", rep.nla.negotiate_error, rep.nla.verify_error, rep.nla.credentials))
    }
}

fn credssp<T: Read + Write>(tls: &mut SslStream<T>, id: &Identity, n: &NlaCfg, rep: &mut ServerReport) -> bool {
    let nla = &mut rep.nla;
    // round 1: NEGOTIATE
    let t1 = match read_der(tls) {
        Ok(t) => t,
        Err(e) => {
            rep.timeout = is_timeout(&e);
            return false;
        }
    };
    nla.ts_requests.push(t1.clone());
    let nego = match ntlm::parse_ts_request(&t1, true) {
        Ok((r, _)) if r.nego_tokens.len() == 1 => r.nego_tokens[0].clone(),
        Ok(_) => {
            nla.negotiate_error = Some("first TSRequest does not carry exactly one negoToken".into());
            return false;
        }
        Err(e) => {
            nla.negotiate_error = Some(format!("first TSRequest: {}", e.0));
            return false;
        }
    };
    if let Err(e) = ntlm::parse_negotiate(&nego) {
        nla.negotiate_error = Some(format!("NEGOTIATE: {}", e.0));
    }
    nla.negotiate = Some(nego.clone());
    // round 2: CHALLENGE
    let chal = ntlm::build_challenge(&n.challenge);
    let ts2 = match &n.challenge_override {
        Some(b) => b.clone(),
        None => ntlm::build_ts_request(n.ts_version, Some(&chal.bytes), None, None, LenForm::Minimal),
    };
    nla.challenge_sent = ts2.clone();
    if tls.write_all(&ts2).is_err() {
        return false;
    }
    // round 3: AUTHENTICATE + pubKeyAuth
    let t3 = match read_der(tls) {
        Ok(t) => t,
        Err(e) => {
            rep.timeout = is_timeout(&e);
            return false;
        }
    };
    nla.ts_requests.push(t3.clone());
    let (auth, pka) = match ntlm::parse_ts_request(&t3, true) {
        Ok((r, _)) if r.nego_tokens.len() == 1 && r.pub_key_auth.is_some() => (r.nego_tokens[0].clone(), r.pub_key_auth.unwrap()),
        Ok(_) => {
            nla.verify_error = Some("second TSRequest lacks the negoToken or pubKeyAuth".into());
            return false;
        }
        Err(e) => {
            nla.verify_error = Some(format!("second TSRequest: {}", e.0));
            return false;
        }
    };
    nla.authenticate = Some(auth.clone());
    nla.client_pubkeyauth = Some(pka.clone());
    if n.challenge_override.is_some() {
        // the client answered a mutated challenge: nothing more to verify here
        return false;
    }
    let account = account_of(n);
    let v = match ntlm::verify_authenticate(&account, &nego, &chal.bytes, &n.challenge, &auth) {
        Ok(v) => v,
        Err(e) => {
            nla.verify_error = Some(e);
            return false;
        }
    };
    nla.exported_session_key = Some(v.exported_session_key.clone());
    let keys = crypto::session_keys(&v.exported_session_key);
    let mut from_client = SealCtx::new(&keys.client_sign, &keys.client_seal);
    // a server that announced less than full session security (no sealing, no key exchange) also understands a client that
    // took it at its word (MS-NLMP 3.4.2-3.4.4): messages signed but not encrypted / checksums not encrypted
    let neg_seal = n.challenge.flags & ntlm::NEG_SEAL != 0;
    let neg_kx = n.challenge.flags & ntlm::NEG_KEY_EXCH != 0;
    let mut as_negotiated = false;
    let first = match from_client.clone().unseal(&pka) {
        Some(k) => {
            let _ = from_client.unseal(&pka);
            Some(k)
        }
        None if !(neg_seal && neg_kx) => {
            let r = from_client.unseal_mode(&pka, neg_seal, neg_kx);
            if r.is_some() {
                as_negotiated = true;
                nla.notes.push(format!("the client used the session security as announced by the CHALLENGE (seal {}, key exchange {})", neg_seal, neg_kx));
            }
            r
        }
        None => None,
    };
    match first {
        Some(k) if k == id.spk => nla.pubkey_ok = true,
        // a relay does not look at the token, it forwards it: a client that bound its token to the OTHER certificate's key still
        // gets the relayed answer (which it must refuse: the key of the live TLS session is a different one)
        Some(k) if n.final_reply == FinalReply::OtherCert && k == other_identity(id).spk => {
            nla.notes.push("pubKeyAuth of the client is bound to the other certificate's key; relayed all the same".into());
        }
        Some(_) => {
            nla.verify_error = Some("pubKeyAuth unseals to something other than the certificate's public key".into());
            return false;
        }
        None => {
            nla.verify_error = Some("pubKeyAuth does not unseal under the client keys".into());
            return false;
        }
    }
    // round 4: the reply under test
    let mut to_client = SealCtx::new(&keys.server_sign, &keys.server_seal);
    let honest_token = to_client.clone().seal(&ntlm::increment_le(&id.spk));
    let honest = ntlm::build_ts_request(n.ts_version, None, None, Some(&honest_token), LenForm::Minimal);
    let mut reply = build_final(&n.final_reply, id, &keys, &to_client, &honest, &pka, n.ts_version);
    if as_negotiated && n.final_reply == FinalReply::Honest {
        let tok = to_client.clone().seal_mode(&ntlm::increment_le(&id.spk), neg_seal, neg_kx);
        reply = ntlm::build_ts_request(n.ts_version, None, None, Some(&tok), LenForm::Minimal);
    }
    // classify by the reference side, not by construction
    nla.final_is_honest = match ntlm::parse_ts_request(&reply, false) {
        Ok((r, used)) if used == reply.len() => match r.pub_key_auth {
            // any sequence number is accepted here: a reply signed under the true keys proves the session key whatever its counter
            // "incremented by one" is a statement about the little-endian number: high-order zero bytes do not change it
            Some(tok) => to_client.clone().unseal_any_seq(&tok).map(|k| strip_high_zeros(&k) == strip_high_zeros(&ntlm::increment_le(&id.spk))).unwrap_or(false),
            None => false,
        },
        _ => false,
    };
    if as_negotiated {
        nla.final_is_honest = n.final_reply == FinalReply::Honest;
    }
    nla.final_sent = reply.clone();
    nla.reached_final = true;
    if tls.write_all(&reply).is_err() {
        return false;
    }
    if !nla.final_is_honest {
        // everything the client still sends is recorded; a correct client sends nothing and closes.
        // The server half-closes so that a client waiting for the rest of a truncated reply sees EOF instead of stalling.
        let _ = tls.shutdown();
        let mut extra = Vec::new();
        drain_tls(tls, &mut extra, &mut rep.timeout);
        rep.nla.bytes_after_final = extra;
        return false;
    }
    // round 5: credentials
    let t5 = match read_der(tls) {
        Ok(t) => t,
        Err(e) => {
            rep.timeout = is_timeout(&e);
            rep.nla.credentials = Some(Err(format!("no credentials message: {}", e)));
            return false;
        }
    };
    rep.nla.ts_requests.push(t5.clone());
    let creds = match ntlm::parse_ts_request(&t5, true) {
        Ok((r, _)) => match r.auth_info {
            Some(ai) => match if as_negotiated { from_client.unseal_mode(&ai, neg_seal, neg_kx) } else { from_client.unseal(&ai) } {
                Some(plain) => ntlm::parse_ts_credentials(&plain).map_err(|e| format!("TSCredentials: {}", e.0)),
                None => Err("authInfo does not unseal under the client keys (sequence number 1)".to_string()),
            },
            None => Err("third TSRequest lacks authInfo".to_string()),
        },
        Err(e) => Err(format!("third TSRequest: {}", e.0)),
    };
    rep.nla.credentials = Some(creds);
    true
}

fn strip_high_zeros(v: &[u8]) -> &[u8] {
    let mut n = v.len();
    while n > 0 && v[n - 1] == 0 {
        n -= 1;
    }
    &v[..n]
}

fn build_final(kind: &FinalReply, id: &Identity, keys: &crypto::SessionKeys, to_client: &SealCtx, honest: &[u8], client_pka: &[u8], ver: u32) -> Vec<u8> {
    let wrap = |tok: &[u8]| ntlm::build_ts_request(ver, None, None, Some(tok), LenForm::Minimal);
    let spk = &id.spk;
    let seal = |data: &[u8]| to_client.clone().seal(data);
    match kind {
        FinalReply::Honest => honest.to_vec(),
        FinalReply::BitFlip(bit) => {
            let mut v = honest.to_vec();
            let b = *bit as usize % (v.len() * 8);
            v[b / 8] ^= 1 << (b % 8);
            v
        }
        FinalReply::Offset(k) => {
            let mut key = spk.clone();
            let mut carry = *k as u64;
            for b in key.iter_mut() {
                if carry == 0 {
                    break;
                }
                let s = *b as u64 + (carry & 0xFF);
                *b = s as u8;
                carry = (carry >> 8) + (s >> 8);
            }
            wrap(&seal(&key))
        }
        FinalReply::MinusOne => {
            let mut key = spk.clone();
            for b in key.iter_mut() {
                let (n, borrow) = b.overflowing_sub(1);
                *b = n;
                if !borrow {
                    break;
                }
            }
            wrap(&seal(&key))
        }
        FinalReply::BigEndianPlusOne => {
            let mut key = spk.clone();
            for b in key.iter_mut().rev() {
                let (n, c) = b.overflowing_add(1);
                *b = n;
                if !c {
                    break;
                }
            }
            wrap(&seal(&key))
        }
        FinalReply::LastBytePlusOne => {
            let mut key = spk.clone();
            if let Some(l) = key.last_mut() {
                *l = l.wrapping_add(1);
            }
            wrap(&seal(&key))
        }
        FinalReply::WrongSessionKey(k) => {
            let mut kk = k.clone();
            kk.resize(16, 0x5A);
            let other = crypto::session_keys(&kk);
            wrap(&SealCtx::new(&other.server_sign, &other.server_seal).seal(&ntlm::increment_le(spk)))
        }
        FinalReply::WrongDirection => wrap(&SealCtx::new(&keys.client_sign, &keys.client_seal).seal(&ntlm::increment_le(spk))),
        FinalReply::WrongSignKey => wrap(&SealCtx::new(&keys.client_sign, &keys.server_seal).seal(&ntlm::increment_le(spk))),
        FinalReply::OtherCert => {
            let other = other_identity(id);
            wrap(&seal(&ntlm::increment_le(&other.spk)))
        }
        FinalReply::Reflect => wrap(client_pka),
        FinalReply::Truncate(n) => {
            let k = *n as usize % honest.len();
            honest[..k].to_vec()
        }
        FinalReply::ExtendToken(e) => {
            let mut t = seal(&ntlm::increment_le(spk));
            t.extend_from_slice(if e.is_empty() { &[0] } else { e });
            wrap(&t)
        }
        FinalReply::ExtendAfter(e) => {
            let mut v = honest.to_vec();
            v.extend_from_slice(if e.is_empty() { &[0] } else { e });
            v
        }
        FinalReply::Reencode(k) => ntlm::build_ts_request(ver, None, None, Some(&seal(&ntlm::increment_le(spk))), LenForm::Long(1 + k % 3)),
        FinalReply::AdvancedRc4(n) => {
            let mut c = to_client.clone();
            let _ = c.rc4.apply(&vec![0u8; 1 + *n as usize]);
            wrap(&c.seal(&ntlm::increment_le(spk)))
        }
        FinalReply::PlainSuffix(e) => {
            let mut k = ntlm::increment_le(spk);
            k.extend_from_slice(e);
            wrap(&seal(&k))
        }
        FinalReply::PlainPrefix(e) => {
            let mut k = e.clone();
            k.extend_from_slice(&ntlm::increment_le(spk));
            wrap(&seal(&k))
        }
        FinalReply::ConstChecksum(b) => {
            let mut t = seal(&ntlm::increment_le(spk));
            for x in t[4..12].iter_mut() {
                *x = *b;
            }
            wrap(&t)
        }
        FinalReply::RelayedXor => {
            let other = other_identity(id);
            let mine = ntlm::increment_le(spk);
            let theirs = ntlm::increment_le(&other.spk);
            let mut t = seal(&mine);
            for x in t[4..12].iter_mut() {
                *x = 0;
            }
            for (i, b) in t[16..].iter_mut().enumerate() {
                if i < theirs.len() {
                    *b ^= mine[i] ^ theirs[i];
                }
            }
            wrap(&t)
        }
        FinalReply::PlainTruncated(n) => {
            let k = ntlm::increment_le(spk);
            let keep = *n as usize % k.len().max(1);
            wrap(&seal(&k[..keep]))
        }
        FinalReply::NoCarryPlusOne => {
            let mut k = spk.clone();
            if let Some(b) = k.first_mut() {
                *b = b.wrapping_add(1);
            }
            wrap(&seal(&k))
        }
        FinalReply::PlainXor(v) => {
            let mut k = ntlm::increment_le(spk);
            let n = k.len().max(1);
            for (pos, mask) in v {
                k[*pos as usize % n] ^= *mask;
            }
            wrap(&seal(&k))
        }
        FinalReply::WrongSeq(s) => {
            let mut c = to_client.clone();
            c.seq = if *s == 0 { 1 } else { *s };
            wrap(&c.seal(&ntlm::increment_le(spk)))
        }
        FinalReply::Garbage(g) => g.clone(),
        FinalReply::RandomToken(t) => wrap(t),
    }
}

// ---------------------------------------------------------------------------------------------
// client side
// ---------------------------------------------------------------------------------------------

use crate::mem::ClientCfg;
use crate::util::{call, Res};
use rdp::core::client::{Connector, RdpClient};

pub struct TlsRun {
    /// "ok" / "err:<text>" / panic
    pub connect: Res<()>,
    pub reads: Vec<Res<()>>,
    pub shutdown: Option<Res<()>>,
    pub bitmaps: usize,
    pub log: Vec<(bool, Vec<u8>)>,
    pub report: ServerReport,
    pub client_timeout: bool,
}

pub fn connector_of(cfg: &ClientCfg) -> Connector {
    reconfigure(Connector::new(), cfg)
}

/// the same settings, with the setters called in the order encoded by `cfg.setter_order` (the final configuration is the
/// same whatever the order, and a boolean toggled to the wrong value first still ends at the right one)
fn reconfigure_ordered(c: Connector, cfg: &ClientCfg) -> Connector {
    let toggle = cfg.setter_order & 0x8000 != 0;
    let mut remaining: Vec<u8> = (0..10).collect();
    let mut v = (cfg.setter_order & 0x7FFF) as usize;
    let mut c = c;
    while !remaining.is_empty() {
        let k = remaining.remove(v % remaining.len());
        v = v / 3 + 1;
        c = match k {
            0 => c.screen(cfg.width, cfg.height),
            1 => c.credentials(cfg.domain.clone(), cfg.user.clone(), cfg.password.clone()),
            2 => {
                if toggle {
                    c = c.set_restricted_admin_mode(!cfg.restricted_admin);
                }
                c.set_restricted_admin_mode(cfg.restricted_admin)
            }
            3 => {
                if toggle {
                    c = c.auto_logon(!cfg.auto_logon);
                }
                c.auto_logon(cfg.auto_logon)
            }
            4 => {
                if toggle {
                    c = c.blank_creds(!cfg.blank_creds);
                }
                c.blank_creds(cfg.blank_creds)
            }
            5 => c.check_certificate(cfg.check_certificate),
            6 => c.name(cfg.name.clone()),
            7 => {
                if toggle {
                    c = c.use_nla(!cfg.nla);
                }
                c.use_nla(cfg.nla)
            }
            8 => c.layout(cfg.layout()),
            _ => {
                if let Some(h) = &cfg.hash {
                    c = c.set_password_hash(h.clone());
                }
                c
            }
        };
    }
    c
}

/// apply to an existing Connector only the settings in which `new` differs from `old` (the way an application
/// flips one option between two connections)
pub fn reconfigure_diff(c: Connector, old: &ClientCfg, new: &ClientCfg) -> Connector {
    let mut c = c;
    if (old.width, old.height) != (new.width, new.height) {
        c = c.screen(new.width, new.height);
    }
    if (&old.domain, &old.user, &old.password) != (&new.domain, &new.user, &new.password) {
        c = c.credentials(new.domain.clone(), new.user.clone(), new.password.clone());
    }
    if old.restricted_admin != new.restricted_admin {
        c = c.set_restricted_admin_mode(new.restricted_admin);
    }
    if old.auto_logon != new.auto_logon {
        c = c.auto_logon(new.auto_logon);
    }
    if old.blank_creds != new.blank_creds {
        c = c.blank_creds(new.blank_creds);
    }
    if old.check_certificate != new.check_certificate {
        c = c.check_certificate(new.check_certificate);
    }
    if old.name != new.name {
        c = c.name(new.name.clone());
    }
    if old.nla != new.nla {
        c = c.use_nla(new.nla);
    }
    if old.layout != new.layout {
        c = c.layout(new.layout());
    }
    if old.hash != new.hash {
        if let Some(h) = &new.hash {
            c = c.set_password_hash(h.clone());
        }
    }
    c
}

/// apply every setting of `cfg` to an existing Connector (a password hash, once set, cannot be unset through the API)
pub fn reconfigure(c: Connector, cfg: &ClientCfg) -> Connector {
    if cfg.setter_order != 0 {
        return reconfigure_ordered(c, cfg);
    }
    let mut c = c
        .screen(cfg.width, cfg.height)
        .credentials(cfg.domain.clone(), cfg.user.clone(), cfg.password.clone())
        .set_restricted_admin_mode(cfg.restricted_admin)
        .auto_logon(cfg.auto_logon)
        .blank_creds(cfg.blank_creds)
        .check_certificate(cfg.check_certificate)
        .name(cfg.name.clone())
        .use_nla(cfg.nla)
        .layout(cfg.layout());
    if let Some(h) = &cfg.hash {
        c = c.set_password_hash(h.clone());
    }
    c
}

/// like run_tls, handing every bitmap event to `on_bitmap`
pub fn run_tls_with_events(cfg: &ClientCfg, scfg: &TlsServerCfg, reads: usize, do_shutdown: bool, on_bitmap: &mut dyn FnMut(rdp::core::event::BitmapEvent)) -> TlsRun {
    run_tls_inner(cfg, scfg, reads, do_shutdown, &mut |_| (), Some(on_bitmap), None)
}

/// One whole connection through the public entry point. `reads` = number of RdpClient::read calls to make after connect.
pub fn run_tls(cfg: &ClientCfg, scfg: &TlsServerCfg, reads: usize, do_shutdown: bool, extra: &mut dyn FnMut(&mut RdpClient<Tee>)) -> TlsRun {
    run_tls_inner(cfg, scfg, reads, do_shutdown, extra, None, None)
}

/// One NLA connection through x224::Client::connect with an authentication object the caller owns (and may have used for an
/// earlier connection). Returns the client's result and the server's report.
pub fn run_x224_nla(ntlm: &mut rdp::nla::ntlm::Ntlm, scfg: &TlsServerCfg) -> (Res<()>, ServerReport, bool) {
    let (a, b) = UnixStream::pair().expect("socketpair");
    let _ = a.set_read_timeout(Some(Duration::from_secs(TIMEOUT_S)));
    let _ = a.set_write_timeout(Some(Duration::from_secs(TIMEOUT_S)));
    let scfg2 = scfg.clone();
    let th = std::thread::Builder::new().stack_size(1 << 20).spawn(move || serve(b, scfg2)).expect("spawn");
    let tp = rdp::core::tpkt::Client::new(rdp::model::link::Link::new(rdp::model::link::Stream::Raw(a)));
    let (r, _) = call(|| rdp::core::x224::Client::connect(tp, 3, false, Some(ntlm), false, false).map(|x| drop(x)));
    let timeout = matches!(&r, Res::Err(e) if e.contains("WouldBlock") || e.contains("TimedOut"));
    let report = th.join().unwrap_or_else(|_| ServerReport { cr: None, pre_tls: vec![], tls_established: false, tls_error: Some("server thread panicked".into()), nla: NlaReport::default(), server: None, app_bytes: 0, timeout: false, early_bytes_before_reply: false });
    (r, report, timeout)
}

/// like run_tls with a Connector object the caller owns (and may have used for earlier connections)
pub fn run_tls_with_connector(connector: &mut Connector, cfg: &ClientCfg, scfg: &TlsServerCfg, reads: usize, do_shutdown: bool) -> TlsRun {
    run_tls_inner(cfg, scfg, reads, do_shutdown, &mut |_| (), None, Some(connector))
}

fn run_tls_inner(cfg: &ClientCfg, scfg: &TlsServerCfg, reads: usize, do_shutdown: bool, extra: &mut dyn FnMut(&mut RdpClient<Tee>), mut on_bitmap: Option<&mut dyn FnMut(rdp::core::event::BitmapEvent)>, given: Option<&mut Connector>) -> TlsRun {
    let (a, b) = UnixStream::pair().expect("socketpair");
    let _ = a.set_read_timeout(Some(Duration::from_secs(TIMEOUT_S)));
    let _ = a.set_write_timeout(Some(Duration::from_secs(TIMEOUT_S)));
    let scfg2 = scfg.clone();
    let th = std::thread::Builder::new().stack_size(1 << 20).spawn(move || serve(b, scfg2)).expect("spawn");
    let log = Arc::new(Mutex::new(Vec::new()));
    let tee = Tee { inner: a, log: log.clone() };
    let mut own = connector_of(cfg);
    let connector: &mut Connector = match given {
        Some(c) => c,
        None => &mut own,
    };
    let (r, _) = call(|| connector.connect(tee));
    let mut run_reads = Vec::new();
    let mut shutdown = None;
    let mut bitmaps = 0usize;
    let mut client_timeout = false;
    let connect = match r {
        Res::Ok(mut client) => {
            for _ in 0..reads {
                let (r, _) = call(|| {
                    client.read(|e| {
                        if let rdp::core::event::RdpEvent::Bitmap(b) = e {
                            bitmaps += 1;
                            if let Some(f) = on_bitmap.as_mut() {
                                f(b)
                            }
                        }
                    })
                });
                let stop = !r.is_ok();
                if let Res::Err(e) = &r {
                    if e.contains("WouldBlock") || e.contains("TimedOut") {
                        client_timeout = true;
                    }
                }
                run_reads.push(r);
                if stop {
                    break;
                }
            }
            if run_reads.iter().all(|r| r.is_ok()) {
                extra(&mut client);
                if do_shutdown {
                    let (r, _) = call(|| client.shutdown());
                    shutdown = Some(r);
                }
            }
            drop(client);
            Res::Ok(())
        }
        Res::Err(e) => {
            if e.contains("WouldBlock") || e.contains("TimedOut") {
                client_timeout = true;
            }
            Res::Err(e)
        }
        Res::Panic(p) => Res::Panic(p),
    };
    let report = th.join().unwrap_or_else(|_| ServerReport { cr: None, pre_tls: vec![], tls_established: false, tls_error: Some("server thread panicked".into()), nla: NlaReport::default(), server: None, app_bytes: 0, timeout: false, early_bytes_before_reply: false });
    let log = log.lock().unwrap().clone();
    TlsRun { connect, reads: run_reads, shutdown, bitmaps, log, report, client_timeout }
}

/// Parse the bytes the client wrote on the raw transport after its connection request as TLS records.
/// Returns Err(description) if anything is not a TLS record.
pub fn tls_records_only(bytes: &[u8]) -> Result<usize, String> {
    let mut p = 0;
    let mut n = 0;
    while p < bytes.len() {
        if bytes.len() - p < 5 {
            return Err(format!("{} stray bytes after {} TLS records: {:02x?}", bytes.len() - p, n, &bytes[p..]));
        }
        let ct = bytes[p];
        let ver = (bytes[p + 1], bytes[p + 2]);
        let len = ((bytes[p + 3] as usize) << 8) | bytes[p + 4] as usize;
        if !(20..=23).contains(&ct) || ver.0 != 3 || ver.1 > 4 || len > 16384 + 2048 {
            return Err(format!("bytes at offset {} are not a TLS record: {:02x?}", p, &bytes[p..(p + 12).min(bytes.len())]));
        }
        if n == 0 && (ct != 22 || bytes.get(p + 5) != Some(&1)) {
            return Err("first record after the connection request is not a ClientHello".into());
        }
        if bytes.len() - p < 5 + len {
            return Err(format!("truncated TLS record at offset {}", p));
        }
        p += 5 + len;
        n += 1;
    }
    Ok(n)
}

/// what the client wrote on the raw transport, concatenated
pub fn written(log: &[(bool, Vec<u8>)]) -> Vec<u8> {
    log.iter().filter(|e| e.0).flat_map(|e| e.1.iter().copied()).collect()
}

pub fn find(hay: &[u8], needle: &[u8]) -> bool {
    !needle.is_empty() && hay.windows(needle.len()).any(|w| w == needle)
}
