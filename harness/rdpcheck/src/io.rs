//! Adversarial in-memory transports.
use std::cell::RefCell;
use std::io::{self, Read, Write};
use std::rc::Rc;

/// Serves a byte stream in chunks given by a schedule and counts what it handed out.
pub struct ChunkReader {
    pub data: Vec<u8>,
    pub pos: usize,
    pub schedule: Vec<u16>,
    pub step: usize,
    pub eof_reads: Rc<RefCell<u32>>,
    pub handed: Rc<RefCell<usize>>,
    pub written: Rc<RefCell<Vec<u8>>>,
    /// consecutive Interrupted results handed out (bounded: a transport that is interrupted forever is not of interest)
    pub interrupts: u32,
}

impl ChunkReader {
    pub fn new(data: Vec<u8>, schedule: Vec<u16>) -> (Self, Rc<RefCell<usize>>, Rc<RefCell<u32>>) {
        let handed = Rc::new(RefCell::new(0usize));
        let eof = Rc::new(RefCell::new(0u32));
        (ChunkReader { data, pos: 0, schedule, step: 0, eof_reads: eof.clone(), handed: handed.clone(), written: Rc::new(RefCell::new(Vec::new())), interrupts: 0 }, handed, eof)
    }
}

impl Read for ChunkReader {
    fn read(&mut self, buf: &mut [u8]) -> io::Result<usize> {
        if buf.is_empty() {
            return Ok(0);
        }
        if self.pos >= self.data.len() {
            let mut e = self.eof_reads.borrow_mut();
            *e += 1;
            if *e > 64 {
                // DESIGN §5: a client that keeps reading a finished stream is spinning
                return Err(io::Error::new(io::ErrorKind::Other, "spin: more than 64 reads at end of stream"));
            }
            return Ok(0);
        }
        // a schedule entry of 0 stands for ErrorKind::Interrupted ("nothing read, try again"), at most twice in a row
        let entry = if self.schedule.is_empty() { u16::MAX } else { self.schedule[self.step % self.schedule.len()] };
        self.step += 1;
        if entry == 0 && self.interrupts < 2 {
            self.interrupts += 1;
            return Err(io::Error::new(io::ErrorKind::Interrupted, "injected EINTR"));
        }
        self.interrupts = 0;
        let cap = if self.schedule.is_empty() { usize::MAX } else { entry.max(1) as usize };
        let n = buf.len().min(cap).min(self.data.len() - self.pos);
        buf[..n].copy_from_slice(&self.data[self.pos..self.pos + n]);
        self.pos += n;
        *self.handed.borrow_mut() += n;
        Ok(n)
    }
}

impl Write for ChunkReader {
    fn write(&mut self, buf: &[u8]) -> io::Result<usize> {
        self.written.borrow_mut().extend_from_slice(buf);
        Ok(buf.len())
    }
    fn flush(&mut self) -> io::Result<()> {
        Ok(())
    }
}

#[derive(Clone, Copy, Debug, PartialEq, Eq, Hash, serde::Serialize, serde::Deserialize)]
pub enum WStep {
    /// accept at most n bytes (n >= 1)
    Cap(u16),
    /// return Ok(0)
    Zero,
    /// return ErrorKind::Interrupted
    Interrupted,
    /// one hard error (BrokenPipe) for this call only: a transient transport error
    Fail,
    /// like Fail with another io::ErrorKind (index into ERROR_KINDS)
    FailKind(u8),
}

/// error kinds a stream can report for a write (Interrupted is a retry request, not an error; WouldBlock is left out:
/// on a non-blocking stream it is a retry request as well)
pub const ERROR_KINDS: [io::ErrorKind; 10] = [
    io::ErrorKind::BrokenPipe,
    io::ErrorKind::TimedOut,
    io::ErrorKind::ConnectionReset,
    io::ErrorKind::ConnectionAborted,
    io::ErrorKind::NotConnected,
    io::ErrorKind::Other,
    io::ErrorKind::WriteZero,
    io::ErrorKind::UnexpectedEof,
    io::ErrorKind::PermissionDenied,
    io::ErrorKind::InvalidInput,
];

/// A writer that accepts only part of each write / fails at a given byte position.
pub struct AdvWriter {
    pub schedule: Vec<WStep>,
    pub step: usize,
    pub fail_at: Option<usize>,
    pub accepted: Rc<RefCell<Vec<u8>>>,
    pub calls: Rc<RefCell<u32>>,
    /// number of hard errors returned so far
    pub hard_errors: Rc<RefCell<u32>>,
}

impl AdvWriter {
    pub fn new(schedule: Vec<WStep>, fail_at: Option<usize>) -> (Self, Rc<RefCell<Vec<u8>>>) {
        let acc = Rc::new(RefCell::new(Vec::new()));
        (AdvWriter { schedule, step: 0, fail_at, accepted: acc.clone(), calls: Rc::new(RefCell::new(0)), hard_errors: Rc::new(RefCell::new(0)) }, acc)
    }
}

impl Write for AdvWriter {
    fn write(&mut self, buf: &[u8]) -> io::Result<usize> {
        *self.calls.borrow_mut() += 1;
        if buf.is_empty() {
            return Ok(0);
        }
        let have = self.accepted.borrow().len();
        if let Some(p) = self.fail_at {
            if have >= p {
                *self.hard_errors.borrow_mut() += 1;
                return Err(io::Error::new(io::ErrorKind::BrokenPipe, "injected write error"));
            }
        }
        let st = if self.schedule.is_empty() { WStep::Cap(u16::MAX) } else { self.schedule[self.step % self.schedule.len()] };
        self.step += 1;
        match st {
            WStep::Zero => Ok(0),
            WStep::Interrupted => Err(io::Error::new(io::ErrorKind::Interrupted, "injected EINTR")),
            WStep::Fail => {
                *self.hard_errors.borrow_mut() += 1;
                Err(io::Error::new(io::ErrorKind::BrokenPipe, "injected transient write error"))
            }
            WStep::FailKind(k) => {
                *self.hard_errors.borrow_mut() += 1;
                Err(io::Error::new(ERROR_KINDS[k as usize % ERROR_KINDS.len()], "injected transient write error"))
            }
            WStep::Cap(c) => {
                let mut n = buf.len().min(c.max(1) as usize);
                if let Some(p) = self.fail_at {
                    n = n.min(p - have);
                }
                self.accepted.borrow_mut().extend_from_slice(&buf[..n]);
                Ok(n)
            }
        }
    }
    /// a real socket gathers the slices of a vectored write into one (possibly short) write: do the same, under the same
    /// schedule and error injection as `write` (the default implementation would only ever offer the first slice)
    fn write_vectored(&mut self, bufs: &[io::IoSlice<'_>]) -> io::Result<usize> {
        let all: Vec<u8> = bufs.iter().flat_map(|b| b.iter().copied()).collect();
        self.write(&all)
    }
    fn flush(&mut self) -> io::Result<()> {
        Ok(())
    }
}

impl Read for AdvWriter {
    fn read(&mut self, _buf: &mut [u8]) -> io::Result<usize> {
        Ok(0)
    }
}
