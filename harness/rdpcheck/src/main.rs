use engine::{CountingAlloc, Tier};

#[global_allocator]
static ALLOC: CountingAlloc = CountingAlloc;

fn usage() -> ! {
    eprintln!("usage: rdpcheck <Cnn> [--tier quick|thorough]\n       rdpcheck replay <file>");
    std::process::exit(2)
}

fn main() {
    // no CA bundle parsing per TLS connector (DESIGN §2.2)
    // (the environment usually points SSL_CERT_FILE at the system bundle: parsing it costs ~100 ms per connector)
    std::env::set_var("SSL_CERT_FILE", "/dev/null");
    std::env::set_var("SSL_CERT_DIR", "/nonexistent");
    if std::env::var_os("VERIF_LIB_STDOUT").is_none() {
        engine::report::silence_library_stdout();
    }
    let args: Vec<String> = std::env::args().skip(1).collect();
    if args.is_empty() {
        usage();
    }
    if args[0] == "replay" {
        let path = args.get(1).unwrap_or_else(|| usage());
        let text = match std::fs::read_to_string(path) {
            Ok(t) => t,
            Err(e) => {
                eprintln!("cannot read {}: {}", path, e);
                std::process::exit(2)
            }
        };
        let v: serde_json::Value = match serde_json::from_str(&text) {
            Ok(v) => v,
            Err(e) => {
                eprintln!("cannot parse {}: {}", path, e);
                std::process::exit(2)
            }
        };
        let id = v["property"].as_str().unwrap_or("").to_string();
        let section = v["section"].as_str().unwrap_or("").to_string();
        let case = if v["case"].is_null() && v["bytes_hex"].is_string() {
            serde_json::json!({"__bytes": v["bytes_hex"]})
        } else if v["case"].is_null() && v["enum"].is_object() {
            serde_json::json!({"__enum": v["enum"]})
        } else {
            v["case"].clone()
        };
        // enumerations may depend on the tier: a watchdog file records the one it was written under
        let tier = if v["kind"] == "watchdog" && v["tier"] == "thorough" { Tier::Thorough } else { Tier::Quick };
        let code = rdpcheck::run_property(&id, tier, Some((section, case)));
        std::process::exit(code);
    }
    let id = args[0].clone();
    let mut tier = match std::env::var("VERIF_TIER").as_deref() {
        Ok("thorough") => Tier::Thorough,
        _ => Tier::Quick,
    };
    let mut i = 1;
    while i < args.len() {
        match args[i].as_str() {
            "--tier" => {
                i += 1;
                tier = match args.get(i).map(|s| s.as_str()) {
                    Some("quick") => Tier::Quick,
                    Some("thorough") => Tier::Thorough,
                    _ => usage(),
                };
            }
            _ => usage(),
        }
        i += 1;
    }
    let code = rdpcheck::run_property(&id, tier, None);
    std::process::exit(code);
}
