//! Generators of conforming server profiles (DESIGN §4.4 / §C03).
use engine::Src;
use refimpl::gcc::{CcRsp, ScBlock};
use refimpl::server::ServerProfile;
use refimpl::wire::{self, DemandActive, License};

pub fn gen_ccrsp(s: &mut Src, selected: u32) -> CcRsp {
    // SC_SECURITY in its long form with both optional lengths zero (MS-RDPBCGR 2.2.1.4.3 allows the fields when nothing is
    // selected; their content is to be ignored)
    let sec_long = s.chance(48);
    let version = s.pick(&[0x00080004u32, 0x00080001, 0x00080004, 0x00080005, 0x00080006, 0x00080007, 0x00080008, 0x00080009, 0x0008000A, 0x0008000B, 0x0008000C, 0x0008000D, 0x0008000E, 0x0008000F, 0x00080010, 0x00080011, 0, 0xFFFFFFFF]);
    let version = if s.chance(16) { s.u32() } else { version };
    let core = match s.below(3) {
        0 => ScBlock::Core { version, requested: None, early_caps: None },
        1 => ScBlock::Core { version, requested: Some(selected), early_caps: None },
        _ => ScBlock::Core { version, requested: Some(selected), early_caps: Some(s.b32()) },
    };
    let n = s.small(31);
    let ids: Vec<u16> = (0..n).map(|i| 1004 + i as u16).collect();
    let pad = if n % 2 == 1 { !s.chance(32) } else { s.chance(16) };
    let sec = if sec_long { ScBlock::SecurityFull { method: 0, level: 0, random: vec![], cert: vec![] } } else { ScBlock::Security { method: 0, level: 0 } };
    let mut blocks = vec![core, sec, ScBlock::Net { io_channel: 1003, ids, pad }];
    let p = s.below(6);
    let perm = [[0, 1, 2], [0, 2, 1], [1, 0, 2], [1, 2, 0], [2, 0, 1], [2, 1, 0]][p];
    blocks = perm.iter().map(|i| blocks[*i].clone()).collect();
    let nu = s.below(3);
    for _ in 0..nu {
        let typ = s.pick(&[0x0C04u16, 0x0C06, 0x0C08]);
        let l = s.below(40);
        let at = s.below(blocks.len() + 1);
        blocks.insert(at, ScBlock::Unknown { typ, body: s.fill(l) });
    }
    CcRsp { node_id: 1001 + s.b16().min(64534), tag: s.pick(&[1u32, 0, 255, 256, 65535, 65536]), result: 0, blocks, long_lengths: s.chance(24) }
}

pub fn gen_user_id(s: &mut Src) -> u16 {
    let v = if s.bool() { s.pick(&[1001u16, 1002, 1004, 1005, 0x7FFE, 0x7FFF, 0x8000, 0x8001, 64534, 64535, 65534, 65535]) } else { 1001 + s.below(64535) as u16 };
    // 1003 is the I/O channel: no conforming server assigns it as a user id
    if v == 1003 {
        1004
    } else {
        v
    }
}

pub fn gen_demand_active(s: &mut Src) -> DemandActive {
    let mut caps = wire::sample_server_caps();
    match s.below(4) {
        0 => {}
        1 => {
            // a subset
            let keep = 1 + s.below(caps.len());
            caps.truncate(keep);
        }
        2 => {
            caps.reverse();
        }
        _ => {
            let k = s.below(caps.len());
            caps.rotate_left(k);
        }
    }
    let nu = s.below(4);
    for _ in 0..nu {
        let t = s.pick(&[0x0005u16, 0x0007, 0x0009, 0x000E, 0x001D, 0x001E, 0x00FF, 0x0019, 0x0015]);
        let l = s.pick(&[0usize, 1, 4, 8, 60, 196]);
        let at = s.below(caps.len() + 1);
        caps.insert(at, (t, s.fill(l)));
    }
    // a set repeated (legal: the later one wins or both are kept, nothing forbids it)
    if !caps.is_empty() && s.chance(40) {
        let i = s.below(caps.len());
        let dup = caps[i].clone();
        let at = if s.bool() { caps.len() } else { s.below(caps.len() + 1) };
        caps.insert(at, dup);
    }
    let source = match s.below(4) {
        0 => b"RDP\0".to_vec(),
        1 => vec![],
        2 => b"MSTSC\0".to_vec(),
        _ => {
            let l = s.below(17);
            s.fill(l)
        }
    };
    DemandActive { share_id: s.b32(), source, caps, session_id: s.b32() }
}

pub fn gen_license(s: &mut Src) -> License {
    if s.chance(180) {
        let l = s.pick(&[0usize, 0, 1, 4, 40]);
        License::ValidClient { blob_type: s.pick(&[4u16, 0, 1, 9, 0xFFFF]), blob: s.fill(l) }
    } else {
        let l = s.below(200);
        License::NewLicense { body: s.fill(l) }
    }
}

pub fn gen_profile(s: &mut Src, nla: bool) -> ServerProfile {
    let selected = if nla && s.bool() { 2 } else { 1 };
    let rounds = 1 + s.small(3);
    // ignorable data PDUs in front of the server's finalization PDUs (see ServerProfile::finalization_noise)
    // (only the Set Error Info PDU, which the client negotiates with RNS_UD_CS_SUPPORT_ERRINFO_PDU, in a frame of its own: kind 0.
    // Save Session Info in front of the font-map, and a Set Error Info packed into the frame of a finalization PDU, end the
    // unchanged tree's connection attempt; whether a conforming server does either is not settled by the property text)
    let noise = if s.chance(56) { s.u8() & 0x0F } else { 0 };
    ServerProfile {
        selected_protocol: selected,
        user_id: gen_user_id(s),
        io_channel: 1003,
        server_user: s.pick(&[1002u16, 1002, 1001, 1007]),
        ccrsp: gen_ccrsp(s, selected),
        ber_long: s.pick(&[0u8, 0, 1, 2, 3]),
        connect_id: s.b32(),
        domain_params: [34, 3, 0, 1, 0, 1, s.pick(&[0xfff8u32, 0xffff, 0x420]), 2],
        license: gen_license(s),
        activations: (0..rounds).map(|_| gen_demand_active(s)).collect(),
        auto: true,
        post_activation: Vec::new(),
        pack_deactivate: s.pick(&[0u8, 0, 0, 1, 2, 3]),
        pre_license: Vec::new(),
        finalization_noise: noise,
    }
}
