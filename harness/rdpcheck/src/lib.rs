//! Property checks for citronneur/rdp-rs (see /verif/DESIGN.md).
#[macro_use]
extern crate rdp;

pub mod gen;
pub mod io;
pub mod mem;
pub mod props;
pub mod tls;
pub mod util;

use engine::{Report, Tier};
use serde_json::Value;
use std::sync::Arc;

/// Run one property check; returns the process exit code.
pub fn run_property(id: &str, tier: Tier, replay: Option<(String, Value)>) -> i32 {
    macro_rules! dispatch {
        ($($name:literal => $m:ident),* $(,)?) => {
            match id {
                $($name => {
                    let rep: Arc<Report> = Report::with_replay($name, tier, props::$m::LEVEL, props::$m::RULE, replay);
                    props::$m::check(&rep);
                    rep.finish()
                })*
                _ => { eprintln!("unknown property {}", id); 2 }
            }
        }
    }
    dispatch! {
        "C01" => c01,
        "C02" => c02,
        "C03" => c03,
        "C04" => c04,
        "C05" => c05,
        "C06" => c06,
        "C07" => c07,
        "C08" => c08,
        "C09" => c09,
        "C10" => c10,
        "C11" => c11,
        "C12" => c12,
        "C13" => c13,
        "C14" => c14,
        "C15" => c15,
        "C16" => c16,
        "C17" => c17,
        "C18" => c18,
    }
}
