//! C18 — Encoders and decoders are mutually inverse and agree with reference codecs.
use crate::util::{call, call_plain, fail_panic, hexs, Res};
use engine::{Outcome, Report, Src, Tier};
use rdp::core::gcc::{read_conference_create_response, write_conference_create_request, Version};
use rdp::core::per as lper;
use rdp::model::data::{to_vec, Array, Check, Component, DataType, DynOption, Message, MessageOption, Trame, U16, U32};
use rdp::nla::asn1::{from_ber, from_der, to_der, ASN1Type, Enumerate, ExplicitTag, ImplicitTag, Integer, OctetString, Sequence, SequenceOf, ASN1};
use rdp::nla::cssp;
use refimpl::der::{self, LenForm, Node};
use refimpl::gcc::{self as rgcc, CcRsp, ScBlock};
use refimpl::per as rper;
use refimpl::rd::Rd;
use serde::{Deserialize, Serialize};
use std::io::Cursor;

pub const LEVEL: &str = "exploration";
pub const RULE: &str = "four families. (a) message model: generated shapes (depth <= 4, width <= 6) over u8/U16/U32 of both endiannesses, byte blocks, Check, Trame, Component with DynOption Size (sized block or array) and SkipField, trailing Option, Array; oracle = length() == bytes, to_vec == 30-line reference serializer, reading bytes+sentinel into an empty message of the same shape reproduces every leaf (visit()) and leaves the sentinel unread. (b) PER: every length 0..0x7fff, every u16 integer (u32 by boundaries and sampling; all 2^32 in thorough), integer16 offset/minimum lattice, 6-element OIDs (including 'differs in one element must compare unequal'), octet strings at every length boundary; cross-decoding with the reference PER codec both ways. (c) ASN.1: generated value trees over the shapes MCS and CredSSP use, to_der == reference DER, from_der/from_ber of reference encodings (short and long length forms) reproduce the values; TSRequest helpers; asn1-large: octet strings at every length-form boundary up to 70000 bytes and sequences of up to 5000 elements, through the same round trips. (d) GCC: conference-create request decoded by the reference T.124 decoder for user data of 0..3000 bytes; every generated reference response through read_conference_create_response (channel ids, version enum). Non-trivial = shape with a dynamic option / array / option, PER value >= 0x80, ASN.1 tree with nesting, GCC response with >= 1 channel or unknown block; distinct by hash of the case.";

// ------------------------------------------------------------------------------------------
// (a) message model
// ------------------------------------------------------------------------------------------

#[derive(Serialize, Deserialize, Hash, Clone, Debug, PartialEq, Eq)]
pub enum Shape {
    U8(u8),
    U16 { v: u16, be: bool },
    U32 { v: u32, be: bool },
    /// fixed-size block (len >= 1)
    Block(Vec<u8>),
    CheckU8(u8),
    CheckU16 { v: u16, be: bool },
    CheckU32 { v: u32, be: bool },
    CheckBlock(Vec<u8>),
    Trame(Vec<Shape>),
    Component(Vec<Field>),
}

#[derive(Serialize, Deserialize, Hash, Clone, Debug, PartialEq, Eq)]
pub enum Field {
    Plain(Shape),
    /// length field (width 1/2/4 bytes, endianness) followed *later* by a dynamically sized block
    SizedBlock { width: u8, be: bool, gap: Vec<Shape>, data: Vec<u8> },
    /// length field followed by an array of elements (all of the element shape), sized in bytes
    SizedArray { width: u8, be: bool, elems: Vec<Shape> },
    /// length field followed by a component whose last field is optional (present or absent)
    SizedOptional { width: u8, be: bool, head: Vec<Shape>, tail: Option<Shape>, tail_template: Shape },
    /// flag byte: when flag & mask != 0 the following field is skipped
    Skip { flag: u8, mask: u8, target: Shape },
    /// chained skips: flag1 may skip the second flag field; the second flag (when present) may skip the target
    SkipChain { flag1: u8, mask1: u8, flag2: u8, mask2: u8, target: Shape },
    /// a flag whose SkipField names itself: it has already been processed when the option is seen, so it is always present
    SelfSkip { flag: u8 },
    /// a length field (value 1) bounding a flag byte that itself may skip the field after it: a size-bounded field with options of its own
    SizedFlag { width: u8, be: bool, flag: u8, mask: u8, target: Shape },
    /// a length field bounding a second length field which bounds a block (a TLV header whose own size is announced)
    SizedLen { w1: u8, be1: bool, w2: u8, be2: bool, data: Vec<u8> },
    /// a length field (announcing n bytes) and a flag that may skip the very field the length describes: when the flag is set the
    /// block is absent although its length field still says n
    SizedSkipped { width: u8, be: bool, flag: u8, mask: u8, data: Vec<u8> },
}

#[derive(Debug, Clone, PartialEq, Eq)]
enum Leaf {
    U8(u8),
    U16(u16),
    U32(u32),
    Slice(Vec<u8>),
    None,
}

fn lenfield(width: u8, be: bool, v: usize) -> Shape {
    match width {
        1 => Shape::U8(v as u8),
        2 => Shape::U16 { v: v as u16, be },
        _ => Shape::U32 { v: v as u32, be },
    }
}

/// reference serializer
fn ser(s: &Shape, out: &mut Vec<u8>) {
    match s {
        Shape::U8(v) | Shape::CheckU8(v) => out.push(*v),
        Shape::U16 { v, be } | Shape::CheckU16 { v, be } => {
            if *be {
                out.extend_from_slice(&v.to_be_bytes())
            } else {
                out.extend_from_slice(&v.to_le_bytes())
            }
        }
        Shape::U32 { v, be } | Shape::CheckU32 { v, be } => {
            if *be {
                out.extend_from_slice(&v.to_be_bytes())
            } else {
                out.extend_from_slice(&v.to_le_bytes())
            }
        }
        Shape::Block(b) | Shape::CheckBlock(b) => out.extend_from_slice(b),
        Shape::Trame(ch) => ch.iter().for_each(|c| ser(c, out)),
        Shape::Component(fs) => {
            for f in fs {
                match f {
                    Field::Plain(s) => ser(s, out),
                    Field::SizedBlock { width, be, gap, data } => {
                        ser(&lenfield(*width, *be, data.len()), out);
                        gap.iter().for_each(|g| ser(g, out));
                        out.extend_from_slice(data);
                    }
                    Field::SizedArray { width, be, elems } => {
                        let mut body = Vec::new();
                        elems.iter().for_each(|e| ser(e, &mut body));
                        ser(&lenfield(*width, *be, body.len()), out);
                        out.extend_from_slice(&body);
                    }
                    Field::SizedOptional { width, be, head, tail, .. } => {
                        let mut body = Vec::new();
                        head.iter().for_each(|e| ser(e, &mut body));
                        if let Some(t) = tail {
                            ser(t, &mut body);
                        }
                        ser(&lenfield(*width, *be, body.len()), out);
                        out.extend_from_slice(&body);
                    }
                    Field::Skip { flag, mask, target } => {
                        out.push(*flag);
                        if flag & mask == 0 {
                            ser(target, out);
                        }
                    }
                    Field::SkipChain { flag1, mask1, flag2, mask2, target } => {
                        out.push(*flag1);
                        if flag1 & mask1 == 0 {
                            out.push(*flag2);
                            if flag2 & mask2 == 0 {
                                ser(target, out);
                            }
                        } else {
                            // the second flag is skipped as a whole: its own option is never consulted, the target stays
                            ser(target, out);
                        }
                    }
                    Field::SelfSkip { flag } => out.push(*flag),
                    Field::SizedFlag { width, be, flag, mask, target } => {
                        ser(&lenfield(*width, *be, 1), out);
                        out.push(*flag);
                        if flag & mask == 0 {
                            ser(target, out);
                        }
                    }
                    Field::SizedLen { w1, be1, w2, be2, data } => {
                        ser(&lenfield(*w1, *be1, *w2 as usize), out);
                        ser(&lenfield(*w2, *be2, data.len()), out);
                        out.extend_from_slice(data);
                    }
                    Field::SizedSkipped { width, be, flag, mask, data } => {
                        ser(&lenfield(*width, *be, data.len()), out);
                        out.push(*flag);
                        if flag & mask == 0 {
                            out.extend_from_slice(data);
                        }
                    }
                }
            }
        }
    }
}

/// zeroed copy of a shape (same structure, Check constants kept — they are part of the shape)
fn blank(s: &Shape) -> Shape {
    match s {
        Shape::U8(_) => Shape::U8(0),
        Shape::U16 { be, .. } => Shape::U16 { v: 0, be: *be },
        Shape::U32 { be, .. } => Shape::U32 { v: 0, be: *be },
        Shape::Block(b) => Shape::Block(vec![0; b.len()]),
        Shape::CheckU8(v) => Shape::CheckU8(*v),
        Shape::CheckU16 { v, be } => Shape::CheckU16 { v: *v, be: *be },
        Shape::CheckU32 { v, be } => Shape::CheckU32 { v: *v, be: *be },
        Shape::CheckBlock(b) => Shape::CheckBlock(b.clone()),
        Shape::Trame(ch) => Shape::Trame(ch.iter().map(blank).collect()),
        Shape::Component(fs) => Shape::Component(
            fs.iter()
                .map(|f| match f {
                    Field::Plain(s) => Field::Plain(blank(s)),
                    Field::SizedBlock { width, be, gap, .. } => Field::SizedBlock { width: *width, be: *be, gap: gap.iter().map(blank).collect(), data: vec![] },
                    Field::SizedArray { width, be, elems } => Field::SizedArray { width: *width, be: *be, elems: elems.iter().take(1).map(blank).collect() },
                    Field::SizedOptional { width, be, head, tail_template, .. } => Field::SizedOptional { width: *width, be: *be, head: head.iter().map(blank).collect(), tail: Some(blank(tail_template)), tail_template: blank(tail_template) },
                    Field::Skip { mask, target, .. } => Field::Skip { flag: 0, mask: *mask, target: blank(target) },
                    Field::SkipChain { mask1, mask2, target, .. } => Field::SkipChain { flag1: 0, mask1: *mask1, flag2: 0, mask2: *mask2, target: blank(target) },
                    Field::SelfSkip { .. } => Field::SelfSkip { flag: 0 },
                    Field::SizedFlag { width, be, mask, target, .. } => Field::SizedFlag { width: *width, be: *be, flag: 0, mask: *mask, target: blank(target) },
                    Field::SizedLen { w1, be1, w2, be2, .. } => Field::SizedLen { w1: *w1, be1: *be1, w2: *w2, be2: *be2, data: vec![] },
                    Field::SizedSkipped { width, be, mask, .. } => Field::SizedSkipped { width: *width, be: *be, flag: 0, mask: *mask, data: vec![] },
                })
                .collect(),
        ),
    }
}

/// expected leaves after reading the serialization of `s` into a blank message (skipped fields keep their blank value)
fn leaves(s: &Shape, out: &mut Vec<Leaf>) {
    leaves_m(s, out, false)
}

/// `unread` = the message was built blank and never read (a skipped field)
fn leaves_m(s: &Shape, out: &mut Vec<Leaf>, unread: bool) {
    match s {
        Shape::U8(v) | Shape::CheckU8(v) => out.push(Leaf::U8(*v)),
        Shape::U16 { v, .. } | Shape::CheckU16 { v, .. } => out.push(Leaf::U16(*v)),
        Shape::U32 { v, .. } | Shape::CheckU32 { v, .. } => out.push(Leaf::U32(*v)),
        Shape::Block(b) | Shape::CheckBlock(b) => out.push(Leaf::Slice(b.clone())),
        Shape::Trame(ch) => ch.iter().for_each(|c| leaves_m(c, out, unread)),
        Shape::Component(fs) => {
            for f in fs {
                match f {
                    Field::Plain(s) => leaves_m(s, out, unread),
                    Field::SizedBlock { width, be, gap, data } => {
                        leaves(&lenfield(*width, *be, data.len()), out);
                        gap.iter().for_each(|g| leaves_m(g, out, unread));
                        out.push(Leaf::Slice(data.clone()));
                    }
                    Field::SizedArray { width, be, elems } => {
                        let mut body = Vec::new();
                        elems.iter().for_each(|e| ser(e, &mut body));
                        if unread {
                            // a blank array has no elements and its length field is zero
                            leaves(&lenfield(*width, *be, 0), out);
                        } else {
                            leaves(&lenfield(*width, *be, body.len()), out);
                            elems.iter().for_each(|e| leaves_m(e, out, false));
                        }
                    }
                    Field::SizedOptional { width, be, head, tail, .. } => {
                        let mut body = Vec::new();
                        head.iter().for_each(|e| ser(e, &mut body));
                        if let Some(t) = tail {
                            ser(t, &mut body);
                        }
                        leaves(&lenfield(*width, *be, body.len()), out);
                        head.iter().for_each(|e| leaves_m(e, out, unread));
                        match tail {
                            Some(t) => leaves_m(t, out, unread),
                            None => out.push(Leaf::None),
                        }
                    }
                    Field::Skip { flag, mask, target } => {
                        out.push(Leaf::U8(*flag));
                        if flag & mask == 0 {
                            leaves_m(target, out, unread)
                        } else {
                            leaves_m(&blank(target), out, true)
                        }
                    }
                    Field::SkipChain { flag1, mask1, flag2, mask2, target } => {
                        out.push(Leaf::U8(*flag1));
                        if flag1 & mask1 == 0 {
                            out.push(Leaf::U8(*flag2));
                            if flag2 & mask2 == 0 {
                                leaves_m(target, out, unread)
                            } else {
                                leaves_m(&blank(target), out, true)
                            }
                        } else {
                            out.push(Leaf::U8(0));
                            leaves_m(target, out, unread)
                        }
                    }
                    Field::SelfSkip { flag } => out.push(Leaf::U8(*flag)),
                    Field::SizedFlag { width, be, flag, mask, target } => {
                        leaves(&lenfield(*width, *be, 1), out);
                        out.push(Leaf::U8(*flag));
                        if flag & mask == 0 {
                            leaves_m(target, out, unread)
                        } else {
                            leaves_m(&blank(target), out, true)
                        }
                    }
                    Field::SizedLen { w1, be1, w2, be2, data } => {
                        leaves(&lenfield(*w1, *be1, *w2 as usize), out);
                        leaves(&lenfield(*w2, *be2, data.len()), out);
                        out.push(Leaf::Slice(data.clone()));
                    }
                    Field::SizedSkipped { width, be, flag, mask, data } => {
                        leaves(&lenfield(*width, *be, data.len()), out);
                        out.push(Leaf::U8(*flag));
                        // a skipped block keeps the (empty) value of the blank message
                        out.push(Leaf::Slice(if flag & mask == 0 { data.clone() } else { vec![] }));
                    }
                }
            }
        }
    }
}

fn size_opt<T: 'static + Copy + Send>(name: String, get: fn(&T) -> usize) -> impl Fn(&T) -> MessageOption + Send {
    move |v: &T| MessageOption::Size(name.clone(), get(v))
}

fn len_message(width: u8, be: bool, v: usize, target: String) -> Box<dyn Message> {
    match width {
        1 => Box::new(DynOption::new(v as u8, size_opt::<u8>(target, |x| *x as usize))),
        2 => Box::new(DynOption::new(if be { U16::BE(v as u16) } else { U16::LE(v as u16) }, size_opt::<U16>(target, |x| x.inner() as usize))),
        _ => Box::new(DynOption::new(if be { U32::BE(v as u32) } else { U32::LE(v as u32) }, size_opt::<U32>(target, |x| x.inner() as usize))),
    }
}

/// Build the library message for a shape. `writing` selects Array::from_trame (populated) vs Array::new (reader).
fn build(s: &Shape, writing: bool) -> Box<dyn Message> {
    match s {
        Shape::U8(v) => Box::new(*v),
        Shape::U16 { v, be } => Box::new(if *be { U16::BE(*v) } else { U16::LE(*v) }),
        Shape::U32 { v, be } => Box::new(if *be { U32::BE(*v) } else { U32::LE(*v) }),
        Shape::Block(b) => Box::new(b.clone()),
        Shape::CheckU8(v) => Box::new(Check::new(*v)),
        Shape::CheckU16 { v, be } => Box::new(Check::new(if *be { U16::BE(*v) } else { U16::LE(*v) })),
        Shape::CheckU32 { v, be } => Box::new(Check::new(if *be { U32::BE(*v) } else { U32::LE(*v) })),
        Shape::CheckBlock(b) => Box::new(Check::new(b.clone())),
        Shape::Trame(ch) => Box::new(build_trame(ch, writing)),
        Shape::Component(fs) => Box::new(build_component(fs, writing)),
    }
}

fn build_trame(ch: &[Shape], writing: bool) -> Trame {
    let mut t = Trame::new();
    for c in ch {
        t.push(build(c, writing));
    }
    t
}

/// wrapper so that a boxed message can be stored where a concrete `T: Message` is needed (Array<T>, Option<T>)
struct Boxed(Box<dyn Message>);
impl Message for Boxed {
    fn write(&self, w: &mut dyn std::io::Write) -> rdp::model::error::RdpResult<()> {
        self.0.write(w)
    }
    fn read(&mut self, r: &mut dyn std::io::Read) -> rdp::model::error::RdpResult<()> {
        self.0.read(r)
    }
    fn length(&self) -> u64 {
        self.0.length()
    }
    fn visit(&self) -> DataType {
        self.0.visit()
    }
    fn options(&self) -> MessageOption {
        self.0.options()
    }
}

fn build_component(fs: &[Field], writing: bool) -> Component {
    let mut c = Component::new();
    for (i, f) in fs.iter().enumerate() {
        let name = format!("f{}", i);
        match f {
            Field::Plain(s) => {
                c.insert(name, build(s, writing));
            }
            Field::SizedBlock { width, be, gap, data } => {
                let target = format!("f{}data", i);
                c.insert(name.clone(), len_message(*width, *be, data.len(), target.clone()));
                for (k, g) in gap.iter().enumerate() {
                    c.insert(format!("f{}gap{}", i, k), build(g, writing));
                }
                c.insert(target, Box::new(data.clone()));
            }
            Field::SizedArray { width, be, elems } => {
                let target = format!("f{}arr", i);
                let mut body = Vec::new();
                elems.iter().for_each(|e| ser(e, &mut body));
                c.insert(name.clone(), len_message(*width, *be, if writing { body.len() } else { 0 }, target.clone()));
                if writing {
                    let tr = build_trame(elems, true);
                    c.insert(target, Box::new(Array::<Boxed>::from_trame(tr)));
                } else {
                    let tmpl = elems.get(0).cloned().unwrap_or(Shape::U8(0));
                    c.insert(target, Box::new(Array::new(move || Boxed(build(&tmpl, false)))));
                }
            }
            Field::SizedOptional { width, be, head, tail, .. } => {
                let target = format!("f{}opt", i);
                let mut body = Vec::new();
                head.iter().for_each(|e| ser(e, &mut body));
                if let Some(t) = tail {
                    ser(t, &mut body);
                }
                c.insert(name.clone(), len_message(*width, *be, body.len(), target.clone()));
                let mut inner = Component::new();
                for (k, h) in head.iter().enumerate() {
                    inner.insert(format!("h{}", k), build(h, writing));
                }
                let t: Option<Boxed> = tail.as_ref().map(|t| Boxed(build(t, writing)));
                inner.insert("tail".to_string(), Box::new(t));
                c.insert(target, Box::new(inner));
            }
            Field::SkipChain { flag1, mask1, flag2, mask2, target } => {
                let (n2, n3) = (format!("f{}b", i), format!("f{}c", i));
                let (m1, t1) = (*mask1, n2.clone());
                c.insert(name.clone(), Box::new(DynOption::new(*flag1, move |v: &u8| if *v & m1 != 0 { MessageOption::SkipField(t1.clone()) } else { MessageOption::None })));
                let (m2, t2) = (*mask2, n3.clone());
                c.insert(n2, Box::new(DynOption::new(*flag2, move |v: &u8| if *v & m2 != 0 { MessageOption::SkipField(t2.clone()) } else { MessageOption::None })));
                c.insert(n3, build(target, writing));
            }
            Field::SelfSkip { flag } => {
                let me = name.clone();
                c.insert(name.clone(), Box::new(DynOption::new(*flag, move |_v: &u8| MessageOption::SkipField(me.clone()))));
            }
            Field::Skip { flag, mask, target } => {
                let tname = format!("f{}tgt", i);
                let (m, tn) = (*mask, tname.clone());
                c.insert(name.clone(), Box::new(DynOption::new(*flag, move |v: &u8| if *v & m != 0 { MessageOption::SkipField(tn.clone()) } else { MessageOption::None })));
                c.insert(tname, build(target, writing));
            }
            Field::SizedFlag { width, be, flag, mask, target } => {
                let (fname, tname) = (format!("f{}flag", i), format!("f{}tgt", i));
                c.insert(name.clone(), len_message(*width, *be, 1, fname.clone()));
                let (m, tn) = (*mask, tname.clone());
                c.insert(fname, Box::new(DynOption::new(*flag, move |v: &u8| if *v & m != 0 { MessageOption::SkipField(tn.clone()) } else { MessageOption::None })));
                c.insert(tname, build(target, writing));
            }
            Field::SizedSkipped { width, be, flag, mask, data } => {
                let (fname, dname) = (format!("f{}flag", i), format!("f{}data", i));
                c.insert(name.clone(), len_message(*width, *be, data.len(), dname.clone()));
                let (m, dn) = (*mask, dname.clone());
                c.insert(fname, Box::new(DynOption::new(*flag, move |v: &u8| if *v & m != 0 { MessageOption::SkipField(dn.clone()) } else { MessageOption::None })));
                // the writer holds the block even when it is skipped (write and length must leave it out)
                c.insert(dname, Box::new(if writing { data.clone() } else { Vec::new() }));
            }
            Field::SizedLen { w1, be1, w2, be2, data } => {
                let (n2, dname) = (format!("f{}len2", i), format!("f{}data", i));
                c.insert(name.clone(), len_message(*w1, *be1, *w2 as usize, n2.clone()));
                c.insert(n2, len_message(*w2, *be2, data.len(), dname.clone()));
                c.insert(dname, Box::new(data.clone()));
            }
        }
    }
    c
}

fn collect(m: &dyn Message, out: &mut Vec<Leaf>) {
    match m.visit() {
        DataType::Component(c) => {
            for (_, v) in c.iter() {
                collect(v.as_ref(), out)
            }
        }
        DataType::Trame(t) => {
            for v in t.iter() {
                collect(v.as_ref(), out)
            }
        }
        DataType::U32(v) => out.push(Leaf::U32(v)),
        DataType::U16(v) => out.push(Leaf::U16(v)),
        DataType::U8(v) => out.push(Leaf::U8(v)),
        DataType::Slice(s) => out.push(Leaf::Slice(s.to_vec())),
        DataType::None => out.push(Leaf::None),
    }
}

fn has_dynamic(s: &Shape) -> bool {
    match s {
        Shape::Trame(ch) => ch.iter().any(has_dynamic),
        Shape::Component(fs) => fs.iter().any(|f| !matches!(f, Field::Plain(s) if !has_dynamic(s))),
        _ => false,
    }
}

#[derive(Serialize, Deserialize, Hash, Clone, Debug)]
pub struct ModelCase {
    pub shape: Shape,
}

pub fn run_model(c: &ModelCase) -> Outcome {
    let mut out = Outcome::new();
    out.label("model");
    out.nontrivial(has_dynamic(&c.shape));
    if has_dynamic(&c.shape) {
        out.label("dynamic");
    }
    let mut expected = Vec::new();
    ser(&c.shape, &mut expected);
    let shape = c.shape.clone();
    // (1)(2) length and bytes
    let (r, _) = call_plain(|| {
        let m = build(&shape, true);
        (m.length(), to_vec(m.as_ref()))
    });
    match r {
        Res::Panic(p) => {
            fail_panic(&mut out, "model.write", &p);
            return out;
        }
        Res::Ok((len, bytes)) => {
            if bytes != expected {
                out.fail("model:bytes", format!("to_vec {} != reference {} for {:?}", hexs(&bytes), hexs(&expected), c.shape));
                return out;
            }
            if len as usize != expected.len() {
                out.fail("model:length", format!("length() = {} but {} bytes are written for {:?}", len, expected.len(), c.shape));
                return out;
            }
        }
        Res::Err(_) => unreachable!(),
    }
    // (3)(4) read back with a sentinel
    let mut stream = expected.clone();
    stream.extend_from_slice(&[0xA5, 0x5A, 0xC3]);
    let blank_shape = blank(&c.shape);
    let mut want = Vec::new();
    leaves(&c.shape, &mut want);
    let (r, _) = call(|| {
        let mut m = build(&blank_shape, false);
        let mut cur = Cursor::new(stream.clone());
        m.read(&mut cur)?;
        let mut got = Vec::new();
        collect(m.as_ref(), &mut got);
        Ok((cur.position() as usize, got))
    });
    match r {
        Res::Panic(p) => fail_panic(&mut out, "model.read", &p),
        Res::Err(e) => {
            out.fail("model:read-error", format!("reading its own serialization failed: {} for {:?}", e, c.shape));
        }
        Res::Ok((pos, got)) => {
            if pos != expected.len() {
                out.fail("model:consumed", format!("read consumed {} bytes, serialization has {} for {:?}", pos, expected.len(), c.shape));
            } else if got != want {
                let i = got.iter().zip(want.iter()).position(|(a, b)| a != b).unwrap_or(got.len().min(want.len()));
                out.fail("model:leaf", format!("leaf #{}: got {:?} want {:?} for {:?}", i, got.get(i), want.get(i), c.shape));
            }
        }
    }
    out
}

fn min_len(s: &Shape) -> usize {
    match s {
        Shape::U8(_) | Shape::CheckU8(_) => 1,
        Shape::U16 { .. } | Shape::CheckU16 { .. } => 2,
        Shape::U32 { .. } | Shape::CheckU32 { .. } => 4,
        Shape::Block(b) | Shape::CheckBlock(b) => b.len(),
        Shape::Trame(ch) => ch.iter().map(min_len).sum(),
        Shape::Component(fs) => fs
            .iter()
            .map(|f| match f {
                Field::Plain(x) => min_len(x),
                Field::SizedBlock { width, .. } | Field::SizedArray { width, .. } | Field::SizedOptional { width, .. } => *width as usize,
                Field::Skip { .. } | Field::SkipChain { .. } | Field::SelfSkip { .. } => 1,
                Field::SizedFlag { width, .. } => *width as usize + 1,
                Field::SizedLen { w1, w2, .. } => (*w1 + *w2) as usize,
                Field::SizedSkipped { width, .. } => *width as usize + 1,
            })
            .sum(),
    }
}

fn gen_scalar(s: &mut Src) -> Shape {
    match s.below(8) {
        0 => Shape::U8(s.u8()),
        1 => Shape::U16 { v: s.b16(), be: s.bool() },
        2 => Shape::U32 { v: s.b32(), be: s.bool() },
        3 => {
            let n = 1 + s.below(6);
            Shape::Block(s.bytes(n))
        }
        4 => Shape::CheckU8(s.u8()),
        5 => Shape::CheckU16 { v: s.b16(), be: s.bool() },
        6 => Shape::CheckU32 { v: s.b32(), be: s.bool() },
        _ => {
            let n = 1 + s.below(4);
            Shape::CheckBlock(s.bytes(n))
        }
    }
}

fn gen_shape(s: &mut Src, depth: usize) -> Shape {
    if depth == 0 {
        return gen_scalar(s);
    }
    match s.below(6) {
        0 | 1 => gen_scalar(s),
        2 => {
            let n = s.below(5);
            Shape::Trame((0..n).map(|_| gen_shape(s, depth - 1)).collect())
        }
        _ => {
            let n = 1 + s.below(6);
            Shape::Component((0..n).map(|_| gen_field(s, depth - 1)).collect())
        }
    }
}

fn gen_field(s: &mut Src, depth: usize) -> Field {
    let width = s.pick(&[1u8, 2, 2, 4]);
    let be = s.bool();
    match s.below(12) {
        11 => {
            let n = if width == 1 { s.below(20) } else { s.below(300) };
            Field::SizedSkipped { width, be, flag: s.u8(), mask: s.pick(&[0x01u8, 0x20, 0x80, 0xFF]), data: s.fill(n) }
        }
        9 => Field::SizedFlag { width, be, flag: s.u8(), mask: s.pick(&[0x01u8, 0x20, 0x80, 0xFF]), target: gen_shape(s, depth.min(1)) },
        10 => {
            let w2 = s.pick(&[1u8, 2, 4]);
            let n = if w2 == 1 { s.below(20) } else { s.below(300) };
            Field::SizedLen { w1: width, be1: be, w2, be2: s.bool(), data: s.fill(n) }
        }
        0 | 1 | 2 => Field::Plain(gen_shape(s, depth)),
        3 | 4 => {
            // block-size boundaries only outside sized containers (depth >= 2 fields are never inside one): the enclosing length field must be able to hold the size
            let n = if width == 1 { s.below(20) } else if depth >= 2 && s.chance(24) { s.pick(&[4095usize, 4096, 4097, 8191, 8192, 8193, 12288, 16384, 1500, 65535]) } else { s.below(300) };
            let g = s.below(3);
            Field::SizedBlock { width, be, gap: (0..g).map(|_| gen_scalar(s)).collect(), data: s.fill(n) }
        }
        5 => {
            // array elements: same structure, different values
            let mut tmpl = gen_shape(s, depth.min(1));
            if min_len(&tmpl) == 0 {
                // precondition from the callers: array elements are never empty (a zero-size element would be read forever)
                tmpl = Shape::U8(0);
            }
            let n = s.below(5);
            let elems = (0..n).map(|_| revalue(&tmpl, s)).collect();
            Field::SizedArray { width: if width == 1 { 2 } else { width }, be, elems }
        }
        6 => {
            let h = s.below(3);
            // the optional tail is a scalar in the library's own messages; the model also allows any shape with at least one
            // byte on the wire (a record with a size-dependent block, a trame, a nested record ...)
            let mut tmpl = if width != 1 && s.chance(96) { gen_shape(s, depth.min(1)) } else { gen_scalar(s) };
            if min_len(&tmpl) == 0 {
                tmpl = gen_scalar(s);
            }
            let tail = if s.bool() { Some(revalue(&tmpl, s)) } else { None };
            Field::SizedOptional { width, be, head: (0..h).map(|_| gen_scalar(s)).collect(), tail, tail_template: tmpl }
        }
        7 => match s.below(4) {
            0 => Field::SkipChain { flag1: s.u8(), mask1: s.pick(&[0x01u8, 0x80, 0xFF]), flag2: s.u8(), mask2: s.pick(&[0x01u8, 0x02, 0xFF]), target: gen_shape(s, depth.min(1)) },
            1 => Field::SelfSkip { flag: s.u8() },
            _ => Field::Skip { flag: s.u8(), mask: s.pick(&[0x01u8, 0x20, 0x80, 0xFF]), target: gen_shape(s, depth.min(1)) },
        },
        _ => Field::Skip { flag: s.u8(), mask: s.pick(&[0x01u8, 0x20, 0x80, 0xFF]), target: gen_shape(s, depth.min(1)) },
    }
}

/// same structure, new values (Check constants stay: they are part of the element type)
fn revalue(t: &Shape, s: &mut Src) -> Shape {
    match t {
        Shape::U8(_) => Shape::U8(s.u8()),
        Shape::U16 { be, .. } => Shape::U16 { v: s.b16(), be: *be },
        Shape::U32 { be, .. } => Shape::U32 { v: s.b32(), be: *be },
        Shape::Block(b) => Shape::Block(s.bytes(b.len())),
        Shape::Trame(ch) => Shape::Trame(ch.iter().map(|c| revalue(c, s)).collect()),
        Shape::Component(fs) => Shape::Component(
            fs.iter()
                .map(|f| match f {
                    Field::Plain(x) => Field::Plain(revalue(x, s)),
                    Field::SizedBlock { width, be, gap, data } => {
                        let n = if *width == 1 { s.below(20) } else { s.below(data.len() + 8) };
                        Field::SizedBlock { width: *width, be: *be, gap: gap.iter().map(|g| revalue(g, s)).collect(), data: s.fill(n) }
                    }
                    Field::Skip { mask, target, .. } => Field::Skip { flag: s.u8(), mask: *mask, target: revalue(target, s) },
                    Field::SkipChain { mask1, mask2, target, .. } => Field::SkipChain { flag1: s.u8(), mask1: *mask1, flag2: s.u8(), mask2: *mask2, target: revalue(target, s) },
                    Field::SelfSkip { .. } => Field::SelfSkip { flag: s.u8() },
                    Field::SizedFlag { width, be, mask, target, .. } => Field::SizedFlag { width: *width, be: *be, flag: s.u8(), mask: *mask, target: revalue(target, s) },
                    Field::SizedSkipped { width, be, mask, data, .. } => {
                        let n = if *width == 1 { s.below(20) } else { s.below(data.len() + 8) };
                        Field::SizedSkipped { width: *width, be: *be, flag: s.u8(), mask: *mask, data: s.fill(n) }
                    }
                    Field::SizedLen { w1, be1, w2, be2, data } => {
                        let n = if *w2 == 1 { s.below(20) } else { s.below(data.len() + 8) };
                        Field::SizedLen { w1: *w1, be1: *be1, w2: *w2, be2: *be2, data: s.fill(n) }
                    }
                    other => other.clone(),
                })
                .collect(),
        ),
        other => other.clone(),
    }
}

pub fn decode_model(s: &mut Src) -> ModelCase {
    let depth = 1 + s.below(4);
    // top level is a component or trame so that something interesting happens
    let shape = if s.chance(200) {
        let n = 1 + s.below(6);
        Shape::Component((0..n).map(|_| gen_field(s, depth - 1)).collect())
    } else {
        gen_shape(s, depth)
    };
    ModelCase { shape }
}

// ------------------------------------------------------------------------------------------
// (b) PER
// ------------------------------------------------------------------------------------------

#[derive(Serialize, Deserialize, Hash, Clone, Debug)]
pub enum PerCase {
    Length(u16),
    Integer(u32),
    Integer16 { value: u16, min: u16 },
    Oid([u8; 6]),
    Octets { data: Vec<u8>, min: u16 },
    Small { kind: u8, v: u8 },
}

fn lib_write(f: impl FnOnce(&mut Cursor<Vec<u8>>) -> rdp::model::error::RdpResult<()>) -> (Res<Vec<u8>>, engine::AllocStats) {
    call(|| {
        let mut c = Cursor::new(Vec::new());
        f(&mut c)?;
        Ok(c.into_inner())
    })
}

macro_rules! need_ok {
    ($out:ident, $r:expr, $entry:expr) => {
        match $r {
            Res::Ok(v) => v,
            Res::Err(e) => {
                $out.fail(format!("per:{}:error", $entry), format!("{} failed: {}", $entry, e));
                return $out;
            }
            Res::Panic(p) => {
                fail_panic(&mut $out, $entry, &p);
                return $out;
            }
        }
    };
}

pub fn run_per(c: &PerCase) -> Outcome {
    let mut out = Outcome::new();
    match c {
        PerCase::Length(n) => {
            out.label("per-length");
            out.nontrivial(*n >= 0x80);
            let (r, _) = lib_write(|w| lper::write_length(*n)?.write(w));
            let got = need_ok!(out, r, "write_length");
            let mut want = Vec::new();
            rper::write_length(&mut want, *n as usize);
            if got != want {
                out.fail("per:length:bytes", format!("write_length({}) = {} reference {}", n, hexs(&got), hexs(&want)));
                return out;
            }
            let mut stream = want.clone();
            stream.push(0x77);
            let (r, _) = call(|| {
                let mut cur = Cursor::new(stream.clone());
                let v = lper::read_length(&mut cur)?;
                Ok((v, cur.position()))
            });
            let (v, pos) = need_ok!(out, r, "read_length");
            if v != *n || pos as usize != want.len() {
                out.fail("per:length:read", format!("read_length of {} gave {} consuming {}", hexs(&want), v, pos));
            }
        }
        PerCase::Integer(v) => {
            out.label("per-integer");
            out.nontrivial(*v >= 0x80);
            let (r, _) = lib_write(|w| lper::write_integer(*v, w));
            let got = need_ok!(out, r, "write_integer");
            // the reference decoder must read the library's encoding back to the same value, consuming all of it
            let mut rd = Rd::new(&got);
            match rper::read_integer(&mut rd) {
                Ok(x) if x == *v && rd.at_end() => {}
                other => {
                    out.fail("per:integer:encode", format!("write_integer({}) = {} which the reference decodes as {:?}", v, hexs(&got), other));
                    return out;
                }
            }
            // and the library must decode both its own and the reference encoding
            let mut refenc = Vec::new();
            rper::write_integer(&mut refenc, *v);
            for (which, enc) in [("own", got.clone()), ("reference", refenc)] {
                let mut stream = enc.clone();
                stream.push(0x99);
                let (r, _) = call(|| {
                    let mut cur = Cursor::new(stream.clone());
                    let x = lper::read_integer(&mut cur)?;
                    Ok((x, cur.position()))
                });
                let (x, pos) = need_ok!(out, r, "read_integer");
                if x != *v || pos as usize != enc.len() {
                    out.fail(format!("per:integer:decode:{}", which), format!("read_integer of {} ({} encoding of {}) gave {} consuming {}", hexs(&enc), which, v, x, pos));
                    return out;
                }
            }
        }
        PerCase::Integer16 { value, min } => {
            out.label("per-integer16");
            out.nontrivial(*min > 0);
            let (r, _) = lib_write(|w| lper::write_integer_16(*value, *min, w));
            let got = need_ok!(out, r, "write_integer_16");
            let mut want = Vec::new();
            rper::write_integer16(&mut want, *value, *min);
            if got != want {
                out.fail("per:integer16:bytes", format!("write_integer_16({}, {}) = {} reference {}", value, min, hexs(&got), hexs(&want)));
                return out;
            }
            let (r, _) = call(|| lper::read_integer_16(*min, &mut Cursor::new(want.clone())));
            let x = need_ok!(out, r, "read_integer_16");
            if x != *value {
                out.fail("per:integer16:read", format!("read_integer_16({}) of {} gave {} want {}", min, hexs(&want), x, value));
            }
        }
        PerCase::Oid(oid) => {
            out.label("per-oid");
            out.nontrivial(oid.iter().any(|x| *x != 0));
            let (r, _) = lib_write(|w| lper::write_object_identifier(oid, w));
            let got = need_ok!(out, r, "write_object_identifier");
            let mut want = Vec::new();
            rper::write_oid6(&mut want, oid);
            if got != want {
                out.fail("per:oid:bytes", format!("write_object_identifier({:?}) = {} reference {}", oid, hexs(&got), hexs(&want)));
                return out;
            }
            let (r, _) = call(|| lper::read_object_identifier(oid, &mut Cursor::new(want.clone())));
            let same = need_ok!(out, r, "read_object_identifier");
            if !same {
                out.fail("per:oid:roundtrip", format!("read_object_identifier does not recognise the encoding of {:?} ({})", oid, hexs(&want)));
                return out;
            }
            // an identifier differing in exactly one element must not compare equal
            for i in 0..6 {
                let mut other = *oid;
                other[i] = if i < 2 { (other[i] + 1) & 0x0F } else { other[i].wrapping_add(1) };
                let (r, _) = call(|| lper::read_object_identifier(&other, &mut Cursor::new(want.clone())));
                let eq = need_ok!(out, r, "read_object_identifier");
                if eq {
                    out.fail(format!("per:oid:element{}-ignored", i), format!("encoding of {:?} compares equal to {:?}", oid, other));
                    return out;
                }
            }
        }
        PerCase::Octets { data, min } => {
            out.label("per-octets");
            out.nontrivial(data.len() >= 0x80 || *min > 0);
            let min = (*min as usize).min(data.len());
            let (r, _) = lib_write(|w| lper::write_octet_stream(data, min, w));
            let got = need_ok!(out, r, "write_octet_stream");
            let mut want = Vec::new();
            rper::write_octets(&mut want, data, min);
            if got != want {
                out.fail("per:octets:bytes", format!("write_octet_stream(len {}, min {}) = {} reference {}", data.len(), min, hexs(&got), hexs(&want)));
                return out;
            }
            let mut stream = want.clone();
            stream.push(0x42);
            let (r, _) = call(|| {
                let mut cur = Cursor::new(stream.clone());
                lper::read_octet_stream(data, min, &mut cur)?;
                Ok(cur.position())
            });
            let pos = need_ok!(out, r, "read_octet_stream");
            if pos as usize != want.len() {
                out.fail("per:octets:consumed", format!("read_octet_stream consumed {} of {}", pos, want.len()));
                return out;
            }
            if !data.is_empty() {
                // a different expected string must be refused
                let mut other = data.clone();
                let k = other.len() / 2;
                other[k] ^= 0x10;
                let (r, _) = call(|| lper::read_octet_stream(&other, min, &mut Cursor::new(want.clone())));
                match r {
                    Res::Ok(()) => {
                        out.fail("per:octets:mismatch-accepted", format!("read_octet_stream accepted a string differing at byte {}", k));
                    }
                    Res::Panic(p) => fail_panic(&mut out, "read_octet_stream", &p),
                    Res::Err(_) => {}
                }
            }
        }
        PerCase::Small { kind, v } => {
            out.label("per-small");
            out.nontrivial(*v >= 0x80);
            let (r, _) = call(|| {
                let mut c = Cursor::new(Vec::new());
                match kind % 4 {
                    0 => lper::write_choice(*v, &mut c)?,
                    1 => lper::write_selection(*v, &mut c)?,
                    2 => lper::write_number_of_set(*v, &mut c)?,
                    _ => lper::write_enumerates(*v)?.write(&mut c)?,
                }
                let bytes = c.into_inner();
                let mut rc = Cursor::new(bytes.clone());
                let back = match kind % 4 {
                    0 => lper::read_choice(&mut rc)?,
                    1 => lper::read_selection(&mut rc)?,
                    2 => lper::read_number_of_set(&mut rc)?,
                    _ => lper::read_enumerates(&mut rc)?,
                };
                Ok((bytes, back))
            });
            let (bytes, back) = need_ok!(out, r, "per small");
            if bytes != vec![*v] || back != *v {
                out.fail("per:small", format!("kind {} value {} wrote {} read {}", kind, v, hexs(&bytes), back));
            }
        }
    }
    out
}

fn per_exhaustive(tier: Tier, part: usize, parts: usize) -> impl Iterator<Item = PerCase> {
    let lengths = (0..=0x7FFFu32).map(|n| PerCase::Length(n as u16));
    let ints16 = (0..=0xFFFFu32).map(PerCase::Integer);
    let mut b32: Vec<u32> = engine::src::B32.to_vec();
    for k in 0..32 {
        for d in [0i64, -1, 1] {
            b32.push(((1i64 << k) + d).clamp(0, u32::MAX as i64) as u32);
        }
    }
    let ints32 = b32.into_iter().map(PerCase::Integer);
    let lat: Vec<u16> = vec![0, 1, 2, 127, 128, 255, 256, 1000, 1001, 1002, 1003, 1004, 0x7FFF, 0x8000, 64534, 64535, 65534, 65535];
    let lat2 = lat.clone();
    let i16s = lat.into_iter().flat_map(move |min| lat2.clone().into_iter().filter(move |v| *v >= min).map(move |value| PerCase::Integer16 { value, min }));
    let small = (0..4u8).flat_map(|k| (0..=255u8).map(move |v| PerCase::Small { kind: k, v }));
    // OID lattice: every first/second arc, boundary values for the rest
    let bv = [0u8, 1, 20, 124, 127, 128, 255];
    let mut oids = Vec::new();
    for a in 0..16u8 {
        for b in 0..16u8 {
            oids.push(PerCase::Oid([a, b, 20, 124, 0, 1]));
        }
    }
    for c in bv {
        for d in bv {
            for e in bv {
                for f in bv {
                    oids.push(PerCase::Oid([0, 0, c, d, e, f]));
                }
            }
        }
    }
    let octs: Vec<PerCase> = {
        let mut v = Vec::new();
        let lens: Vec<usize> = match tier {
            Tier::Quick => (0..140).chain(250..262).chain([511, 512, 1000, 3000, 0x7FFF]).collect(),
            Tier::Thorough => (0..3001).chain([0x3FFF, 0x4000, 0x7FFE, 0x7FFF]).collect(),
        };
        for l in lens {
            for min in [0usize, 1, 4, l / 2, l] {
                if min <= l {
                    v.push(PerCase::Octets { data: engine::src::expand(l as u32 + 7, l), min: min as u16 });
                }
            }
        }
        v
    };
    lengths.chain(ints16).chain(ints32).chain(i16s).chain(small).chain(oids).chain(octs).enumerate().filter(move |(i, _)| i % parts == part).map(|(_, c)| c)
}

pub fn decode_per(s: &mut Src) -> PerCase {
    match s.below(5) {
        0 => PerCase::Integer(s.u32()),
        1 => PerCase::Integer(s.b32()),
        2 => {
            let min = s.b16();
            let value = min.saturating_add(s.b16());
            PerCase::Integer16 { value, min }
        }
        3 => PerCase::Oid([s.u8() & 15, s.u8() & 15, s.u8(), s.u8(), s.u8(), s.u8()]),
        _ => {
            let l = s.below(600);
            PerCase::Octets { data: s.fill(l), min: s.below(l + 1) as u16 }
        }
    }
}

// ------------------------------------------------------------------------------------------
// (c) ASN.1
// ------------------------------------------------------------------------------------------

#[derive(Serialize, Deserialize, Hash, Clone, Debug)]
pub enum AsnCase {
    Tree { node: Node, long_form: u8 },
    TsRequest { nego: Vec<u8> },
    TsAuthenticate { nego: Vec<u8>, pubkey: Vec<u8> },
    TsValidate { pubkey: Vec<u8>, long_form: u8 },
}

fn to_lib(n: &Node, blank: bool) -> Box<dyn ASN1> {
    match n {
        Node::Bool(b) => Box::new(if blank { false } else { *b }),
        Node::Int(v) => Box::new((if blank { 0 } else { *v }) as Integer),
        Node::Enum(v) => Box::new((if blank { 0 } else { *v }) as Enumerate),
        Node::Octets(b) => Box::new((if blank { vec![] } else { b.clone() }) as OctetString),
        Node::Seq(ch) => Box::new(lib_seq(ch, blank)),
        Node::SeqOf(ch) => {
            if blank {
                let tmpl = ch.get(0).cloned().unwrap_or(Node::Int(0));
                Box::new(SequenceOf::reader(move || to_lib(&tmpl, true)))
            } else {
                let mut so = SequenceOf::new();
                for c in ch {
                    so.inner.push(to_lib(c, false));
                }
                Box::new(so)
            }
        }
        Node::Explicit(t, inner) => Box::new(ExplicitTag::new(yasna::Tag::context(*t as u64), BoxAsn(to_lib(inner, blank)))),
        Node::AppSeq(t, ch) => Box::new(ImplicitTag::new(yasna::Tag::application(*t as u64), lib_seq(ch, blank))),
    }
}

fn lib_seq(ch: &[Node], blank: bool) -> Sequence {
    let mut s = Sequence::new();
    for (i, c) in ch.iter().enumerate() {
        s.insert(format!("e{}", i), to_lib(c, blank));
    }
    s
}

struct BoxAsn(Box<dyn ASN1>);
impl ASN1 for BoxAsn {
    fn write_asn1(&self, w: yasna::DERWriter) -> rdp::model::error::RdpResult<()> {
        self.0.write_asn1(w)
    }
    fn read_asn1(&mut self, r: yasna::BERReader) -> rdp::model::error::RdpResult<()> {
        self.0.read_asn1(r)
    }
    fn visit(&self) -> ASN1Type {
        self.0.visit()
    }
}

/// flatten the values of a library tree in the same order as `flat`
fn flat_lib(a: &dyn ASN1, out: &mut Vec<String>) {
    match a.visit() {
        ASN1Type::Sequence(s) => {
            out.push("seq(".into());
            for (_, c) in s.iter() {
                flat_lib(c.as_ref(), out)
            }
            out.push(")".into());
        }
        ASN1Type::SequenceOf(s) => {
            out.push("seqof(".into());
            for c in s.inner.iter() {
                flat_lib(c.as_ref(), out)
            }
            out.push(")".into());
        }
        ASN1Type::U32(v) => out.push(format!("int {}", v)),
        ASN1Type::OctetString(o) => out.push(format!("oct {}", engine::hex(o))),
        ASN1Type::Bool(b) => out.push(format!("bool {}", b)),
        ASN1Type::Enumerate(e) => out.push(format!("enum {}", e)),
    }
}

fn flat(n: &Node, out: &mut Vec<String>) {
    match n {
        Node::Seq(ch) | Node::AppSeq(_, ch) => {
            out.push("seq(".into());
            ch.iter().for_each(|c| flat(c, out));
            out.push(")".into());
        }
        Node::SeqOf(ch) => {
            out.push("seqof(".into());
            ch.iter().for_each(|c| flat(c, out));
            out.push(")".into());
        }
        Node::Int(v) => out.push(format!("int {}", v)),
        Node::Octets(o) => out.push(format!("oct {}", engine::hex(o))),
        Node::Bool(b) => out.push(format!("bool {}", b)),
        Node::Enum(e) => out.push(format!("enum {}", e)),
        Node::Explicit(_, i) => flat(i, out),
    }
}

fn depth_of(n: &Node) -> usize {
    match n {
        Node::Seq(c) | Node::SeqOf(c) | Node::AppSeq(_, c) => 1 + c.iter().map(depth_of).max().unwrap_or(0),
        Node::Explicit(_, i) => 1 + depth_of(i),
        _ => 0,
    }
}

pub fn run_asn(c: &AsnCase) -> Outcome {
    let mut out = Outcome::new();
    match c {
        AsnCase::Tree { node, long_form } => {
            out.label("asn-tree");
            out.nontrivial(depth_of(node) >= 2);
            let want = der::encode(node, LenForm::Minimal);
            let n2 = node.clone();
            let (r, _) = call_plain(move || to_der(to_lib(&n2, false).as_ref()));
            match r {
                Res::Ok(got) => {
                    if got != want {
                        out.fail("asn:to_der", format!("to_der = {} reference DER = {} for {:?}", hexs(&got), hexs(&want), node));
                        return out;
                    }
                }
                Res::Panic(p) => {
                    fail_panic(&mut out, "to_der", &p);
                    return out;
                }
                Res::Err(_) => unreachable!(),
            }
            let mut want_flat = Vec::new();
            flat(node, &mut want_flat);
            // decode DER with from_der and from_ber; decode long-form BER with from_ber
            let ber = der::encode(node, LenForm::Long(*long_form));
            for (name, bytes, use_ber) in [("from_der", want.clone(), false), ("from_ber(der)", want.clone(), true), ("from_ber(long)", ber, true)] {
                let n3 = node.clone();
                let (r, _) = call(move || {
                    let mut m = to_lib(&n3, true);
                    if use_ber {
                        from_ber(m.as_mut(), &bytes)?
                    } else {
                        from_der(m.as_mut(), &bytes)?
                    }
                    let mut f = Vec::new();
                    flat_lib(m.as_ref(), &mut f);
                    Ok(f)
                });
                match r {
                    Res::Ok(f) => {
                        if f != want_flat {
                            out.fail(format!("asn:{}:values", name), format!("{} gave {:?} want {:?}", name, f, want_flat));
                            return out;
                        }
                    }
                    Res::Err(e) => {
                        out.fail(format!("asn:{}:error", name), format!("{} of the reference encoding of {:?} failed: {}", name, node, e));
                        return out;
                    }
                    Res::Panic(p) => {
                        fail_panic(&mut out, name, &p);
                        return out;
                    }
                }
            }
        }
        AsnCase::TsRequest { nego } => {
            out.label("ts-request");
            out.nontrivial(nego.len() >= 0x80);
            let want = der::encode(&Node::Seq(vec![Node::Explicit(0, Box::new(Node::Int(2))), Node::Explicit(1, Box::new(Node::SeqOf(vec![Node::Seq(vec![Node::Explicit(0, Box::new(Node::Octets(nego.clone())))])])))]), LenForm::Minimal);
            let n = nego.clone();
            let (r, _) = call_plain(move || cssp::create_ts_request(n));
            match r {
                Res::Ok(got) => {
                    if got != want {
                        out.fail("asn:ts_request:bytes", format!("create_ts_request = {} reference = {}", hexs(&got), hexs(&want)));
                        return out;
                    }
                }
                Res::Panic(p) => {
                    fail_panic(&mut out, "create_ts_request", &p);
                    return out;
                }
                Res::Err(_) => unreachable!(),
            }
            let (r, _) = call(|| cssp::read_ts_server_challenge(&want));
            match r {
                Res::Ok(got) => {
                    if &got != nego {
                        out.fail("asn:ts_request:roundtrip", format!("read_ts_server_challenge returned {} want {}", hexs(&got), hexs(nego)));
                    }
                }
                Res::Err(e) => {
                    out.fail("asn:ts_request:error", format!("read_ts_server_challenge failed on its own encoding: {}", e));
                }
                Res::Panic(p) => fail_panic(&mut out, "read_ts_server_challenge", &p),
            }
        }
        AsnCase::TsAuthenticate { nego, pubkey } => {
            out.label("ts-authenticate");
            out.nontrivial(nego.len() + pubkey.len() >= 0x80);
            let want = der::encode(
                &Node::Seq(vec![
                    Node::Explicit(0, Box::new(Node::Int(2))),
                    Node::Explicit(1, Box::new(Node::SeqOf(vec![Node::Seq(vec![Node::Explicit(0, Box::new(Node::Octets(nego.clone())))])]))),
                    Node::Explicit(3, Box::new(Node::Octets(pubkey.clone()))),
                ]),
                LenForm::Minimal,
            );
            let (n, p) = (nego.clone(), pubkey.clone());
            let (r, _) = call_plain(move || cssp::create_ts_authenticate(n, p));
            match r {
                Res::Ok(got) => {
                    if got != want {
                        out.fail("asn:ts_authenticate:bytes", format!("create_ts_authenticate = {} reference = {}", hexs(&got), hexs(&want)));
                    }
                }
                Res::Panic(p) => fail_panic(&mut out, "create_ts_authenticate", &p),
                Res::Err(_) => unreachable!(),
            }
        }
        AsnCase::TsValidate { pubkey, long_form } => {
            out.label("ts-validate");
            out.nontrivial(pubkey.len() >= 0x80);
            let node = Node::Seq(vec![Node::Explicit(0, Box::new(Node::Int(2))), Node::Explicit(3, Box::new(Node::Octets(pubkey.clone())))]);
            // DER only: read_ts_validate uses a DER parser, a conforming CredSSP server sends DER
            let _ = long_form;
            let bytes = der::encode(&node, LenForm::Minimal);
            let (r, _) = call(|| cssp::read_ts_validate(&bytes));
            match r {
                Res::Ok(got) => {
                    if &got != pubkey {
                        out.fail("asn:ts_validate:value", format!("read_ts_validate returned {} want {}", hexs(&got), hexs(pubkey)));
                    }
                }
                Res::Err(e) => {
                    out.fail("asn:ts_validate:error", format!("read_ts_validate failed on a reference TSRequest: {}", e));
                }
                Res::Panic(p) => fail_panic(&mut out, "read_ts_validate", &p),
            }
        }
    }
    out
}

fn gen_node(s: &mut Src, depth: usize) -> Node {
    let leaf = |s: &mut Src| match s.below(5) {
        0 => Node::Bool(s.bool()),
        1 => Node::Int(s.b32()),
        2 => Node::Enum(match s.below(4) {
            0 => s.below(16) as i64,
            1 => s.u8() as i64,
            2 => -(s.u8() as i64),
            _ => s.u32() as i64,
        }),
        _ => {
            let l = match s.below(5) {
                0 => 0,
                1 => 127 + s.below(3),
                2 => 255 + s.below(3),
                _ => s.below(40),
            };
            Node::Octets(s.fill(l))
        }
    };
    if depth == 0 {
        return leaf(s);
    }
    match s.below(6) {
        0 | 1 => leaf(s),
        2 => {
            let n = s.below(5);
            Node::Seq((0..n).map(|_| gen_node(s, depth - 1)).collect())
        }
        3 => {
            // sequence-of: same structure for every element
            let tmpl = gen_node(s, depth - 1);
            let n = s.below(4);
            Node::SeqOf((0..n).map(|_| revalue_node(&tmpl, s)).collect())
        }
        4 => Node::Explicit(s.below(8) as u8, Box::new(gen_node(s, depth - 1))),
        _ => {
            let n = s.below(5);
            Node::AppSeq(s.pick(&[101u32, 102, 1, 30, 31, 127, 128, 300]), (0..n).map(|_| gen_node(s, depth - 1)).collect())
        }
    }
}

fn revalue_node(t: &Node, s: &mut Src) -> Node {
    match t {
        Node::Bool(_) => Node::Bool(s.bool()),
        Node::Int(_) => Node::Int(s.b32()),
        Node::Enum(_) => Node::Enum(s.u8() as i64),
        Node::Octets(_) => {
            let l = s.below(20);
            Node::Octets(s.fill(l))
        }
        Node::Seq(c) => Node::Seq(c.iter().map(|x| revalue_node(x, s)).collect()),
        Node::SeqOf(c) => Node::SeqOf(c.iter().map(|x| revalue_node(x, s)).collect()),
        Node::Explicit(n, i) => Node::Explicit(*n, Box::new(revalue_node(i, s))),
        Node::AppSeq(n, c) => Node::AppSeq(*n, c.iter().map(|x| revalue_node(x, s)).collect()),
    }
}

fn domain_params(s: &mut Src) -> Node {
    Node::Seq((0..8).map(|_| Node::Int(s.b32())).collect())
}

pub fn decode_asn(s: &mut Src) -> AsnCase {
    match s.below(8) {
        0 => {
            // MCS connect-initial shape
            let ud = s.below(700);
            AsnCase::Tree {
                node: Node::AppSeq(101, vec![Node::Octets(vec![1]), Node::Octets(vec![1]), Node::Bool(true), domain_params(s), domain_params(s), domain_params(s), Node::Octets(s.fill(ud))]),
                long_form: 1 + s.below(3) as u8,
            }
        }
        1 => {
            let ud = s.below(400);
            AsnCase::Tree { node: Node::AppSeq(102, vec![Node::Enum(s.below(16) as i64), Node::Int(s.b32()), domain_params(s), Node::Octets(s.fill(ud))]), long_form: 1 + s.below(3) as u8 }
        }
        2 => {
            let l = s.pick(&[0usize, 1, 40, 117, 118, 119, 120, 127, 128, 200, 245, 246, 247, 248, 255, 256, 1000, 3000]);
            AsnCase::TsRequest { nego: s.fill(l) }
        }
        3 => {
            let l = s.below(400);
            let k = s.pick(&[0usize, 16, 100, 127, 128, 140, 270, 526, 1100]);
            AsnCase::TsAuthenticate { nego: s.fill(l), pubkey: s.fill(k) }
        }
        4 => {
            let k = s.pick(&[0usize, 1, 16, 100, 118, 119, 127, 128, 140, 255, 256, 286, 542, 1100]);
            AsnCase::TsValidate { pubkey: s.fill(k), long_form: 1 }
        }
        _ => {
            let d = 1 + s.below(3);
            AsnCase::Tree { node: gen_node(s, d), long_form: 1 + s.below(4) as u8 }
        }
    }
}

// ------------------------------------------------------------------------------------------
// (d) GCC
// ------------------------------------------------------------------------------------------

#[derive(Serialize, Deserialize, Hash, Clone, Debug)]
pub enum GccCase {
    Request { user_data: Vec<u8> },
    Response(CcRsp),
}

pub fn run_gcc(c: &GccCase) -> Outcome {
    let mut out = Outcome::new();
    match c {
        GccCase::Request { user_data } => {
            out.label("gcc-request");
            out.nontrivial(user_data.len() >= 0x80);
            if user_data.len() < 0x80 {
                out.label("short-user-data");
            }
            let (r, _) = call(|| write_conference_create_request(user_data));
            match r {
                Res::Ok(bytes) => match rgcc::parse_ccrq(&bytes) {
                    Ok(ud) => {
                        if ud != &user_data[..] {
                            out.fail("gcc:request:user-data", "reference decoder recovered different user data");
                        }
                    }
                    Err(e) => {
                        out.fail(format!("gcc:request:malformed:{}", if user_data.len() < 0x80 { "short" } else { "long" }), format!("reference T.124 decoder rejects the request for {} bytes of user data: {}; bytes {}", user_data.len(), e.0, hexs(&bytes)));
                    }
                },
                Res::Err(e) => {
                    out.fail("gcc:request:error", format!("write_conference_create_request failed: {}", e));
                }
                Res::Panic(p) => fail_panic(&mut out, "write_conference_create_request", &p),
            }
        }
        GccCase::Response(rsp) => {
            out.label("gcc-response");
            let ids: Vec<u16> = rsp.blocks.iter().filter_map(|b| if let ScBlock::Net { ids, .. } = b { Some(ids.clone()) } else { None }).last().unwrap_or_default();
            let version = rsp.blocks.iter().filter_map(|b| if let ScBlock::Core { version, .. } = b { Some(*version) } else { None }).last().unwrap_or(0);
            let unknown = rsp.blocks.iter().any(|b| matches!(b, ScBlock::Unknown { .. }));
            out.nontrivial(!ids.is_empty() || unknown);
            let b = rgcc::build_ccrsp(rsp);
            let (r, _) = call(|| read_conference_create_response(&mut Cursor::new(b.bytes.clone())));
            match r {
                Res::Ok(sd) => {
                    if sd.channel_ids != ids {
                        out.fail("gcc:response:channels", format!("channel ids {:?} want {:?}", sd.channel_ids, ids));
                        return out;
                    }
                    let want = match version {
                        0x00080001 => 1,
                        0x00080004 => 4,
                        _ => 0,
                    };
                    let got = if sd.rdp_version == Version::RdpVersion {
                        1
                    } else if sd.rdp_version == Version::RdpVersion5plus {
                        4
                    } else {
                        0
                    };
                    if got != want {
                        let names = ["Unknown", "RdpVersion (0x00080001)", "", "", "RdpVersion5plus (0x00080004)"];
                        out.fail("gcc:response:version", format!("server version 0x{:08x} reported as {} want {}", version, names[got], names[want]));
                    }
                }
                Res::Err(e) => {
                    out.fail("gcc:response:error", format!("conforming response rejected: {}; {:?}", e, rsp));
                }
                Res::Panic(p) => fail_panic(&mut out, "read_conference_create_response", &p),
            }
        }
    }
    out
}

pub fn gen_ccrsp(s: &mut Src) -> CcRsp {
    let version = s.pick(&[0x00080004u32, 0x00080001, 0x00080004, 0x00080005, 0x00080006, 0x00080007, 0x00080008, 0x00080009, 0x0008000A, 0x0008000B, 0x0008000C, 0x0008000D, 0x0008000E, 0x0008000F, 0x00080010, 0x00080011, 0, 0xFFFFFFFF]);
    let version = if s.chance(16) { s.u32() } else { version };
    let core = match s.below(3) {
        0 => ScBlock::Core { version, requested: None, early_caps: None },
        1 => ScBlock::Core { version, requested: Some(s.below(4) as u32), early_caps: None },
        _ => ScBlock::Core { version, requested: Some(s.below(4) as u32), early_caps: Some(s.b32()) },
    };
    let n = s.small(31);
    let ids: Vec<u16> = (0..n).map(|i| 1004 + i as u16).collect();
    let pad = if n % 2 == 1 { !s.chance(32) } else { s.chance(16) };
    let mut blocks = vec![core, ScBlock::Security { method: 0, level: 0 }, ScBlock::Net { io_channel: 1003, ids, pad }];
    // order permutation
    let p = s.below(6);
    let perm = [[0, 1, 2], [0, 2, 1], [1, 0, 2], [1, 2, 0], [2, 0, 1], [2, 1, 0]][p];
    blocks = perm.iter().map(|i| blocks[*i].clone()).collect();
    // unknown blocks
    let nu = s.below(3);
    for _ in 0..nu {
        let typ = s.pick(&[0x0C04u16, 0x0C06, 0x0C08]);
        let l = s.below(40);
        let at = s.below(blocks.len() + 1);
        blocks.insert(at, ScBlock::Unknown { typ, body: s.fill(l) });
    }
    CcRsp { node_id: 1001 + s.b16().min(64534), tag: s.pick(&[1u32, 0, 255, 256, 65535, 65536]), result: 0, blocks, long_lengths: s.chance(24) }
}

pub fn decode_gcc(s: &mut Src) -> GccCase {
    if s.chance(80) {
        let l = match s.below(6) {
            0 => s.below(128),
            1 => 113 + s.below(20),
            2 => 128 + s.below(300),
            _ => s.below(3001),
        };
        GccCase::Request { user_data: s.fill(l) }
    } else {
        GccCase::Response(gen_ccrsp(s))
    }
}

pub fn check(rep: &Report) {
    rep.assume("message-model preconditions taken from the library's callers: an empty byte block reads to the end of its stream, so it only appears bounded by a Size option; arrays and optional fields only appear inside a sized field; element shapes of an array are uniform");
    rep.assume("PER integers follow the RDP profile (1-, 2- or 4-octet bodies); value-level agreement is required, byte-level only where the encoding is canonical");
    rep.assume("object identifiers use the 4-bit packing of the first two arcs used by RDP implementations, arcs 0..15");
    let tier = rep.tier;
    rep.enumerate("per-exhaustive", true, move |p, n| per_exhaustive(tier, p, n), run_per);
    if tier == Tier::Thorough {
        rep.enumerate("per-integer-u32-exhaustive", true, |p, n| ((p as u64)..(1u64 << 32)).step_by(n).map(|v| PerCase::Integer(v as u32)), run_per);
    }
    rep.random("per-random", tier.n(300_000, 6_000_000), 16, decode_per, run_per);
    // size-bounded fields at block-size boundaries, each followed by further fields, flat and nested
    let mut sized = Vec::new();
    for n in [0usize, 1, 255, 256, 1499, 1500, 1501, 4095, 4096, 4097, 8191, 8192, 8193, 12288, 16383, 16384, 16385, 32768, 65535, 65536, 65537, 70000, 131072, 200000] {
        for width in [2u8, 4] {
            // the length field must be able to hold the size
            if width == 2 && n > 65535 {
                continue;
            }
            let data: Vec<u8> = (0..n).map(|i| (i * 7 + 1) as u8).collect();
            let rec = vec![Field::SizedBlock { width, be: width == 4, gap: vec![], data: data.clone() }, Field::Plain(Shape::U16 { v: 0xBEEF, be: false }), Field::Skip { flag: 0, mask: 1, target: Shape::U8(9) }];
            sized.push(ModelCase { shape: Shape::Component(rec.clone()) });
            sized.push(ModelCase { shape: Shape::Component(vec![Field::Plain(Shape::Component(rec.clone())), Field::Plain(Shape::U32 { v: 7, be: true })]) });
            sized.push(ModelCase { shape: Shape::Component(vec![Field::SizedLen { w1: 2, be1: false, w2: width, be2: true, data: data.clone() }, Field::Plain(Shape::U8(0x77))]) });
            if n >= 1 && n <= 65000 {
                sized.push(ModelCase { shape: Shape::Component(vec![Field::SizedOptional { width: 4, be: false, head: vec![Shape::Block(data.clone()), Shape::U8(1)], tail: Some(Shape::U16 { v: 5, be: false }), tail_template: Shape::U16 { v: 0, be: false } }, Field::Plain(Shape::U8(3))]) });
            }
        }
    }
    // a size-bounded flag that skips (or keeps) what follows it
    for flag in [0u8, 1, 0x80, 0xFF] {
        for width in [1u8, 2, 4] {
            for target in [Shape::U8(0x42), Shape::U32 { v: 0xDEADBEEF, be: false }, Shape::Block(vec![1, 2, 3])] {
                sized.push(ModelCase { shape: Shape::Component(vec![Field::Plain(Shape::U8(5)), Field::SizedFlag { width, be: false, flag, mask: 0x81, target: target.clone() }, Field::Plain(Shape::U16 { v: 0x1234, be: true })]) });
            }
        }
    }
    // a block that is absent (skipped by a flag) although its length field announces n bytes, followed by more fields, alone and
    // as the element of a sequence of records
    for n in [0usize, 1, 2, 7, 300] {
        for flag in [0u8, 1] {
            for width in [1u8, 2, 4] {
                if width == 1 && n > 255 {
                    continue;
                }
                let rec = vec![Field::SizedSkipped { width, be: false, flag, mask: 1, data: vec![0xAB; n] }, Field::Plain(Shape::U16 { v: 0x1234, be: true })];
                sized.push(ModelCase { shape: Shape::Component(rec.clone()) });
                sized.push(ModelCase { shape: Shape::Trame(vec![Shape::Component(rec.clone()), Shape::Component(rec.clone()), Shape::U8(9)]) });
            }
        }
    }
    rep.list("sized-boundaries", sized, run_model);
    rep.random("model", tier.n(600_000, 20_000_000), 200, decode_model, run_model);
    rep.random("asn1", tier.n(200_000, 6_000_000), 160, decode_asn, run_asn);
    // large values: octet strings at every DER length-form boundary up to 70000 bytes (the user data of an MCS connect response
    // may fill a whole TPKT frame, a CredSSP token has no limit of its own), and sequences of many elements
    {
        let mut big = Vec::new();
        for n in [126usize, 127, 128, 129, 254, 255, 256, 257, 4095, 4096, 16382, 16383, 16384, 16385, 32767, 32768, 65534, 65535, 65536, 65537, 70000] {
            let data: Vec<u8> = (0..n).map(|k| (k * 31 + n) as u8).collect();
            for lf in [1u8, 2, 3] {
                big.push(AsnCase::Tree { node: Node::Seq(vec![Node::Octets(data.clone())]), long_form: lf });
                big.push(AsnCase::Tree { node: Node::AppSeq(102, vec![Node::Enum(0), Node::Int(7), Node::Seq((0..8).map(|i| Node::Int(i)).collect()), Node::Octets(data.clone())]), long_form: lf });
            }
            big.push(AsnCase::TsRequest { nego: data.clone() });
            big.push(AsnCase::TsValidate { pubkey: data.clone(), long_form: 1 });
            big.push(AsnCase::TsAuthenticate { nego: data.clone(), pubkey: data });
        }
        for n in [100usize, 1000, 1023, 1024, 1025, 1500, 5000] {
            big.push(AsnCase::Tree { node: Node::Seq(vec![Node::SeqOf((0..n).map(|k| Node::Int((k as u32).wrapping_mul(2654435761u32))).collect())]), long_form: 1 });
            big.push(AsnCase::Tree { node: Node::Seq(vec![Node::SeqOf((0..n).map(|k| Node::Seq(vec![Node::Explicit(0, Box::new(Node::Octets(vec![k as u8; 3])))])).collect())]), long_form: 2 });
        }
        rep.list("asn1-large", big, run_asn);
    }
    rep.random("gcc", tier.n(200_000, 6_000_000), 96, decode_gcc, run_gcc);
    rep.enumerate(
        "gcc-request-lengths",
        true,
        |p, n| (p..3001).step_by(n).map(|l| GccCase::Request { user_data: engine::src::expand(l as u32 + 1, l) }),
        run_gcc,
    );
    rep.require("model", "dynamic", 5000);
    rep.require("gcc", "gcc-response", 5000);
}
