//! C08 — Bitmap decompression is total and returns exactly width*height*4 bytes.
use crate::util::{call, fail_panic, hexs, Res};
use engine::{Outcome, Report, Src};
use rdp::codec::rle::{rle_16_decompress, rle_32_decompress};
use rdp::core::event::BitmapEvent;
use refimpl::{planar, rle16};
use serde::{Deserialize, Serialize};

pub const LEVEL: &str = "exploration";
pub const RULE: &str = "cases = (entry point, width, height, bpp, compression flag, data). Sections: tiny-exhaustive enumerates every data string of length <= 2 (quick) / <= 3 (thorough, 16 bpp only) for every (w,h) in a small grid, both depths, both flags; grammar = order-aware 16 bpp streams and planar control-byte streams with run lengths placed at/around line and buffer ends; mutated = reference-encoder output with 1..4 byte faults, truncation, extension or wrong declared size; raw = uncompressed data of every length around the expected one; direct = rle_16/rle_32 called directly with exact or oversized output. Non-trivial = compressed case with non-empty data, or raw case whose length differs from w*h*bpp/8; distinct by hash of the whole case.";

#[derive(Serialize, Deserialize, Hash, Clone, Debug)]
pub struct Case {
    /// 0 = BitmapEvent::decompress, 1 = rle_16_decompress, 2 = rle_32_decompress
    pub entry: u8,
    pub w: u16,
    pub h: u16,
    pub bpp: u16,
    pub compress: bool,
    /// extra output elements beyond the exact size (direct entries only)
    pub extra_out: u32,
    pub data: Vec<u8>,
}

fn max_px(rep: &Report) -> usize {
    rep.tier.n(1 << 20, 16 << 20) as usize
}

pub fn run(c: &Case) -> Outcome {
    let mut out = Outcome::new();
    let (w, h) = (c.w as usize, c.h as usize);
    let expect = w * h * 4;
    match c.entry {
        0 => {
            out.label(if c.compress { "decompress/compressed" } else { "decompress/raw" });
            let raw_expected = w * h * (c.bpp as usize / 8);
            out.nontrivial(if c.compress { !c.data.is_empty() } else { c.data.len() != raw_expected } && (c.bpp == 16 || c.bpp == 32));
            let (dl, dt, dr, db) = crate::props::c09::dest_of(c.w as usize * 13 + c.h as usize * 7 + c.data.len(), c.w, c.h);
            let ev = BitmapEvent { dest_left: dl, dest_top: dt, dest_right: dr, dest_bottom: db, width: c.w, height: c.h, bpp: c.bpp, is_compress: c.compress, data: c.data.clone() };
            let (r, st) = call(move || ev.decompress());
            match r {
                Res::Ok(v) => {
                    out.label("ok");
                    if v.len() != expect {
                        out.fail(
                            format!("decompress:len:bpp{}:{}", c.bpp, if c.compress { "rle" } else { "raw" }),
                            format!("Ok with {} bytes, expected w*h*4 = {} (w={} h={} bpp={} compress={} data={})", v.len(), expect, w, h, c.bpp, c.compress, hexs(&c.data)),
                        );
                    }
                    let bound = 4 * expect as u64 + (1 << 20) + 16 * c.data.len() as u64;
                    if st.total > bound {
                        out.fail("decompress:alloc", format!("{} bytes allocated for an output of {} bytes and {} data bytes (bound {})", st.total, expect, c.data.len(), bound));
                    }
                }
                Res::Err(_) => {
                    out.label("err");
                    let bound = 4 * expect as u64 + (1 << 20) + 16 * c.data.len() as u64;
                    if st.total > bound {
                        out.fail("decompress:alloc", format!("{} bytes allocated for an output of {} bytes and {} data bytes (bound {})", st.total, expect, c.data.len(), bound));
                    }
                }
                Res::Panic(p) => {
                    out.label("panic");
                    fail_panic(&mut out, &format!("decompress:bpp{}:{}", c.bpp, if c.compress { "rle" } else { "raw" }), &p);
                }
            }
        }
        1 => {
            out.label("direct16");
            out.nontrivial(!c.data.is_empty());
            let mut buf = vec![0u16; w * h + c.extra_out as usize];
            let data = c.data.clone();
            let (r, _) = call(move || rle_16_decompress(&data, w, h, &mut buf));
            match r {
                Res::Panic(p) => fail_panic(&mut out, "rle_16_decompress", &p),
                Res::Ok(_) => {
                    out.label("ok");
                }
                Res::Err(_) => {
                    out.label("err");
                }
            }
        }
        _ => {
            out.label("direct32");
            out.nontrivial(!c.data.is_empty());
            let mut buf = vec![0u8; w * h * 4 + c.extra_out as usize];
            let data = c.data.clone();
            let (r, _) = call(move || rle_32_decompress(&data, w as u32, h as u32, &mut buf));
            match r {
                Res::Panic(p) => fail_panic(&mut out, "rle_32_decompress", &p),
                Res::Ok(_) => {
                    out.label("ok");
                }
                Res::Err(_) => {
                    out.label("err");
                }
            }
        }
    }
    out
}

const DIMS: [u16; 24] = [0, 1, 2, 3, 4, 7, 8, 9, 15, 16, 17, 31, 32, 33, 63, 64, 65, 127, 128, 255, 256, 1024, 4096, 65535];

fn dims(s: &mut Src, cap: usize) -> (u16, u16) {
    let pickd = |s: &mut Src| -> u16 {
        if s.chance(96) {
            s.pick(&DIMS)
        } else {
            s.below(20) as u16
        }
    };
    let mut w = pickd(s);
    let mut h = pickd(s);
    // keep the output allocation bounded (the property allows any size; the harness does not have the memory)
    while (w as usize) * (h as usize) > cap {
        if w >= h {
            w /= 2
        } else {
            h /= 2
        }
    }
    (w, h)
}

/// 16 bpp order-aware stream
fn grammar16(s: &mut Src, w: usize, h: usize) -> Vec<u8> {
    let total = w * h;
    let mut pos = 0usize;
    let mut out = Vec::new();
    let norders = 1 + s.below(10);
    for _ in 0..norders {
        let line_rem = if w == 0 { 0 } else { w - (pos % w) };
        let buf_rem = total.saturating_sub(pos);
        // target run length around the interesting boundaries
        let base = match s.below(10) {
            0 => 1,
            1 => line_rem,
            2 => buf_rem,
            3 => w,
            4 => total,
            5 => 0xFFFF,
            6 => 8,
            7 => 0,
            _ => 1 + s.below(40),
        };
        let len = match s.below(4) {
            0 => base.saturating_sub(1),
            1 => base + 1,
            _ => base,
        }
        .min(0xFFFF);
        // header byte: any of the 256 values, biased to the defined orders
        let kind = s.below(16);
        let (reg, lite, mega, is_fgbg, is_lite): (u8, u8, u8, bool, bool) = match kind {
            0 => (0x00, 0, 0xF0, false, false),
            1 => (0x20, 0, 0xF1, false, false),
            2 => (0x40, 0, 0xF2, true, false),
            3 => (0x60, 0, 0xF3, false, false),
            4 => (0x80, 0, 0xF4, false, false),
            5 => (0, 0xC0, 0xF6, false, true),
            6 => (0, 0xD0, 0xF7, true, true),
            7 => (0, 0xE0, 0xF8, false, true),
            8 => {
                // specials and undefined single bytes
                out.push(s.pick(&[0xF9u8, 0xFA, 0xFD, 0xFE, 0xF5, 0xFB, 0xFC, 0xFF]));
                pos += 1;
                continue;
            }
            9 => {
                // undefined regular range 0xA0..0xBF
                out.push(0xA0 | (s.u8() & 0x1F));
                let k = s.below(4);
                out.extend(s.bytes(k));
                continue;
            }
            10 => {
                // completely free header byte plus a few free operand bytes
                out.push(s.u8());
                let k = s.below(6);
                out.extend(s.bytes(k));
                continue;
            }
            _ => {
                let k = s.below(5);
                [(0x00, 0, 0xF0, false, false), (0x40, 0, 0xF2, true, false), (0x80, 0, 0xF4, false, false), (0, 0xE0, 0xF8, false, true), (0x60, 0, 0xF3, false, false)][k]
            }
        };
        let form = s.below(3);
        let short_max = if is_lite { 15 } else { 31 };
        let unit = if is_fgbg { 8 } else { 1 };
        if form == 0 && len % unit == 0 && len / unit >= 1 && len / unit <= short_max {
            out.push(if is_lite { lite } else { reg } | (len / unit) as u8);
        } else if form <= 1 && {
            let off = if is_fgbg { 1 } else if is_lite { 16 } else { 32 };
            len >= off && len - off <= 255
        } {
            let off = if is_fgbg { 1 } else if is_lite { 16 } else { 32 };
            out.push(if is_lite { lite } else { reg });
            out.push((len - off) as u8);
        } else {
            out.push(mega);
            out.push((len & 0xFF) as u8);
            out.push((len >> 8) as u8);
        }
        // operands; with a small probability they are cut short
        let cut = s.chance(24);
        let mut ops: Vec<u8> = Vec::new();
        match mega {
            0xF6 | 0xF7 => ops.extend(s.bytes(2)),
            _ => {}
        }
        match mega {
            0xF3 => ops.extend(s.bytes(2)),
            0xF8 => ops.extend(s.bytes(4)),
            0xF4 => {
                let n = len.min(600);
                ops.extend(s.fill(n * 2));
            }
            0xF2 | 0xF7 => {
                let n = ((len + 7) / 8).min(600);
                ops.extend(s.fill(n));
            }
            _ => {}
        }
        if cut && !ops.is_empty() {
            let k = s.below(ops.len());
            ops.truncate(k);
        }
        out.extend(ops);
        pos += if mega == 0xF8 { len * 2 } else { len };
    }
    out
}

/// planar stream with control bytes of every value and segments ending at / around the scanline end
fn grammar32(s: &mut Src, w: usize, h: usize) -> Vec<u8> {
    let mut out = vec![if s.chance(16) { s.u8() } else { 0x10 }];
    let planes = 1 + s.below(4);
    'outer: for _ in 0..planes {
        for _line in 0..h.min(40) {
            let mut x = 0usize;
            let mut guard = 0;
            while x < w.max(1) && guard < 64 {
                guard += 1;
                let rem = w.saturating_sub(x);
                let style = s.below(8);
                let (raw, run): (usize, usize) = match style {
                    0 => (s.below(16), s.below(16)),
                    1 => (rem.min(15), 0),
                    2 => (rem.saturating_sub(3).min(15), 3),
                    3 => (0, (rem + 1).clamp(16, 47)),
                    4 => (0, rem.clamp(16, 47)),
                    5 => ((rem + 1).min(15), 0),
                    6 => (1, (rem).min(15)),
                    _ => (1 + s.below(4), s.pick(&[0usize, 3, 4, 15])),
                };
                if run >= 16 {
                    let r = run.min(47);
                    out.push(if r < 32 { (((r - 16) as u8) << 4) | 1 } else { (((r - 32) as u8) << 4) | 2 });
                    x += r;
                } else {
                    out.push(((raw as u8) << 4) | run as u8);
                    // note: run values 1 and 2 are reinterpreted by the decoder as long runs without raw bytes
                    let n = if run == 1 || run == 2 { 0 } else { raw };
                    out.extend(s.bytes(n));
                    x += if run == 1 { 16 + raw } else if run == 2 { 32 + raw } else { raw + run };
                }
                if out.len() > 4096 {
                    break 'outer;
                }
            }
        }
    }
    if s.chance(32) {
        let k = s.below(out.len());
        out.truncate(k);
    }
    out
}

pub fn decode_grammar(s: &mut Src, cap: usize) -> Case {
    let (w, h) = dims(s, cap);
    let sel = s.below(8);
    let bpp = if sel < 4 { 16 } else { 32 };
    let data = if bpp == 16 { grammar16(s, w as usize, h as usize) } else { grammar32(s, w as usize, h as usize) };
    let entry = match s.below(4) {
        0 => {
            if bpp == 16 {
                1
            } else {
                2
            }
        }
        _ => 0,
    };
    let extra_out = if entry != 0 && s.bool() { s.below(9) as u32 + if entry == 1 { (w as u32) * (h as u32) } else { 0 } } else { 0 };
    Case { entry, w, h, bpp, compress: true, extra_out, data }
}

pub fn decode_mutated(s: &mut Src, _cap: usize) -> Case {
    let w = 1 + s.below(24);
    let h = 1 + s.below(12);
    let bpp16 = s.bool();
    let mut data;
    if bpp16 {
        let pal = [0u16, 0xFFFF, s.u16(), s.u16()];
        let style = s.below(3);
        let px: Vec<u16> = (0..w * h).map(|i| match style {
            0 => pal[s.below(4)],
            1 => pal[(i / 3) % 2],
            _ => if i >= w { pal[(i % w) % 3] } else { pal[s.below(2)] },
        }).collect();
        let seed = s.u32() as u64 | 1;
        let mut st = seed;
        let mut ch = move |n: usize| {
            st ^= st << 13;
            st ^= st >> 7;
            st ^= st << 17;
            (st % n.max(1) as u64) as usize
        };
        data = rle16::encode_random(&px, w, &mut ch).0;
    } else {
        let img = s.fill(w * h * 4);
        let seed = s.u32() as u64 | 1;
        let mut st = seed;
        let mut ch = move |n: usize| {
            st ^= st << 13;
            st ^= st >> 7;
            st ^= st << 17;
            (st % n.max(1) as u64) as usize
        };
        data = planar::encode(&img, w, h, &mut ch).0;
    }
    let (mut dw, mut dh) = (w as u16, h as u16);
    match s.below(6) {
        0 => {
            let k = s.below(data.len() + 1);
            data.truncate(k);
        }
        1 => {
            let k = 1 + s.below(8);
            data.extend(s.bytes(k));
        }
        2 => {
            dw = (dw as i32 + s.pick(&[-1i32, 1, 2, -2])).max(0) as u16;
        }
        3 => {
            dh = (dh as i32 + s.pick(&[-1i32, 1, 2, -2])).max(0) as u16;
        }
        _ => {
            let k = 1 + s.below(4);
            for _ in 0..k {
                if data.is_empty() {
                    break;
                }
                let i = s.below(data.len());
                data[i] = if s.bool() { s.u8() } else { data[i] ^ (1 << s.below(8)) };
            }
        }
    }
    Case { entry: if s.chance(48) { if bpp16 { 1 } else { 2 } } else { 0 }, w: dw, h: dh, bpp: if bpp16 { 16 } else { 32 }, compress: true, extra_out: 0, data }
}

pub fn decode_raw(s: &mut Src, cap: usize) -> Case {
    let (w, h) = dims(s, cap.min(1 << 18));
    let bpp = s.pick(&[16u16, 32, 16, 32, 0, 1, 4, 8, 15, 24, 33, 0xFFFF]);
    let bytes_pp = match bpp {
        16 => 2usize,
        32 => 4,
        24 => 3,
        _ => 1,
    };
    let expected = w as usize * h as usize * bytes_pp;
    let row = w as usize * bytes_pp;
    let len = match s.below(10) {
        0 => 0,
        1 => expected.saturating_sub(1),
        2 => expected + 1,
        3 => expected.saturating_sub(row),
        4 => expected + row,
        5 => expected / 2,
        6 => s.below(16),
        7 => expected + ((h as usize) * ((4 - row % 4) % 4)),
        _ => expected,
    };
    Case { entry: 0, w, h, bpp, compress: s.chance(32), extra_out: 0, data: s.fill(len) }
}

fn tiny_cases(maxlen: usize, part: usize, parts: usize) -> impl Iterator<Item = Case> {
    // (w,h) grid x (bpp, compress) x all strings up to maxlen
    let mut combos: Vec<(u16, u16, u16, bool)> = Vec::new();
    for w in 0..4u16 {
        for h in 0..4u16 {
            for &(bpp, c) in &[(16u16, true), (32, true), (16, false), (32, false)] {
                combos.push((w, h, bpp, c));
            }
        }
    }
    let nstr: usize = (0..=maxlen).map(|l| 256usize.pow(l as u32)).sum();
    let total = combos.len() * nstr;
    (part..total).step_by(parts).map(move |i| {
        let (w, h, bpp, c) = combos[i / nstr];
        let mut k = i % nstr;
        let mut len = 0;
        while k >= 256usize.pow(len as u32) {
            k -= 256usize.pow(len as u32);
            len += 1;
        }
        let data: Vec<u8> = (0..len).map(|j| ((k >> (8 * j)) & 0xFF) as u8).collect();
        Case { entry: 0, w, h, bpp, compress: c, extra_out: 0, data }
    })
}

/// thorough: every 3-byte string for 16 bpp compressed on a few sizes
fn tiny3_cases(part: usize, parts: usize) -> impl Iterator<Item = Case> {
    let combos: Vec<(u16, u16, u16)> = vec![(1, 1, 16), (2, 1, 16), (2, 2, 16), (3, 2, 16), (1, 1, 32), (2, 2, 32), (17, 1, 32)];
    let nstr = 1usize << 24;
    let total = combos.len() * nstr;
    (part..total).step_by(parts).map(move |i| {
        let (w, h, bpp) = combos[i / nstr];
        let k = i % nstr;
        Case { entry: 0, w, h, bpp, compress: true, extra_out: 0, data: vec![(k & 0xFF) as u8, ((k >> 8) & 0xFF) as u8, (k >> 16) as u8] }
    })
}

pub fn check(rep: &Report) {
    let cap = max_px(rep);
    rep.assume("width*height is capped (1 Mi pixels quick, 16 Mi thorough) so the harness itself does not run out of memory; the property's statement has no such cap");
    rep.assume("direct calls of rle_16_decompress / rle_32_decompress use output slices of at least the size their only caller uses (w*h u16 / w*h*4 u8)");
    rep.enumerate("tiny-exhaustive", true, |p, n| tiny_cases(2, p, n), run);
    if rep.tier == engine::Tier::Thorough {
        rep.enumerate("tiny3-exhaustive", true, tiny3_cases, run);
    }
    // unsupported depths
    let mut unsup = Vec::new();
    for bpp in [0u16, 1, 4, 8, 15, 24, 33, 0xFFFF] {
        for compress in [false, true] {
            for data in [vec![], vec![0u8; 4], vec![0x10, 0, 0, 0]] {
                unsup.push(Case { entry: 0, w: 1, h: 1, bpp, compress, extra_out: 0, data });
            }
        }
    }
    rep.list("unsupported-depths", unsup, run);
    rep.random("grammar", rep.tier.n(400_000, 20_000_000), 160, |s| decode_grammar(s, cap), run);
    rep.random("mutated", rep.tier.n(150_000, 8_000_000), 96, |s| decode_mutated(s, cap), run);
    rep.random("raw", rep.tier.n(60_000, 2_000_000), 24, |s| decode_raw(s, cap), run);
    rep.require("grammar", "ok", 100);
    rep.require("grammar", "err", 100);
    rep.require("mutated", "ok", 100);
}
