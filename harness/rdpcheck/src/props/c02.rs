//! C02 — Negotiated transport security is honoured; no downgrade.
use crate::io::ChunkReader;
use crate::mem::ClientCfg;
use crate::props::c17::{self, Case as C17Case};
use crate::tls::{self, tls_records_only, written};
use crate::util::{call, fail_panic, hexs, Res};
use engine::{Outcome, Report, Src};
use rdp::core::tpkt;
use rdp::core::x224;
use rdp::model::link::{Link, Stream};
use rdp::nla::ntlm::Ntlm;
use refimpl::server::{apply_fault, FaultKind};
use refimpl::wire::{self, NegReply};
use serde::{Deserialize, Serialize};

pub const LEVEL: &str = "exploration";
pub const RULE: &str = "two sub-lanes. scripted: Connector::connect (all 64 combinations of use_nla / check_certificate / restricted admin / blank credentials / password hash / auto logon; also as the second connect() on a Connector object whose first negotiation ended in a failure code, without negotiation data or with each selection) and x224::Client::connect (offered masks SSL, SSL|HYBRID, HYBRID; with and without an authentication protocol) against a scripted connection confirm: RDP_NEG_RSP with every low-byte selected-protocol value (exhaustive), 0x100/0x101/0x10000/0x80000000/0xffffffff, every single bit, random u32; every flag byte; RDP_NEG_FAILURE; echoed RDP_NEG_REQ; absent negotiation data; unknown type bytes; wrong length field; truncations; trailing garbage. Oracle: unless the reply is a well-formed RDP_NEG_RSP selecting exactly one offered protocol, the call returns Err and the client writes nothing after its connection request; otherwise everything it writes next on the raw transport parses as TLS records starting with a ClientHello (never TPKT, NTLMSSP or credentials in clear). tls: whole connections through real TLS: raw transcript = connection request + TLS records only; with check_certificate an untrusted server certificate gives Err with zero application bytes received by the server, a CA-signed one is accepted, and without check_certificate the untrusted one is accepted. Non-trivial = well-formed response selecting a protocol that was not offered, or an untrusted-certificate case; distinct by hash of the case.";

#[derive(Serialize, Deserialize, Hash, Clone, Debug)]
pub enum Entry {
    /// Connector::connect with use_nla / check_certificate / restricted admin / blank creds
    Connector {
        nla: bool,
        check: bool,
        restricted: bool,
        blank: bool,
        #[serde(default)]
        hash: bool,
        #[serde(default)]
        auto: bool,
    },
    /// x224::Client::connect(mask, auth present)
    X224 { mask: u8, auth: bool },
}

#[derive(Serialize, Deserialize, Hash, Clone, Debug)]
pub struct Case {
    pub entry: Entry,
    pub reply: NegReply,
    pub fault: Option<FaultKind>,
    /// Connector entries: an earlier connect() on the same Connector object was answered with this reply (its outcome is
    /// not asserted); the negotiation of the next connection must not depend on it
    #[serde(default)]
    pub prior: Option<NegReply>,
    /// a second negotiation structure inside the same connection confirm (lengths adjusted): e.g. an echoed request
    /// followed by a response. Such a confirm is malformed whatever the two structures say
    #[serde(default)]
    pub second: Option<NegReply>,
}

pub fn run(c: &Case) -> Outcome {
    let mut out = Outcome::new();
    let built = wire::connection_confirm(&c.reply);
    let mut bytes = match &c.fault {
        Some(k) => apply_fault(&built, k).0,
        None => built.bytes.clone(),
    };
    if let (Some(sec), None) = (&c.second, &c.fault) {
        out.label("two-structures");
        let other = wire::connection_confirm(sec).bytes;
        if other.len() >= 19 && bytes.len() >= 11 {
            let extra = other[other.len() - 8..].to_vec();
            bytes.extend_from_slice(&extra);
            let l = bytes.len();
            bytes[2] = (l >> 8) as u8;
            bytes[3] = l as u8;
            bytes[4] = (l - 5) as u8;
        }
    }
    let offered: u32 = match &c.entry {
        Entry::Connector { nla, .. } => 1 | if *nla { 2 } else { 0 },
        Entry::X224 { mask, .. } => *mask as u32,
    };
    // is the (possibly faulted) reply still a well-formed RDP_NEG_RSP? decide by parsing the bytes actually sent
    let mut selected = parse_rsp(&bytes);
    let mut acceptable = matches!(selected, Some(s) if (s == 1 || s == 2) && s & offered != 0);
    if c.second.is_some() && c.fault.is_none() {
        // two structures in one confirm: refusing is always fine; going on is tolerable only with TLS and only if one of the two
        // is a response selecting an offered TLS protocol (which of them a client looks at is its business)
        let sel_of = |r: &NegReply| match r {
            NegReply::Response { selected, .. } => Some(*selected),
            NegReply::Other { typ: 2, length: 8, value, .. } => Some(*value),
            _ => None,
        };
        let sels: Vec<u32> = [sel_of(&c.reply), c.second.as_ref().and_then(sel_of)].iter().flatten().copied().collect();
        acceptable = sels.iter().any(|s| (*s == 1 || *s == 2) && s & offered != 0);
        selected = sels.first().copied();
    }
    let downgrade = matches!(selected, Some(s) if !acceptable && (s == 0 || s == 1 || s == 2 || s == 8 || s & offered == 0));
    out.nontrivial(downgrade);
    out.label(match &c.entry {
        Entry::Connector { .. } => "connector",
        Entry::X224 { .. } => "x224",
    });
    out.label(if acceptable { "acceptable-selection" } else { "must-refuse" });
    let (reader, _h, _e) = ChunkReader::new(bytes.clone(), vec![]);
    let wrote = reader.written.clone();
    let (r, _) = match &c.entry {
        Entry::Connector { nla, check, restricted, blank, hash, auto } => {
            let cfg = ClientCfg { nla: *nla, check_certificate: *check, restricted_admin: *restricted, blank_creds: *blank, hash: if *hash { Some(vec![0x5A; 16]) } else { None }, auto_logon: *auto, password: "S3cr3t-Passw0rd!".into(), ..ClientCfg::simple() };
            let mut conn = tls::connector_of(&cfg);
            if let Some(p) = &c.prior {
                out.label("connector-reused");
                let (r0, _h0, _e0) = ChunkReader::new(wire::connection_confirm(p).bytes, vec![]);
                let (r, _) = call(|| conn.connect(r0).map(|_| ()));
                if let Res::Panic(p) = r {
                    fail_panic(&mut out, "connect(earlier)", &p);
                    return out;
                }
            }
            call(move || conn.connect(reader).map(|_| ()))
        }
        Entry::X224 { mask, auth } => {
            let tp = tpkt::Client::new(Link::new(Stream::Raw(reader)));
            let mut ntlm = Ntlm::new("d".into(), "u".into(), "S3cr3t-Passw0rd!".into());
            let (m, a) = (*mask as u32, *auth);
            call(move || if a { x224::Client::connect(tp, m, false, Some(&mut ntlm), false, false).map(|_| ()) } else { x224::Client::connect(tp, m, false, None, false, false).map(|_| ()) })
        }
    };
    let w = wrote.borrow().clone();
    // the connection request is the first TPKT frame
    let cr_len = if w.len() >= 4 && w[0] == 3 { ((w[2] as usize) << 8) | w[3] as usize } else { 0 };
    if cr_len == 0 || cr_len > w.len() {
        out.fail("negotiation:no-connection-request", format!("client wrote {}", hexs(&w)));
        return out;
    }
    let after = &w[cr_len..];
    match r {
        Res::Panic(p) => {
            fail_panic(&mut out, "connect", &p);
            return out;
        }
        Res::Ok(()) => {
            // no TLS peer on the scripted transport: Ok can only mean the client went on without TLS
            let sel = selected.map(|s| format!("{:#x}", s)).unwrap_or("none".into());
            out.fail(format!("negotiation:continued-without-tls:selected={}", if selected == Some(0) { "rdp" } else { "other" }), format!("connect returned Ok on a transport without TLS peer: offered {:#x}, reply selects {}; bytes written after the request: {}", offered, sel, hexs(after)));
            return out;
        }
        Res::Err(_) => {}
    }
    // an X.224 disconnect request (TPDU code 0x80) is a way of ending, not of continuing
    let only_disconnect = after.len() >= 7 && after[0] == 3 && (((after[2] as usize) << 8) | after[3] as usize) == after.len() && after[5] == 0x80;
    if !acceptable && !only_disconnect {
        if !after.is_empty() {
            let what = if after.starts_with(&[3, 0]) { "tpkt-in-clear" } else if after.first() == Some(&0x16) { "tls-started" } else { "bytes" };
            out.fail(format!("negotiation:wrote-after-unacceptable-reply:{}", what), format!("offered {:#x}, reply {:?} (selected {:?}), yet the client wrote {} more bytes: {}", offered, c.reply, selected, after.len(), hexs(after)));
        }
    } else {
        match tls_records_only(after) {
            // the call may also fail before TLS (e.g. HYBRID selected without an authentication protocol): writing nothing is fine
            Ok(_) => {}
            Err(e) => {
                out.fail("negotiation:non-tls-bytes-on-raw-transport", format!("{}; bytes {}", e, hexs(after)));
            }
        }
    }
    out
}

/// Some(selectedProtocol) iff the TPKT/X.224 frame is a connection confirm carrying a well-formed RDP_NEG_RSP
fn parse_rsp(bytes: &[u8]) -> Option<u32> {
    if bytes.len() < 4 || bytes[0] != 3 {
        return None;
    }
    let len = ((bytes[2] as usize) << 8) | bytes[3] as usize;
    // bytes after the first frame belong to the next frame of the stream, not to the reply
    if len > bytes.len() || len < 4 + 7 + 8 {
        return None;
    }
    let t = &bytes[4..len];
    // the X.224 header fields (LI, TPDU code, references, class) are outside the property: only the negotiation structure counts
    let n = &t[7..];
    if n.len() != 8 || n[0] != 2 || n[2] != 8 || n[3] != 0 {
        return None;
    }
    Some(u32::from_le_bytes([n[4], n[5], n[6], n[7]]))
}

fn entries() -> Vec<Entry> {
    let mut v = Vec::new();
    // every combination of the connector options that could influence what is offered or accepted
    for bits in 0..64u8 {
        v.push(Entry::Connector { nla: bits & 1 != 0, check: bits & 2 != 0, restricted: bits & 4 != 0, blank: bits & 8 != 0, hash: bits & 16 != 0, auto: bits & 32 != 0 });
    }
    for mask in [1u8, 2, 3] {
        for auth in [false, true] {
            v.push(Entry::X224 { mask, auth });
        }
    }
    v
}

fn sweep(part: usize, parts: usize) -> impl Iterator<Item = Case> {
    let mut v = Vec::new();
    let mut sels: Vec<u32> = (0..256).collect();
    sels.extend([0x100, 0x101, 0x102, 0x10000, 0x8000_0000, 0x8000_0001, 0xFFFF_FFFF, 0xFFFF_FF01, 0xFFFF_FF02]);
    for b in 8..32 {
        sels.push(1 << b);
        sels.push((1 << b) | 1);
    }
    for e in entries() {
        for s in &sels {
            v.push(Case { entry: e.clone(), reply: NegReply::Response { flags: 0, selected: *s }, fault: None, prior: None, second: None });
        }
        for f in 0..=255u8 {
            for s in [0u32, 1, 2, 3] {
                v.push(Case { entry: e.clone(), reply: NegReply::Response { flags: f, selected: s }, fault: None, prior: None, second: None });
            }
        }
        for code in [0u32, 1, 2, 3, 4, 5, 6, 0xFFFF_FFFF] {
            v.push(Case { entry: e.clone(), reply: NegReply::Failure { flags: 0, code }, fault: None, prior: None, second: None });
        }
        for typ in 0..=255u8 {
            for val in [0u32, 1, 2, 3] {
                v.push(Case { entry: e.clone(), reply: NegReply::Other { typ, flags: 0, length: 8, value: val }, fault: None, prior: None, second: None });
            }
        }
        for len in [0u16, 4, 7, 9, 16, 0xFFFF] {
            v.push(Case { entry: e.clone(), reply: NegReply::Other { typ: 2, flags: 0, length: len, value: 1 }, fault: None, prior: None, second: None });
        }
        v.push(Case { entry: e.clone(), reply: NegReply::Absent, fault: None, prior: None, second: None });
        for sel in [0u32, 1, 2] {
            let full = wire::connection_confirm(&NegReply::Response { flags: 0, selected: sel }).bytes.len();
            for t in 0..full {
                v.push(Case { entry: e.clone(), reply: NegReply::Response { flags: 0, selected: sel }, fault: Some(FaultKind::Truncate(t as u16)), prior: None, second: None });
            }
            for ext in [vec![0u8], vec![1, 2, 3, 4], vec![3, 0, 0, 7, 2, 0xF0, 0x80]] {
                v.push(Case { entry: e.clone(), reply: NegReply::Response { flags: 0, selected: sel }, fault: Some(FaultKind::Extend(ext)), prior: None, second: None });
            }
        }
    }
    // two negotiation structures in one confirm: every pair of {request echo, response, failure} x small values
    for e in entries() {
        let structs: Vec<NegReply> = vec![
            NegReply::Other { typ: 1, flags: 0, length: 8, value: 0 },
            NegReply::Other { typ: 1, flags: 0, length: 8, value: 1 },
            NegReply::Other { typ: 1, flags: 0, length: 8, value: 3 },
            NegReply::Other { typ: 1, flags: 0, length: 8, value: 0xB },
            NegReply::Response { flags: 0, selected: 0 },
            NegReply::Response { flags: 0, selected: 1 },
            NegReply::Response { flags: 0, selected: 2 },
            NegReply::Failure { flags: 0, code: 5 },
        ];
        for a in &structs {
            for b in &structs {
                v.push(Case { entry: e.clone(), reply: a.clone(), fault: None, prior: None, second: Some(b.clone()) });
            }
        }
    }
    // a Connector object used twice: the first negotiation ends in each possible way, the second reply selects each protocol
    for e in entries() {
        if !matches!(e, Entry::Connector { .. }) {
            continue;
        }
        let mut priors: Vec<NegReply> = (0..=7u32).map(|code| NegReply::Failure { flags: 0, code }).collect();
        priors.extend([NegReply::Absent, NegReply::Response { flags: 0, selected: 0 }, NegReply::Response { flags: 0, selected: 1 }, NegReply::Response { flags: 0, selected: 2 }, NegReply::Response { flags: 0, selected: 8 }]);
        for p in priors {
            for reply in [NegReply::Response { flags: 0, selected: 0 }, NegReply::Response { flags: 0, selected: 1 }, NegReply::Response { flags: 0, selected: 2 }, NegReply::Response { flags: 0, selected: 3 }, NegReply::Response { flags: 0, selected: 8 }, NegReply::Absent, NegReply::Failure { flags: 0, code: 1 }] {
                v.push(Case { entry: e.clone(), reply, fault: None, prior: Some(p.clone()), second: None });
            }
        }
    }
    v.into_iter().enumerate().filter(move |(i, _)| i % parts == part).map(|(_, c)| c)
}

pub fn decode(s: &mut Src) -> Case {
    let es = entries();
    let entry = s.pick(&es);
    let reply = match s.below(6) {
        0 => NegReply::Failure { flags: s.u8(), code: s.b32() },
        1 => NegReply::Other { typ: s.u8(), flags: s.u8(), length: s.b16(), value: s.b32() },
        2 => NegReply::Absent,
        _ => NegReply::Response { flags: if s.bool() { 0 } else { s.u8() }, selected: if s.bool() { s.u32() } else { s.b32() } },
    };
    let fault = if s.chance(64) { Some(FaultKind::Xor(vec![(s.u16(), s.u8() | 1)])) } else { None };
    let prior = if matches!(entry, Entry::Connector { .. }) && s.chance(64) {
        Some(match s.below(4) {
            0 => NegReply::Failure { flags: 0, code: s.below(8) as u32 },
            1 => NegReply::Absent,
            _ => NegReply::Response { flags: 0, selected: s.pick(&[0u32, 1, 2, 3, 8]) },
        })
    } else {
        None
    };
    let second = if s.chance(24) {
        Some(match s.below(3) {
            0 => NegReply::Response { flags: 0, selected: s.pick(&[0u32, 1, 2, 3, 8]) },
            1 => NegReply::Failure { flags: 0, code: s.below(8) as u32 },
            _ => NegReply::Other { typ: s.pick(&[1u8, 2, 3, 0]), flags: 0, length: 8, value: s.pick(&[0u32, 1, 2, 3]) },
        })
    } else {
        None
    };
    // (a byte fault on top of a second structure would leave the reference classification undefined)
    let fault = if second.is_some() { None } else { fault };
    Case { entry, reply, fault, prior, second }
}

// ---- TLS sub-lane -------------------------------------------------------------------------

#[derive(Serialize, Deserialize, Hash, Clone, Debug)]
pub struct TlsCase {
    pub base: C17Case,
    /// what the server answers in the connection confirm
    pub selected: u32,
}

pub fn run_tls(c: &TlsCase) -> Outcome {
    let mut out = Outcome::new();
    let mut scfg = c17::server_cfg(&c.base);
    scfg.reply = NegReply::Response { flags: 0, selected: c.selected };
    scfg.profile.selected_protocol = c.selected;
    let offered: u32 = 1 | if c.base.cfg.nla { 2 } else { 0 };
    let acceptable = (c.selected == 1 || c.selected == 2) && c.selected & offered != 0;
    let trusted = tls::pki().ids[c.base.identity as usize % 4].trusted;
    let cert_ok = !c.base.cfg.check_certificate || trusted;
    out.nontrivial(!acceptable || (c.base.cfg.check_certificate && !trusted));
    out.label(if acceptable { "tls:acceptable-selection" } else { "tls:must-refuse" });
    if c.base.cfg.check_certificate {
        out.label(if trusted { "check-cert:trusted" } else { "check-cert:untrusted" });
    } else if !trusted {
        out.label("no-check:untrusted");
    }
    let run = tls::run_tls(&c.base.cfg, &scfg, 0, false, &mut |_| ());
    if run.client_timeout || run.report.timeout {
        out.fail("inconclusive:timeout", "a socket timeout hit; not counted as a violation");
        return out;
    }
    if let Res::Panic(p) = &run.connect {
        fail_panic(&mut out, "Connector::connect", p);
        return out;
    }
    let w = written(&run.log);
    let cr_len = if w.len() >= 4 && w[0] == 3 { ((w[2] as usize) << 8) | w[3] as usize } else { 0 };
    if cr_len == 0 || cr_len > w.len() {
        out.fail("negotiation:no-connection-request", format!("client wrote {}", hexs(&w)));
        return out;
    }
    let after = &w[cr_len..];
    if !acceptable {
        if run.connect.is_ok() {
            out.fail("negotiation:tls:accepted-unoffered-protocol", format!("offered {:#x}, server selected {:#x}, Connector::connect returned Ok", offered, c.selected));
        } else if c.selected != 1 && c.selected != 2 && c.selected != 8 && !after.is_empty() {
            out.fail("negotiation:wrote-after-unacceptable-reply:tls-lane", format!("offered {:#x}, selected {:#x}, client wrote {} more raw bytes: {}", offered, c.selected, after.len(), hexs(after)));
        } else if !run.report.nla.ts_requests.is_empty() || run.report.app_bytes > 0 {
            out.fail("negotiation:credentials-after-unoffered-selection", format!("offered {:#x}, selected {:#x}: the server received {} TSRequests / {} RDP bytes inside TLS", offered, c.selected, run.report.nla.ts_requests.len(), run.report.app_bytes));
        }
        return out;
    }
    // acceptable selection: the raw transport carries TLS records only
    if let Err(e) = tls_records_only(after) {
        out.fail("negotiation:non-tls-bytes-on-raw-transport", e);
        return out;
    }
    if cert_ok {
        // that an acceptable certificate leads to a connection is C03's statement, not C02's; here it is a guard against a
        // vacuous pass (a client that refuses every certificate satisfies C02 trivially): counted, with a floor
        match &run.connect {
            Res::Err(_) => {
                out.label("tls:acceptable-but-failed");
            }
            _ => {
                out.label("tls:connected");
            }
        }
    } else {
        if run.connect.is_ok() {
            out.fail("certificate:untrusted-accepted", "check_certificate is on, the server certificate does not chain to a trusted root, yet connect returned Ok");
        } else if !run.report.nla.ts_requests.is_empty() || run.report.app_bytes > 0 {
            out.fail("certificate:bytes-after-untrusted-certificate", format!("the server received {} TSRequests / {} RDP bytes although its certificate is untrusted", run.report.nla.ts_requests.len(), run.report.app_bytes));
        }
    }
    out
}

pub fn decode_tls(s: &mut Src) -> TlsCase {
    let sel = s.pick(&[1u32, 2, 1, 2, 1, 2, 0, 8, 3, 4]);
    // decided before the (long) base case so that short choice strings still vary them
    let check = s.bool();
    let ca_signed = s.bool();
    let mut base = c17::gen_case(s, None);
    base.cfg.check_certificate = check;
    // the CA-signed identity half of the time when checking
    if check && ca_signed {
        base.identity = 0;
    }
    TlsCase { base, selected: sel }
}

pub fn check(rep: &Report) {
    tls::pki();
    rep.assume("on the scripted transport there is no TLS peer, so an acceptable selection ends in a handshake error; only the bytes written matter there");
    rep.assume("HYBRID_EX (8) is not offered by this client and counts as unoffered");
    rep.enumerate("scripted-sweep", true, sweep, run);
    rep.random("scripted-random", rep.tier.n(200_000, 4_000_000), 24, decode, run);
    rep.random("tls", rep.tier.n(1_000, 30_000), 160, decode_tls, run_tls);
    rep.require("tls", "check-cert:untrusted", 10);
    rep.require("tls", "check-cert:trusted", 10);
    rep.require("tls", "tls:must-refuse", 50);
    rep.require("tls", "tls:connected", 50);
}
