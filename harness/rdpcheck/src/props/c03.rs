//! C03 — Connection sequence conforms end to end for every server and configuration (mem lane;
//! the TLS lane sample through Connector::connect lives in the C17/C01 checks and in `tls` section here).
use crate::gen;
use crate::mem::{self, gen_cfg, ClientCfg};
use crate::util::{call, fail_panic, Res};
use engine::{Outcome, Report, Src};
use refimpl::server::{ClientEvent, Phase, ServerProfile};
use refimpl::wire::{INFO_AUTOLOGON};
use serde::{Deserialize, Serialize};

pub const LEVEL: &str = "exploration";
pub const RULE: &str = "case = (connector configuration, conforming server profile). The client stack (MCS connect, client info / licence, activation, reactivation rounds, shutdown — after the server fell silent, after n reads at any point of the activation rounds, or after a trailing deactivate-all that no demand-active follows) runs against the sans-IO reference server which parses every client message strictly and records order, identifier and dependency violations. Oracle: every call returns Ok; the decoded sequence is connect-initial, erect-domain, attach-user, one join per channel (either order), client info, then per demand-active confirm-active + synchronize + cooperate + request-control + font-list, finally the disconnect ultimatum; no message written before the reply it depends on; initiator / channel / share id / PDUSource / originator / echoed protocol as assigned. Non-trivial = every completed connection; distinct by hash of (configuration, profile).";

#[derive(Serialize, Deserialize, Hash, Clone, Debug)]
pub struct Case {
    pub cfg: ClientCfg,
    pub profile: ServerProfile,
    pub chunk: u16,
    /// 0 = read until the server falls silent; n > 0 = shutdown after n reads (at any point of the activation)
    #[serde(default)]
    pub stop_after: u8,
    /// another connection made on the same thread just before (same client configuration, another server: other selected
    /// protocol, user id, version); whatever it leaves behind must not leak into this one
    #[serde(default)]
    pub warmup: bool,
}

pub fn norm(s: &str) -> String {
    // numbers (decimal and 0x… hexadecimal) become '#', so that signatures do not depend on values
    let b: Vec<char> = s.chars().collect();
    let mut out = String::new();
    let mut i = 0;
    while i < b.len() && out.len() < 90 {
        if b[i] == '0' && i + 1 < b.len() && b[i + 1] == 'x' {
            i += 2;
            while i < b.len() && b[i].is_ascii_hexdigit() {
                i += 1;
            }
            out.push('#');
        } else if b[i].is_ascii_digit() {
            while i < b.len() && b[i].is_ascii_digit() {
                i += 1;
            }
            out.push('#');
        } else {
            if !(b[i] == '\n') {
                out.push(b[i]);
            }
            i += 1;
        }
    }
    out
}

pub struct ConnRun {
    pub out: Outcome,
    pub handle: Option<mem::Handle>,
}

/// which violations belong to which property: C03 = order / identifier / dependency / results, C04 = well-formedness
pub fn run_connection(c: &Case, for_c04: bool) -> Outcome {
    let mut out = Outcome::new();
    if c.warmup {
        out.label("after-another-connection");
        let mut p = ServerProfile::simple(if c.profile.user_id == 1007 { 1008 } else { 1007 }, 0x0BAD_F00D);
        p.selected_protocol = if c.profile.selected_protocol == 2 { 1 } else { 2 };
        let (duplex, _h) = mem::new_duplex(p.clone(), None);
        let (r, _) = mem::mem_connect(&c.cfg, duplex, p.selected_protocol);
        if let Res::Ok(mut conn) = r {
            for _ in 0..6 {
                let (r, _) = call(|| conn.client.read(|_| ()));
                if !r.is_ok() {
                    break;
                }
            }
            let _ = call(|| conn.client.shutdown());
        }
    }
    let (duplex, h) = mem::new_duplex(c.profile.clone(), None);
    h.borrow_mut().chunk = c.chunk as usize;
    let (r, step) = mem::mem_connect(&c.cfg, duplex, c.profile.selected_protocol);
    let mut conn = match r {
        Res::Ok(cn) => cn,
        Res::Err(e) => {
            let viol = h.borrow().server.violations.join(" | ");
            if !for_c04 || viol.is_empty() {
                out.fail(format!("connect:{}:error", step), format!("{} failed against a conforming server: {}; server-side notes: {}", step, e, viol));
                return out;
            }
            report_violations(&mut out, &h, for_c04);
            return out;
        }
        Res::Panic(p) => {
            fail_panic(&mut out, step, &p);
            return out;
        }
    };
    // drive the activation(s)
    let mut reads = 0;
    loop {
        let (idle, phase) = {
            let s = h.borrow();
            (s.to_client.is_empty() && s.pending.is_empty(), s.server.phase)
        };
        if c.stop_after > 0 && reads >= c.stop_after as usize {
            break;
        }
        if idle {
            if phase != Phase::Active {
                let viol = h.borrow().server.violations.join(" | ");
                if !(for_c04 && !viol.is_empty()) {
                    out.fail("activation:stalled", format!("no more traffic but the server is in phase {:?} after {} reads; violations: {}", phase, reads, viol));
                    return out;
                }
            }
            break;
        }
        reads += 1;
        if reads > 64 {
            out.fail("activation:too-many-reads", "activation did not finish within 64 reads");
            return out;
        }
        let mut bitmaps = 0;
        let (r, _) = call(|| conn.client.read(|_e| bitmaps += 1));
        match r {
            Res::Ok(()) => {}
            Res::Err(e) => {
                let viol = h.borrow().server.violations.join(" | ");
                if !(for_c04 && !viol.is_empty()) {
                    out.fail("activation:read-error", format!("RdpClient::read #{} failed against a conforming server in phase {:?}: {}; {}", reads, phase, e, viol));
                    return out;
                }
                break;
            }
            Res::Panic(p) => {
                fail_panic(&mut out, "RdpClient::read", &p);
                return out;
            }
        }
    }
    let (r, _) = call(|| conn.client.shutdown());
    match r {
        Res::Ok(()) => {}
        Res::Err(e) => {
            out.fail("shutdown:error", format!("shutdown failed: {}", e));
            return out;
        }
        Res::Panic(p) => {
            fail_panic(&mut out, "RdpClient::shutdown", &p);
            return out;
        }
    }
    h.borrow_mut().pump();
    report_violations(&mut out, &h, for_c04);
    if out.failed() {
        return out;
    }
    // completeness and configuration echo
    let s = h.borrow();
    judge_server(&mut out, &s.server, c, for_c04);
    out
}

/// order / completeness / identifier / configuration checks over what the reference server recorded
pub fn judge_server(out: &mut Outcome, server: &refimpl::server::Server, c: &Case, for_c04: bool) {
    struct W<'a> {
        server: &'a refimpl::server::Server,
    }
    let s = W { server };
    let ev = &s.server.events;
    // a message the strict parsers reject is C04's business; for the order check it still counts as the message of its phase
    let kinds: Vec<String> = ev
        .iter()
        .map(|e| match (&e.0, e.1) {
            (ClientEvent::Malformed(_), Phase::ClientInfo) => "client-info".to_string(),
            (ClientEvent::Malformed(_), Phase::ConnectInitial) => "connect-initial".to_string(),
            _ => e.0.kind(),
        })
        .collect();
    if !for_c04 {
        let mut want: Vec<String> = vec!["connect-initial".into(), "erect-domain".into(), "attach-user".into(), "join".into(), "join".into(), "client-info".into()];
        for _ in 0..c.profile.activations.len() {
            for k in ["confirm-active", "synchronize", "control(4)", "control(1)", "font-list"] {
                want.push(k.into());
            }
        }
        want.push("disconnect".into());
        // shutdown in the middle of the activation rounds: the complete rounds so far, then the ultimatum
        let early_ok = c.stop_after > 0 && kinds.len() >= 7 && (kinds.len() - 7) % 5 == 0 && kinds.len() <= want.len() && kinds[..kinds.len() - 1] == want[..kinds.len() - 1] && kinds.last().map(|k| k.as_str()) == Some("disconnect");
        if kinds != want && !early_ok {
            out.fail("sequence:differs", format!("decoded client sequence {:?} expected {:?}", kinds, want));
            return;
        }
        if s.server.phase != Phase::Closed {
            out.fail("sequence:no-disconnect", format!("server phase {:?} after shutdown", s.server.phase));
            return;
        }
    }
    for (e, _) in ev.iter() {
        match e {
            ClientEvent::ConnectInitial(ci) => {
                let core = &ci.blocks.core;
                // (desktop size and keyboard layout are not asserted: no listed property says how the configuration maps to them)
                if !for_c04 {
                    if core.server_selected_protocol != Some(c.profile.selected_protocol) {
                        out.fail("identifier:selected-protocol", format!("CS_CORE serverSelectedProtocol {:?} but the server selected {}", core.server_selected_protocol, c.profile.selected_protocol));
                    }
                }
                // string contents are C04's business ("strings are encoded and terminated as specified")
                let want: Vec<u16> = c.cfg.name.encode_utf16().collect();
                let ok = !for_c04 || if want.len() <= 15 { core.client_name == want } else { core.client_name.len() <= 15 && want.starts_with(&core.client_name) && !core.client_name.is_empty() };
                if !ok {
                    out.fail("config:client-name", format!("CS_CORE clientName {:?} for configured name {:?} ({} UTF-16 units)", String::from_utf16_lossy(&core.client_name), c.cfg.name, want.len()));
                }
            }
            ClientEvent::ClientInfo { info, .. } => {
                let (d, u, p) = if c.cfg.restricted_admin { (String::new(), String::new(), String::new()) } else { (c.cfg.domain.clone(), c.cfg.user.clone(), c.cfg.password.clone()) };
                let u16s = |x: &str| x.encode_utf16().collect::<Vec<u16>>();
                // which strings the Client Info carries in which mode, and the auto-logon flag, are C17's statement; C04 checks
                // that what sec::connect was given comes out encoded as specified
                if for_c04 && (info.domain != u16s(&d) || info.user != u16s(&u) || info.password != u16s(&p)) {
                    out.fail("config:client-info-strings", format!("client info carries domain/user/password {:?}/{:?}/{:?}", String::from_utf16_lossy(&info.domain), String::from_utf16_lossy(&info.user), String::from_utf16_lossy(&info.password)));
                }
                let _ = INFO_AUTOLOGON;
            }
            _ => {}
        }
    }
}

fn report_violations(out: &mut Outcome, h: &mem::Handle, for_c04: bool) {
    let s = h.borrow();
    report_server_violations(out, &s.server, for_c04)
}

pub fn report_server_violations(out: &mut Outcome, server: &refimpl::server::Server, for_c04: bool) {
    struct W<'a> {
        server: &'a refimpl::server::Server,
    }
    let s = W { server };
    for v in s.server.violations.iter() {
        let is_order = v.starts_with("order:") || v.starts_with("identifier:") || v.starts_with("dependency:");
        if for_c04 != is_order {
            out.fail(format!("{}:{}", if is_order { "conformance" } else { "malformed" }, norm(v)), v.clone());
            return;
        }
    }
}

pub fn run(c: &Case) -> Outcome {
    let mut out = run_connection(c, false);
    out.nontrivial(true);
    out.label(if c.profile.selected_protocol == 2 { "hybrid-selected" } else { "ssl-selected" });
    if c.profile.activations.len() > 1 {
        out.label("reactivation");
    }
    if c.profile.finalization_noise & 0x0F != 0 {
        out.label("set-error-info-inside-finalization");
    }
    if c.profile.user_id >= 0x8000 {
        out.label("user-id>=0x8000");
    }
    if c.stop_after > 0 {
        out.label("early-shutdown");
    }
    if !c.profile.post_activation.is_empty() {
        out.label("trailing-deactivate");
    }
    if c.profile.activations.iter().any(|a| a.caps.iter().any(|(t, _)| refimpl::wire::capability_size_ok(*t, 0).is_none() || [5u16, 7, 9, 0xE, 0x1D, 0x1E].contains(t))) {
        out.label("unknown-caps");
    }
    out
}

/// the same oracle through the real entry point: Connector::connect over TLS (and CredSSP when NLA is selected)
pub fn run_tls(c: &Case) -> Outcome {
    use crate::tls::{self, FinalReply, NlaCfg, TlsServerCfg};
    let mut out = Outcome::new();
    out.nontrivial(true);
    out.label(if c.profile.selected_protocol == 2 { "hybrid-selected" } else { "ssl-selected" });
    let mut challenge = crate::props::c15::gen_challenge(&mut Src::new(&[c.profile.connect_id as u8, 7, 200, 3, 9, 120, 33]), true);
    challenge.flags |= refimpl::ntlm::NEG_UNICODE;
    let nt_hash = match &c.cfg.hash {
        Some(h) => h.clone(),
        None => refimpl::crypto::nt_hash(&c.cfg.password),
    };
    let scfg = TlsServerCfg {
        identity: (c.profile.user_id % 4) as u8,
        reply: refimpl::wire::NegReply::Response { flags: 0, selected: c.profile.selected_protocol },
        nla: Some(NlaCfg { account_domain: c.cfg.domain.clone(), account_user: c.cfg.user.clone(), account_nt_hash: nt_hash, challenge, final_reply: FinalReply::Honest, challenge_override: None, ts_version: 2 }),
        profile: c.profile.clone(),
        record_cut: c.chunk,
    };
    // one read per server frame: demand-active, four finalization PDUs, the deactivate-all of the next round, and the ignorable
    // PDUs the profile puts in front of finalization PDUs
    let reads = (6 + (c.profile.finalization_noise & 0x0F).count_ones() as usize) * c.profile.activations.len() - 1;
    let run = tls::run_tls(&c.cfg, &scfg, reads, true, &mut |_| ());
    if run.client_timeout || run.report.timeout {
        out.fail("inconclusive:timeout", "a socket timeout hit; not counted as a violation");
        return out;
    }
    match &run.connect {
        Res::Ok(()) => {}
        Res::Err(e) => {
            out.fail("connect:tls:error", format!("Connector::connect failed against a conforming server: {}; tls {} nla {:?}/{:?}; server violations {:?}", e, run.report.tls_established, run.report.nla.negotiate_error, run.report.nla.verify_error, run.report.server.as_ref().map(|s| s.violations.clone())));
            return out;
        }
        Res::Panic(p) => {
            fail_panic(&mut out, "Connector::connect", p);
            return out;
        }
    }
    for r in run.reads.iter().chain(run.shutdown.iter()) {
        match r {
            Res::Ok(()) => {}
            Res::Err(e) => {
                out.fail("activation:tls:read-error", format!("read/shutdown failed against a conforming server: {}", e));
                return out;
            }
            Res::Panic(p) => {
                fail_panic(&mut out, "RdpClient::read", p);
                return out;
            }
        }
    }
    match &run.report.cr {
        Some(Ok(cr)) => {
            let want = if c.cfg.nla { 3 } else { 1 };
            if cr.neg.map(|n| n.1) != Some(want) {
                out.fail("sequence:tls:negotiation-request", format!("negotiation request {:?}, expected requested protocols {:#x}", cr.neg, want));
                return out;
            }
        }
        other => {
            out.fail("sequence:tls:negotiation-request", format!("connection request not parsed: {:?}", other));
            return out;
        }
    }
    if let Some(server) = &run.report.server {
        report_server_violations(&mut out, server, false);
        if !out.failed() {
            judge_server(&mut out, server, c, false);
        }
    } else {
        out.fail("sequence:tls:no-rdp-phase", "the RDP phase was not reached");
    }
    out
}

pub fn decode_tls(s: &mut Src) -> Case {
    let mut c = decode(s);
    // the offered mask must contain what the server selects
    // (decided from bytes decoded early: late choices are often starved by short choice strings)
    c.profile.selected_protocol = if c.cfg.nla && c.profile.user_id % 3 != 0 { 2 } else { 1 };
    if c.cfg.user.is_empty() {
        c.cfg.user = "user".into();
    }
    // identities the NTLM verifier can upper-case reliably (see C15)
    c.cfg.user = crate::props::c15::gen_name(s, 10);
    c.cfg.domain = crate::props::c15::gen_name(s, 10);
    c.chunk = s.pick(&[0u16, 0, 1, 5, 1400]);
    c
}

pub fn decode(s: &mut Src) -> Case {
    let mut cfg = gen_cfg(s);
    // C03's domain: names that fit the 15-character client name field are the common case; long / non-ASCII ones are C04's focus but still part of "every configuration"
    if s.chance(160) {
        cfg.name = cfg.name.chars().filter(|c| c.is_ascii()).take(15).collect();
    }
    let warmup = s.chance(56);
    let mut profile = gen::gen_profile(s, cfg.nla);
    let chunk = s.pick(&[0u16, 0, 1, 7, 1500]);
    // shutdown at any point: early, or after a deactivate-all that no demand-active follows
    let stop_after = if s.chance(48) { 1 + s.below(12) as u8 } else { 0 };
    if s.chance(40) {
        let last = profile.activations.last().map(|a| a.share_id).unwrap_or(0);
        profile.post_activation = vec![refimpl::wire::send_data_indication(profile.server_user, profile.io_channel, &refimpl::wire::deactivate_all(last, profile.server_user)).bytes];
    }
    Case { cfg, profile, chunk, stop_after, warmup }
}

pub fn check(rep: &Report) {
    rep.assume("conforming-server domain: I/O channel 1003, licensing preamble flags 0x03, user id != 1003, one share PDU per MCS frame (DESIGN §4.5)");
    rep.assume("the mem lane builds the layers the way Connector::connect does after the X.224 negotiation (hooks from_transport / from_layers); the real entry point is exercised through TLS in C17/C01");
    let mut golden = Vec::new();
    for uid in [1001u16, 1002, 1004, 0x7FFF, 0x8000, 64534, 65535] {
        golden.push(Case { cfg: ClientCfg::simple(), profile: ServerProfile::simple(uid, 0x000103EA), chunk: 0, stop_after: 0, warmup: uid % 2 == 0 });
    }
    rep.list("golden", golden, run);
    rep.random("connections", rep.tier.n(60_000, 3_000_000), 220, decode, run);
    crate::tls::pki();
    rep.random("tls", rep.tier.n(400, 20_000), 260, decode_tls, run_tls);
    rep.require("tls", "hybrid-selected", 20);
    rep.require("connections", "reactivation", 1000);
    rep.require("connections", "early-shutdown", 1000);
    rep.require("connections", "after-another-connection", 1000);
    rep.require("connections", "trailing-deactivate", 1000);
    rep.require("connections", "hybrid-selected", 1000);
    rep.require("connections", "user-id>=0x8000", 500);
    rep.require("connections", "unknown-caps", 1000);
    rep.require("connections", "set-error-info-inside-finalization", 1000);
}
