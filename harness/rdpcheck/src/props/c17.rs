//! C17 — Secrets leave the client only where the chosen mode says they may.
use crate::mem::{gen_string, ClientCfg};
use crate::props::c15::{gen_challenge, gen_name};
use crate::tls::{self, find, FinalReply, NlaCfg, TlsServerCfg};
use crate::util::{fail_panic, Res};
use engine::{Outcome, Report, Src};
use refimpl::crypto;
use refimpl::ntlm;
use refimpl::server::{ClientEvent, Phase, ServerProfile};
use refimpl::wire::{NegReply, INFO_AUTOLOGON};
use serde::{Deserialize, Serialize};

pub const LEVEL: &str = "exploration";
pub const RULE: &str = "case = (option combination of {NLA, restricted admin, blank credentials, auto logon, password vs NT hash}, credential strings, server certificate key type) run as a whole connection through Connector::connect over real TLS against the reference CredSSP/NTLM + RDP server. Oracle: TSCredentials (unsealed by the reference server) and Client Info (strictly parsed) carry exactly what the mode prescribes (restricted admin: both empty and RESTRICTED_ADMIN_MODE_REQUIRED in the negotiation request; blank credentials: TSCredentials empty, Client Info populated; hash mode: TSCredentials password empty; INFO_AUTOLOGON iff requested); the password's UTF-8 / UTF-16LE / UTF-16BE encodings occur nowhere in the raw-transport transcript, in the NTLM tokens, or in any TLS-protected message other than TSCredentials and Client Info. licence-variants: the server answers the Client Info PDU with licensing error alerts of every error code x state transition (incl. ST_RESEND_LAST_MESSAGE) and other message types; connect may fail, but every Client Info PDU the server receives obeys the mode and no other frame contains the password. clear-text-server: the negotiation reply selects plain RDP security or nothing at all (never offered) and the reference server carries on in clear text, the raw transcript must not contain the password whatever connect returns. option-matrix also calls the Connector's setters in ten other orders (some with redundant toggles) for every option combination, lets the server select PROTOCOL_SSL although HYBRID was offered, and reconfigures a used Connector: every ordered pair of the 16 combinations of {NLA, restricted admin, blank credentials, auto logon} as (first connection, observed connection). option-matrix enumerates all 32 combinations twice with generated strings, and again x {empty, short, long, non-ASCII} password x {empty, non-empty} domain x {certificate checking on with the CA-signed identity, off}. Non-trivial = password with >= 6 UTF-16 units of which >= 4 distinct; distinct by hash of the case.";

#[derive(Serialize, Deserialize, Hash, Clone, Debug)]
pub struct Case {
    pub cfg: ClientCfg,
    pub identity: u8,
    pub challenge: ntlm::Challenge,
    pub user_id: u16,
    /// the Connector object was first used for a connection with this configuration, then reconfigured through its
    /// setters; the observed connection must only reflect the final configuration
    #[serde(default)]
    pub previous: Option<Box<ClientCfg>>,
    /// the server selects PROTOCOL_SSL although HYBRID was offered too (a legal answer)
    #[serde(default)]
    pub select_ssl: bool,
}

/// the negative search is meaningful only when the password is not itself part of something that legitimately travels in
/// clear (a password equal to the domain, contained in the user name ...)
pub fn searchable_cfg(cfg: &ClientCfg) -> bool {
    let p = cfg.password.to_lowercase();
    searchable(&cfg.password) && ![&cfg.domain, &cfg.user, &cfg.name].iter().any(|s| s.to_lowercase().contains(&p))
}

pub fn searchable(pw: &str) -> bool {
    let u: Vec<u16> = pw.encode_utf16().collect();
    let mut d = u.clone();
    d.sort();
    d.dedup();
    u.len() >= 6 && d.len() >= 4
}

pub fn server_cfg(c: &Case) -> TlsServerCfg {
    let nt_hash = match &c.cfg.hash {
        Some(h) => h.clone(),
        None => crypto::nt_hash(&c.cfg.password),
    };
    let mut profile = ServerProfile::simple(c.user_id, 0x000103EA);
    let hybrid = c.cfg.nla && !c.select_ssl;
    profile.selected_protocol = if hybrid { 2 } else { 1 };
    TlsServerCfg {
        identity: c.identity,
        reply: NegReply::Response { flags: 0, selected: if hybrid { 2 } else { 1 } },
        nla: Some(NlaCfg { account_domain: c.cfg.domain.clone(), account_user: c.cfg.user.clone(), account_nt_hash: nt_hash, challenge: c.challenge.clone(), final_reply: FinalReply::Honest, challenge_override: None, ts_version: 2 }),
        profile,
        record_cut: 0,
    }
}

/// like server_cfg but the identity index is used as is (identities >= 4 are the unusual certificates)
pub fn server_cfg_raw_identity(c: &Case) -> TlsServerCfg {
    let mut s = server_cfg(c);
    s.identity = c.identity;
    s
}

pub fn run(c: &Case) -> Outcome {
    let mut out = Outcome::new();
    let scfg = server_cfg(c);
    let run = match &c.previous {
        None => tls::run_tls(&c.cfg, &scfg, 5, true, &mut |_| ()),
        Some(prev) => {
            out.label("connector-reused");
            let pc = Case { cfg: (**prev).clone(), identity: c.identity, challenge: c.challenge.clone(), user_id: c.user_id, previous: None, select_ssl: c.select_ssl };
            let mut connector = tls::connector_of(prev);
            // the first connection runs against a conforming server for that configuration; its outcome is not asserted here
            let _ = tls::run_tls_with_connector(&mut connector, prev, &server_cfg(&pc), 5, true);
            let mut connector = tls::reconfigure_diff(connector, prev, &c.cfg);
            tls::run_tls_with_connector(&mut connector, &c.cfg, &scfg, 5, true)
        }
    };
    out.nontrivial(searchable_cfg(&c.cfg));
    out.label(if c.cfg.nla { "nla" } else { "ssl" });
    if c.cfg.restricted_admin {
        out.label("restricted-admin");
    }
    if c.cfg.blank_creds {
        out.label("blank-creds");
    }
    if c.cfg.hash.is_some() {
        out.label("hash");
    }
    if c.select_ssl {
        out.label("ssl-selected-although-nla-offered");
    }
    if c.cfg.setter_order != 0 {
        out.label("other-setter-order");
    }
    if c.cfg.nla && !c.select_ssl && c.challenge.flags & ntlm::NEG_UNICODE == 0 {
        out.label("oem-challenge");
    }
    if c.cfg.nla && !c.select_ssl && c.challenge.flags & ntlm::MANDATORY != ntlm::MANDATORY {
        out.label("reduced-challenge-flags");
    }
    if run.client_timeout || run.report.timeout {
        out.fail("inconclusive:timeout", "a socket timeout hit (machine too slow or a hang); not counted as a violation");
        return out;
    }
    // that the connection succeeds against a conforming server is C03's statement. Here a failed connection only limits what
    // can be observed: the positive clauses need the messages, the negative clause ("appears nowhere else") is checked on
    // whatever was sent. A floor on completed connections guards against a vacuous pass.
    let mut completed = true;
    match &run.connect {
        Res::Ok(()) => {}
        Res::Err(_) => completed = false,
        Res::Panic(p) => {
            fail_panic(&mut out, "Connector::connect", p);
            return out;
        }
    }
    for r in run.reads.iter().chain(run.shutdown.iter()) {
        match r {
            Res::Ok(()) => {}
            Res::Err(_) => completed = false,
            Res::Panic(p) => {
                fail_panic(&mut out, "RdpClient::read", p);
                return out;
            }
        }
    }
    out.label(if completed { "completed" } else { "connection-failed" });
    let rep = &run.report;
    // negotiation request flags
    match &rep.cr {
        Some(Ok(cr)) => {
            let (flags, protocols) = cr.neg.unwrap_or((0, 0));
            let want_flags = if c.cfg.restricted_admin { 1 } else { 0 };
            if flags != want_flags {
                out.fail("secrets:request-flags", format!("negotiation request flags {:#04x}, expected {:#04x} (restricted admin {})", flags, want_flags, c.cfg.restricted_admin));
                return out;
            }
            let want_p = if c.cfg.nla { 3 } else { 1 };
            if protocols != want_p {
                out.fail("secrets:requested-protocols", format!("requested protocols {:#x}, expected {:#x}", protocols, want_p));
                return out;
            }
        }
        other => {
            out.fail("secrets:connection-request", format!("connection request not parsed: {:?}", other));
            return out;
        }
    }
    let unicode = c.challenge.flags & ntlm::NEG_UNICODE != 0;
    let enc = |s: &str| if unicode { crypto::utf16le(s) } else { s.as_bytes().to_vec() };
    let emptied = c.cfg.restricted_admin || c.cfg.blank_creds;
    if c.cfg.nla && !c.select_ssl {
        match &rep.nla.credentials {
            Some(Ok(tc)) => {
                let (wd, wu, wp) = if emptied { (vec![], vec![], vec![]) } else { (enc(&c.cfg.domain), enc(&c.cfg.user), if c.cfg.hash.is_some() { vec![] } else { enc(&c.cfg.password) }) };
                if tc.domain != wd || tc.user != wu {
                    out.fail("secrets:tscredentials-identity", format!("TSCredentials domain/user {:02x?}/{:02x?} expected {:02x?}/{:02x?} (restricted {}, blank {})", tc.domain, tc.user, wd, wu, c.cfg.restricted_admin, c.cfg.blank_creds));
                    return out;
                }
                if tc.password != wp {
                    out.fail(if emptied { "secrets:tscredentials-password-not-emptied" } else { "secrets:tscredentials-password" }, format!("TSCredentials password has {} bytes, expected {} (restricted {}, blank {}, hash {})", tc.password.len(), wp.len(), c.cfg.restricted_admin, c.cfg.blank_creds, c.cfg.hash.is_some()));
                    return out;
                }
            }
            other => {
                if completed {
                    out.fail("secrets:tscredentials-missing", format!("{:?}; verify error {:?}", other, rep.nla.verify_error));
                    return out;
                }
            }
        }
    }
    let server = match &rep.server {
        Some(s) => s,
        None => {
            if completed {
                out.fail("secrets:no-rdp-phase", "the RDP phase was not reached");
                return out;
            }
            // nothing but the NLA messages to look at
            if searchable_cfg(&c.cfg) {
                let raw: Vec<u8> = run.log.iter().flat_map(|e| e.1.iter().copied()).collect();
                for (name, n) in [("utf-8", c.cfg.password.as_bytes().to_vec()), ("utf-16le", crypto::utf16le(&c.cfg.password)), ("utf-16be", c.cfg.password.encode_utf16().flat_map(|u| [(u >> 8) as u8, u as u8]).collect())] {
                    if find(&raw, &n) {
                        out.fail("secrets:password-on-raw-transport", format!("the {} password occurs on the raw transport", name));
                        return out;
                    }
                    for (i, t) in [&rep.nla.negotiate, &rep.nla.authenticate].iter().enumerate() {
                        if let Some(t) = t {
                            if find(t, &n) {
                                out.fail("secrets:password-in-ntlm-token", format!("the {} password occurs in NTLM token #{}", name, i));
                                return out;
                            }
                        }
                    }
                    for (i, t) in rep.nla.ts_requests.iter().enumerate() {
                        if find(t, &n) {
                            out.fail("secrets:password-in-tsrequest", format!("the {} password occurs in TSRequest #{}", name, i));
                            return out;
                        }
                    }
                }
            }
            return out;
        }
    };
    let info = server.events.iter().find_map(|e| if let ClientEvent::ClientInfo { info, .. } = &e.0 { Some(info) } else { None });
    match info {
        Some(info) => {
            let u = |s: &str| s.encode_utf16().collect::<Vec<u16>>();
            let (wd, wu, wp) = if c.cfg.restricted_admin { (vec![], vec![], vec![]) } else { (u(&c.cfg.domain), u(&c.cfg.user), u(&c.cfg.password)) };
            if info.domain != wd || info.user != wu || info.password != wp {
                out.fail(if c.cfg.restricted_admin { "secrets:client-info-not-emptied" } else { "secrets:client-info" }, format!("Client Info carries domain/user/password of {}/{}/{} units, expected {}/{}/{} (restricted {}, blank {})", info.domain.len(), info.user.len(), info.password.len(), wd.len(), wu.len(), wp.len(), c.cfg.restricted_admin, c.cfg.blank_creds));
                return out;
            }
            if (info.flags & INFO_AUTOLOGON != 0) != c.cfg.auto_logon {
                out.fail("secrets:autologon", format!("INFO_AUTOLOGON {} but auto logon configured {}", info.flags & INFO_AUTOLOGON != 0, c.cfg.auto_logon));
                return out;
            }
        }
        None => {
            if completed {
                out.fail("secrets:client-info-missing", format!("no well-formed Client Info; violations {:?}", server.violations));
                return out;
            }
        }
    }
    // negative part
    if searchable_cfg(&c.cfg) {
        let needles: Vec<(&str, Vec<u8>)> = vec![
            ("utf-8", c.cfg.password.as_bytes().to_vec()),
            ("utf-16le", crypto::utf16le(&c.cfg.password)),
            ("utf-16be", c.cfg.password.encode_utf16().flat_map(|u| [(u >> 8) as u8, u as u8]).collect()),
        ];
        let raw: Vec<u8> = run.log.iter().flat_map(|e| e.1.iter().copied()).collect();
        for (name, n) in &needles {
            if find(&raw, n) {
                out.fail("secrets:password-on-raw-transport", format!("the {} password occurs on the raw transport", name));
                return out;
            }
            for (i, t) in [&rep.nla.negotiate, &rep.nla.authenticate].iter().enumerate() {
                if let Some(t) = t {
                    if find(t, n) {
                        out.fail("secrets:password-in-ntlm-token", format!("the {} password occurs in NTLM token #{}", name, i));
                        return out;
                    }
                }
            }
            for (i, t) in rep.nla.ts_requests.iter().enumerate() {
                if find(t, n) {
                    out.fail("secrets:password-in-tsrequest", format!("the {} password occurs in TSRequest #{}", name, i));
                    return out;
                }
            }
            for (ph, f) in &server.frames {
                if *ph != Phase::ClientInfo && find(f, n) {
                    out.fail("secrets:password-in-other-pdu", format!("the {} password occurs in a client PDU received in phase {:?}", name, ph));
                    return out;
                }
            }
        }
    }
    out
}

/// A server that answers the negotiation with something other than an offered protocol and then simply carries on
/// in clear text (connect response, attach-user / join confirms, licence): whatever the client does with that, the
/// password must not reach the raw transport.
#[derive(Serialize, Deserialize, Hash, Clone, Debug)]
pub struct ClearCase {
    pub base: Case,
    pub reply: NegReply,
}

struct NegLane {
    inner: crate::mem::Duplex,
    h: crate::mem::Handle,
    confirm: Vec<u8>,
    seen_cr: bool,
    raw: std::rc::Rc<std::cell::RefCell<Vec<u8>>>,
}

impl std::io::Read for NegLane {
    fn read(&mut self, buf: &mut [u8]) -> std::io::Result<usize> {
        self.inner.read(buf)
    }
}

impl std::io::Write for NegLane {
    fn write(&mut self, buf: &[u8]) -> std::io::Result<usize> {
        engine::guard::unaccounted(|| self.raw.borrow_mut().extend_from_slice(buf));
        if !self.seen_cr {
            self.seen_cr = true;
            self.h.borrow_mut().push(&self.confirm);
            return Ok(buf.len());
        }
        self.inner.write(buf)
    }
    fn flush(&mut self) -> std::io::Result<()> {
        Ok(())
    }
}

pub fn run_clear(c: &ClearCase) -> Outcome {
    use crate::util::call;
    let mut out = Outcome::new();
    out.nontrivial(searchable_cfg(&c.base.cfg));
    let selected = match &c.reply {
        NegReply::Response { selected, .. } => Some(*selected),
        _ => None,
    };
    out.label(match selected {
        Some(0) => "selects-plain-rdp",
        Some(_) => "selects-other",
        None => "no-selection",
    });
    let mut profile = ServerProfile::simple(c.base.user_id, 0x000103EA);
    profile.selected_protocol = selected.unwrap_or(0);
    let (duplex, h) = crate::mem::new_duplex(profile, None);
    let raw = std::rc::Rc::new(std::cell::RefCell::new(Vec::new()));
    let lane = NegLane { inner: duplex, h: h.clone(), confirm: refimpl::wire::connection_confirm(&c.reply).bytes, seen_cr: false, raw: raw.clone() };
    let mut connector = tls::connector_of(&c.base.cfg);
    let (r, _) = call(move || connector.connect(lane).map(|_| ()));
    match r {
        Res::Panic(p) => {
            fail_panic(&mut out, "Connector::connect", &p);
            return out;
        }
        Res::Ok(()) => {
            out.label("ok");
        }
        Res::Err(_) => {
            out.label("err");
        }
    }
    if searchable_cfg(&c.base.cfg) {
        let raw = raw.borrow();
        for (name, n) in [("utf-8", c.base.cfg.password.as_bytes().to_vec()), ("utf-16le", crypto::utf16le(&c.base.cfg.password)), ("utf-16be", c.base.cfg.password.encode_utf16().flat_map(|u| [(u >> 8) as u8, u as u8]).collect())] {
            if find(&raw, &n) {
                out.fail("secrets:password-on-raw-transport", format!("the {} password occurs on the raw transport after the negotiation reply {:?} ({} bytes written in clear)", name, c.reply, raw.len()));
                return out;
            }
        }
    }
    out
}

fn clear_cases() -> Vec<ClearCase> {
    let mut v = Vec::new();
    let replies = [
        NegReply::Response { flags: 0, selected: 0 },
        NegReply::Response { flags: 0x1F, selected: 0 },
        NegReply::Absent,
        NegReply::Failure { flags: 0, code: 2 },
        NegReply::Response { flags: 0, selected: 4 },
        NegReply::Response { flags: 0, selected: 0x10 },
        NegReply::Response { flags: 0, selected: 0x100 },
        NegReply::Other { typ: 1, flags: 0, length: 8, value: 0 },
        NegReply::Other { typ: 0, flags: 0, length: 8, value: 0 },
    ];
    for bits in 0..32u8 {
        for (ri, r) in replies.iter().enumerate() {
            let seed = [bits ^ 0x33, ri as u8, 9, 77, 31, 250, 4, 180, 66, 10, 20, 30, 222, 111, 5, 77, 200];
            let mut b = gen_case(&mut Src::new(&seed), Some(bits));
            b.cfg.password = format!("Clr#{}-p4ss-{}", bits, ri);
            v.push(ClearCase { base: b, reply: r.clone() });
        }
    }
    v
}

pub fn decode_clear(s: &mut Src) -> ClearCase {
    let reply = match s.below(8) {
        0 | 1 | 2 => NegReply::Response { flags: s.u8(), selected: s.pick(&[0u32, 0, 0, 4, 8, 16, 0x100]) },
        3 => NegReply::Absent,
        4 => NegReply::Failure { flags: s.u8(), code: s.b32() },
        5 => NegReply::Other { typ: s.u8(), flags: s.u8(), length: s.b16(), value: s.b32() },
        _ => NegReply::Response { flags: s.u8(), selected: s.b32() },
    };
    let mut base = gen_case(s, None);
    if !searchable_cfg(&base.cfg) {
        base.cfg.password = format!("{}S3cr#t-{}", base.cfg.password, s.below(1000));
    }
    ClearCase { base, reply }
}

/// A server that answers the Client Info PDU with an unusual licensing message (error alerts with every state transition,
/// unknown message types ...). Whatever the client does next (give up, retry, resend), every Client Info PDU it sends
/// obeys the mode and the password appears nowhere else.
#[derive(Serialize, Deserialize, Hash, Clone, Debug)]
pub struct LicCase {
    pub base: Case,
    pub license: refimpl::wire::License,
}

fn client_info_of(frame: &[u8]) -> Option<refimpl::wire::InfoPacket> {
    if frame.len() < 4 {
        return None;
    }
    match refimpl::wire::parse_domain_pdu(&frame[3..]) {
        Ok(refimpl::wire::DomainPdu::SendDataRequest { data, .. }) => refimpl::wire::parse_client_info(data).ok(),
        _ => None,
    }
}

pub fn run_licence(c: &LicCase) -> Outcome {
    let mut out = Outcome::new();
    out.nontrivial(searchable_cfg(&c.base.cfg));
    let mut scfg = server_cfg(&c.base);
    scfg.profile.license = c.license.clone();
    let run = tls::run_tls(&c.base.cfg, &scfg, 2, false, &mut |_| ());
    if c.base.cfg.restricted_admin {
        out.label("restricted-admin");
    }
    if run.client_timeout || run.report.timeout {
        out.fail("inconclusive:timeout", "a socket timeout hit (machine too slow or a hang); not counted as a violation");
        return out;
    }
    if let Res::Panic(p) = &run.connect {
        fail_panic(&mut out, "Connector::connect", p);
        return out;
    }
    out.label(if run.connect.is_ok() { "ok" } else { "err" });
    let server = match &run.report.server {
        Some(s) => s,
        None => return out,
    };
    let needles: Vec<(&str, Vec<u8>)> = vec![
        ("utf-8", c.base.cfg.password.as_bytes().to_vec()),
        ("utf-16le", crypto::utf16le(&c.base.cfg.password)),
        ("utf-16be", c.base.cfg.password.encode_utf16().flat_map(|u| [(u >> 8) as u8, u as u8]).collect()),
    ];
    let mut infos = 0;
    for (i, (ph, f)) in server.frames.iter().enumerate() {
        if let Some(info) = client_info_of(f) {
            infos += 1;
            let u = |s: &str| s.encode_utf16().collect::<Vec<u16>>();
            let (wd, wu, wp) = if c.base.cfg.restricted_admin { (vec![], vec![], vec![]) } else { (u(&c.base.cfg.domain), u(&c.base.cfg.user), u(&c.base.cfg.password)) };
            if info.domain != wd || info.user != wu || info.password != wp {
                out.fail(if c.base.cfg.restricted_admin { "secrets:client-info-not-emptied" } else { "secrets:client-info" }, format!("Client Info #{} (client frame #{}, server phase {:?}) carries domain/user/password of {}/{}/{} units, expected {}/{}/{} (restricted {})", infos, i, ph, info.domain.len(), info.user.len(), info.password.len(), wd.len(), wu.len(), wp.len(), c.base.cfg.restricted_admin));
                return out;
            }
            if (info.flags & INFO_AUTOLOGON != 0) != c.base.cfg.auto_logon {
                out.fail("secrets:autologon", format!("Client Info #{}: INFO_AUTOLOGON {} but auto logon configured {}", infos, info.flags & INFO_AUTOLOGON != 0, c.base.cfg.auto_logon));
                return out;
            }
        } else if searchable_cfg(&c.base.cfg) {
            for (name, n) in &needles {
                if find(f, n) {
                    out.fail("secrets:password-in-other-pdu", format!("the {} password occurs in client frame #{} (phase {:?}), which is not a Client Info PDU", name, i, ph));
                    return out;
                }
            }
        }
    }
    if infos >= 2 {
        out.label("client-info-resent");
    }
    if searchable_cfg(&c.base.cfg) {
        let raw: Vec<u8> = run.log.iter().flat_map(|e| e.1.iter().copied()).collect();
        for (name, n) in &needles {
            if find(&raw, n) {
                out.fail("secrets:password-on-raw-transport", format!("the {} password occurs on the raw transport", name));
                return out;
            }
        }
    }
    out
}

fn licence_cases() -> Vec<LicCase> {
    use refimpl::wire::License;
    let mut v = Vec::new();
    let mut lics: Vec<License> = Vec::new();
    // ERROR_ALERT (0xFF) with every known error code x every state transition, other message types
    for error in [1u32, 2, 3, 4, 6, 7, 8, 9, 0xA, 0xB, 0xC, 0, 0xFFFF_FFFF] {
        for transition in [1u32, 2, 3, 4, 0, 5] {
            lics.push(License::Custom { msg_type: 0xFF, flags: 0x03, error, transition, blob_type: 4, blob: vec![] });
        }
    }
    for msg_type in [0x01u8, 0x02, 0x03, 0x04, 0x12, 0x13, 0x15, 0x00] {
        lics.push(License::Custom { msg_type, flags: 0x03, error: 7, transition: 2, blob_type: 4, blob: vec![1, 2, 3, 4] });
    }
    for (k, l) in lics.into_iter().enumerate() {
        for bits in [0u8, 2, 3, 8 | 2, 16 | 2 | 1, 4 | 1] {
            let seed = [bits ^ 0x17, k as u8, 9, 77, 31, 250, 4, 180, 66, 10, 20, 30, 222, 111, 5, 77, 200];
            let mut b = gen_case(&mut Src::new(&seed), Some(bits));
            b.cfg.password = format!("L1c#{}-p4ss-{}", bits, k);
            b.cfg.user = "Administrator".into();
            b.cfg.domain = "CONTOSO".into();
            b.challenge.flags |= ntlm::NEG_UNICODE;
            v.push(LicCase { base: b, license: l.clone() });
        }
    }
    v
}

pub fn gen_case(s: &mut Src, opts: Option<u8>) -> Case {
    let bits = opts.unwrap_or_else(|| s.below(32) as u8);
    let reuse = opts.is_none() && s.chance(64);
    let select_ssl = s.chance(56);
    let reduce = if opts.is_none() && s.chance(72) { 1 + (s.u8() & 0x3F) } else { 0 };
    let order_choice = s.u16();
    let domain = gen_name(s, 12);
    let user = {
        let u = gen_name(s, 12);
        if u.is_empty() {
            "user".to_string()
        } else {
            u
        }
    };
    let mut password = gen_string(s, 24);
    if s.chance(200) && !searchable(&password) {
        password = format!("{}S3cr#t-{}", password, s.below(1000));
    }
    let mut challenge = gen_challenge(s, true);
    challenge.flags |= ntlm::NEG_UNICODE;
    // a server that answers in the OEM character set (no NTLMSSP_NEGOTIATE_UNICODE): only with ASCII identities, see C15
    if domain.is_ascii() && user.is_ascii() && password.is_ascii() && s.chance(64) {
        challenge.flags &= !ntlm::NEG_UNICODE;
    }
    // a server that does not offer sealing, signing, 128-bit keys ...: the credentials must be sealed all the same
    if reduce > 0 {
        crate::props::c15::reduce_flags(reduce - 1, &mut challenge);
    }
    let cfg = ClientCfg {
        width: 1024,
        height: 768,
        layout: s.below(19) as u8,
        name: "rdp-rs".into(),
        domain,
        user,
        password,
        hash: if bits & 16 != 0 { Some(s.bytes(16)) } else { None },
        auto_logon: bits & 8 != 0,
        restricted_admin: bits & 2 != 0,
        blank_creds: bits & 4 != 0,
        nla: bits & 1 != 0,
        check_certificate: false,
        setter_order: if opts.is_none() && order_choice % 3 == 0 { order_choice | 1 } else { 0 },
    };
    let identity = s.below(4) as u8;
    let user_id = crate::gen::gen_user_id(s);
    // an earlier use of the same Connector under other options (a hash cannot be unset, so it stays as it is)
    let previous = if reuse {
        let pb = s.below(32) as u8;
        let mut p = cfg.clone();
        p.auto_logon = pb & 8 != 0;
        p.restricted_admin = pb & 2 != 0;
        p.blank_creds = pb & 4 != 0;
        p.nla = pb & 1 != 0;
        if s.chance(64) {
            p.password = format!("0ld-{}", p.password);
            p.user = format!("old{}", p.user);
        }
        Some(Box::new(p))
    } else {
        None
    };
    let select_ssl = cfg.nla && select_ssl;
    Case { cfg, identity, challenge, user_id, previous, select_ssl }
}

fn matrix() -> Vec<Case> {
    let mut v = Vec::new();
    for bits in 0..32u8 {
        for k in 0..2u8 {
            let seed = [bits.wrapping_mul(37).wrapping_add(k), 3, 200, 7, 99, 250, 4, 180, 66, 10, 20, 30, 222, 111, 5, 77, 200, 9, 9, 9, 130, 140, 150, 160, 170, 1, 2, 3, 4, 5, 6, 7, 8, 9, 10, 11, 12];
            v.push(gen_case(&mut Src::new(&seed), Some(bits)));
        }
    }
    // every option combination with the setters called in other orders (with and without redundant toggles), and with a
    // server that selects PROTOCOL_SSL although HYBRID was offered as well
    for bits in 0..32u8 {
        for order in [1u16, 2, 5, 11, 77, 1234, 0x8001, 0x8007, 0x8123, 0xFFFF] {
            let seed = [bits ^ 0x44, order as u8, 9, 77, 31, 250, 4, 180, 66, 10, 20, 30, 222, 111, 5, 77, 200];
            let mut c = gen_case(&mut Src::new(&seed), Some(bits));
            c.cfg.password = format!("0rd3r-p4ss-{}-{}", bits, order);
            c.cfg.user = "Administrator".into();
            c.cfg.domain = "CONTOSO".into();
            c.cfg.setter_order = order;
            c.challenge.flags |= ntlm::NEG_UNICODE;
            c.select_ssl = bits & 1 != 0 && order % 2 == 0;
            v.push(c);
        }
        if bits & 1 != 0 {
            let seed = [bits ^ 0x45, 3, 9, 77, 31, 250, 4, 180, 66, 10, 20, 30, 222, 111, 5, 77, 200];
            let mut c = gen_case(&mut Src::new(&seed), Some(bits));
            c.cfg.password = format!("S5L-p4ss-{}", bits);
            c.cfg.user = "Administrator".into();
            c.cfg.domain = "CONTOSO".into();
            c.select_ssl = true;
            v.push(c);
        }
    }
    // servers that announce less than full session security: every subset of {seal, sign, always-sign, key exchange, 128, 56}
    // absent from the CHALLENGE, under the four NLA option combinations that send credentials or blanks
    for subset in 1..64u8 {
        for bits in [1u8, 1 | 4, 1 | 16, 1 | 8] {
            let seed = [subset ^ 0x61, bits, 9, 77, 31, 250, 4, 180, 66, 10, 20, 30, 222, 111, 5, 77, 200];
            let mut c = gen_case(&mut Src::new(&seed), Some(bits));
            c.cfg.password = format!("W34k-p4ss-{}-{}", subset, bits);
            c.cfg.user = "Administrator".into();
            c.cfg.domain = "CONTOSO".into();
            c.challenge.flags |= ntlm::NEG_UNICODE | ntlm::MANDATORY | ntlm::NEG_56;
            for (i, f) in [ntlm::NEG_SEAL, ntlm::NEG_SIGN, ntlm::NEG_ALWAYS_SIGN, ntlm::NEG_KEY_EXCH, ntlm::NEG_128, ntlm::NEG_56].iter().enumerate() {
                if subset & (1 << i) != 0 {
                    c.challenge.flags &= !f;
                }
            }
            v.push(c);
        }
    }
    // a Connector used under one option combination, then reconfigured to another: every ordered pair of the 16
    // combinations of {NLA, restricted admin, blank credentials, auto logon}
    for a in 0..16u8 {
        for b in 0..16u8 {
            let seed = [a ^ 0x21, b, 9, 77, 31, 250, 4, 180, 66, 10, 20, 30, 222, 111, 5, 77, 200];
            let mut c = gen_case(&mut Src::new(&seed), Some(b));
            c.cfg.password = format!("N3w-p4ss-{}-{}", a, b);
            c.cfg.user = "Administrator".into();
            c.cfg.domain = "CONTOSO".into();
            c.challenge.flags |= ntlm::NEG_UNICODE;
            let mut p = c.cfg.clone();
            p.nla = a & 1 != 0;
            p.restricted_admin = a & 2 != 0;
            p.blank_creds = a & 4 != 0;
            p.auto_logon = a & 8 != 0;
            // once with the same credentials (only options are flipped), once with other credentials
            let mut q = p.clone();
            c.previous = Some(Box::new(p));
            v.push(c.clone());
            q.password = format!("0ld-p4ss-{}-{}", a, b);
            q.user = "olduser".into();
            c.previous = Some(Box::new(q));
            v.push(c);
        }
    }
    // every option combination x {empty, short, long, non-ASCII} password x {empty, non-empty} domain x certificate checking on (CA-signed identity) / off
    for bits in 0..32u8 {
        for (pi, pw) in ["", "Zq7#xK", "correct horse battery staple / 0123456789 / correct horse battery staple", "pässwörd-密码-🔑-Kx9"].iter().enumerate() {
            for domain in ["", "CONTOSO"] {
                for check in [false, true] {
                    let seed = [bits ^ 0x5A, pi as u8, 9, 77, 31, 250, 4, 180, 66, 10, 20, 30, 222, 111, 5, 77, 200];
                    let mut c = gen_case(&mut Src::new(&seed), Some(bits));
                    c.cfg.password = pw.to_string();
                    c.cfg.domain = domain.to_string();
                    c.cfg.user = "Administrator".into();
                    c.cfg.check_certificate = check;
                    c.identity = if check { 0 } else { 1 + (pi as u8 % 3) };
                    c.challenge.flags |= ntlm::NEG_UNICODE;
                    if pi < 3 && bits & 1 != 0 && !check {
                        let mut o = c.clone();
                        o.challenge.flags &= !ntlm::NEG_UNICODE;
                        v.push(o);
                    }
                    v.push(c);
                }
            }
        }
    }
    v
}

pub fn check(rep: &Report) {
    tls::pki();
    rep.assume("the reference server answers without NTLMSSP_NEGOTIATE_UNICODE (OEM strings) only when domain, user and password are ASCII");
    rep.assume("the negative search uses passwords of >= 6 UTF-16 units with >= 4 distinct units; shorter ones are run but not searched for");
    rep.assume("side channels other than bytes on the transport are out of scope");
    rep.list("option-matrix", matrix(), run);
    rep.list("licence-variants", licence_cases(), run_licence);
    rep.require("licence-variants", "restricted-admin", 100);
    rep.list("clear-text-server", clear_cases(), run_clear);
    rep.random("clear-text-server-random", rep.tier.n(20_000, 500_000), 160, decode_clear, run_clear);
    rep.require("clear-text-server-random", "selects-plain-rdp", 2000);
    rep.random("connections", rep.tier.n(1_500, 50_000), 160, |s| gen_case(s, None), run);
    rep.require("connections", "restricted-admin", 100);
    rep.require("connections", "blank-creds", 100);
    rep.require("connections", "hash", 100);
    rep.require("connections", "completed", 1000);
    rep.require("connections", "reduced-challenge-flags", 100);
    rep.require("option-matrix", "reduced-challenge-flags", 200);
    rep.require("option-matrix", "completed", 500);
    rep.require("option-matrix", "oem-challenge", 50);
    rep.require("option-matrix", "connector-reused", 200);
    rep.require("option-matrix", "other-setter-order", 200);
    rep.require("option-matrix", "ssl-selected-although-nla-offered", 20);
}
