//! C04 — Every PDU the client emits is well formed under a strict independent parser.
use crate::gen;
use crate::mem::{gen_cfg, gen_string};
use crate::props::c03::{run_connection, Case};
use engine::{Outcome, Report, Src};

pub const LEVEL: &str = "exploration";
pub const RULE: &str = "case = (connector configuration with names / credentials drawn from empty, ASCII, Latin-1, CJK, combining, emoji and mixed strings whose UTF-8 and UTF-16 lengths straddle 15/16/32; screen sizes; layouts; server-assigned identifiers). Every byte the client writes during connect, activation and shutdown is parsed by the strict reference parsers (TPKT length, X.224 LI, BER/PER lengths, GCC block lengths, CS_CORE size and 32-byte NUL-terminated client name, cb* counts and terminators, totalLength / uncompressedLength, lengthSourceDescriptor, lengthCombinedCapabilities = 4 + sum, numberCapabilities, lengthCapability and specified capability sizes, numEvents) and decoded values are compared with the configuration. Section string-lengths also puts strings with a meaning of their own ('.', '..', a leading byte order mark ...) and every edge code point at the start and at the end of each string field. Section string-lengths: every length 0..=256 of domain / user / password (ASCII and surrogate pairs) and 0..=40 of the client name. Section connection-request: x224::Client::connect for offered masks {0,1,2,3,8,0xB,0x10,0xFFFFFFFF} x restricted admin x blank credentials, with and without an authentication object, and with authentication objects whose domain / user have every length 0..=300 (1- to 4-byte UTF-8 characters) or are generated strings; the written request parsed strictly (TPKT length, LI = TPKT length - 5, optional routing token / cookie line, RDP_NEG_REQ flags / length / mask). Section ntlm-tokens: NEGOTIATE / AUTHENTICATE tokens against CHALLENGE messages whose MaxLen fields exceed Len. Non-trivial = a non-ASCII or over-long (> 15 UTF-16 units) string, or an identifier >= 0x80; distinct by hash of the case.";

pub fn run(c: &Case) -> Outcome {
    let mut out = run_connection(c, true);
    let nonascii = |s: &str| !s.is_ascii() || s.encode_utf16().count() > 15;
    let nt = nonascii(&c.cfg.name) || nonascii(&c.cfg.domain) || nonascii(&c.cfg.user) || nonascii(&c.cfg.password) || c.profile.user_id >= 1001 + 0x80;
    out.nontrivial(nt);
    if !c.cfg.name.is_ascii() {
        out.label("non-ascii-name");
    }
    if c.cfg.name.encode_utf16().count() > 15 {
        out.label("long-name");
    }
    if c.cfg.name.is_empty() {
        out.label("empty-name");
    }
    out
}

pub fn decode(s: &mut Src) -> Case {
    let mut cfg = gen_cfg(s);
    cfg.name = gen_string(s, 64);
    let profile = gen::gen_profile(s, cfg.nla);
    Case { cfg, profile, chunk: 0, stop_after: 0, warmup: false }
}

/// the X.224 connection request of x224::Client::connect for every offered mask / mode, parsed strictly
#[derive(serde::Serialize, serde::Deserialize, Hash, Clone, Debug)]
pub struct CrCase {
    pub mask: u32,
    pub restricted: bool,
    pub blank: bool,
    /// the identity of the authentication object handed to connect (None = the fixed d / u / p)
    #[serde(default)]
    pub identity: Option<(String, String, String)>,
    /// no authentication object at all
    #[serde(default)]
    pub no_auth: bool,
}

pub fn run_cr(c: &CrCase) -> Outcome {
    use crate::io::ChunkReader;
    use rdp::core::{tpkt, x224};
    use rdp::model::link::{Link, Stream};
    let mut out = Outcome::new();
    out.nontrivial(c.mask != 3 || c.restricted || c.identity.is_some() || c.no_auth);
    if let Some((d, u, _)) = &c.identity {
        if d.len() + u.len() > 222 {
            out.label("identity-longer-than-an-8-bit-length");
        }
    }
    let (reader, _h, _e) = ChunkReader::new(vec![], vec![]);
    let wrote = reader.written.clone();
    let tp = tpkt::Client::new(Link::new(Stream::Raw(reader)));
    let (d, u, pw) = c.identity.clone().unwrap_or(("d".into(), "u".into(), "p".into()));
    let mut ntlm = rdp::nla::ntlm::Ntlm::new(d, u, pw);
    let (m, ra, bl, na) = (c.mask, c.restricted, c.blank, c.no_auth);
    let (r, _) = crate::util::call(move || x224::Client::connect(tp, m, false, if na { None } else { Some(&mut ntlm) }, ra, bl).map(|_| ()));
    if let crate::util::Res::Panic(p) = r {
        crate::util::fail_panic(&mut out, "x224.connect", &p);
        return out;
    }
    let w = wrote.borrow().clone();
    match refimpl::wire::split_tpkt(&w) {
        Ok((frames, used)) if frames.len() == 1 && used == w.len() => match refimpl::wire::parse_connection_request(frames[0]) {
            Ok(cr) => {
                let want_flags = if c.restricted { 1 } else { 0 };
                if cr.neg != Some((want_flags, c.mask)) {
                    out.fail("malformed:connection-request:negotiation", format!("RDP_NEG_REQ {:?} for mask {:#x} restricted {}", cr.neg, c.mask, c.restricted));
                }
            }
            Err(e) => {
                out.fail(format!("malformed:connection-request:{}", crate::props::c03::norm(&e.0)), format!("{} for mask {:#x} restricted {}: {}", e.0, c.mask, c.restricted, crate::util::hexs(&w)));
            }
        },
        other => {
            out.fail("malformed:connection-request:framing", format!("{:?}: {}", other.map(|x| x.1), crate::util::hexs(&w)));
        }
    }
    out
}

pub fn check(rep: &Report) {
    rep.assume("client name truncation granularity is the UTF-16 code unit (a surrogate pair split at the cut is not flagged)");
    rep.assume("TS_SHAREDATAHEADER.uncompressedLength may follow either convention seen in the field (== totalLength, or payload + 4)");
    rep.random("connections", rep.tier.n(60_000, 3_000_000), 260, decode, run);
    let mut crs = Vec::new();
    for mask in [0u32, 1, 2, 3, 8, 0xB, 0x10, 0xFFFF_FFFF] {
        for restricted in [false, true] {
            for blank in [false, true] {
                crs.push(CrCase { mask, restricted, blank, identity: None, no_auth: false });
                crs.push(CrCase { mask, restricted, blank, identity: None, no_auth: true });
            }
        }
    }
    // the identity of the authentication object: every length 0..=300 of domain and of user (one-, two-, three- and
    // four-byte UTF-8 characters), and the strings with a meaning of their own
    for n in 0..=300usize {
        for (k, ch) in ["x", "\u{E9}", "\u{4E2D}", "\u{1F511}"].iter().enumerate() {
            if k > 0 && n > 130 {
                continue;
            }
            crs.push(CrCase { mask: 3, restricted: false, blank: false, identity: Some((ch.repeat(n), "u".into(), "p".into())), no_auth: false });
            crs.push(CrCase { mask: 3, restricted: n % 2 == 1, blank: false, identity: Some(("D".into(), ch.repeat(n), "p".into())), no_auth: false });
            crs.push(CrCase { mask: 1, restricted: false, blank: n % 2 == 1, identity: Some((ch.repeat(n / 2), ch.repeat(n - n / 2), ch.repeat(n))), no_auth: false });
        }
    }
    for m in crate::mem::MAGIC_STRINGS {
        crs.push(CrCase { mask: 3, restricted: false, blank: false, identity: Some((m.to_string(), "u".into(), "p".into())), no_auth: false });
        crs.push(CrCase { mask: 3, restricted: false, blank: false, identity: Some(("d".into(), m.to_string(), "p".into())), no_auth: false });
    }
    rep.list("connection-request", crs, run_cr);
    rep.random("connection-request-random", rep.tier.n(20_000, 1_000_000), 120, |s| {
        let mask = s.pick(&[0u32, 1, 2, 3, 8, 0xB, 0x10, 0xFFFF_FFFF]);
        let bits = s.u8();
        let long = s.chance(40);
        let mut g = |s: &mut Src| if long { gen_string(s, 64).repeat(1 + s.below(6)) } else { gen_string(s, 64) };
        let identity = Some((g(s), g(s), g(s)));
        CrCase { mask, restricted: bits & 1 != 0, blank: bits & 2 != 0, identity, no_auth: bits & 0x1C == 0x1C }
    }, run_cr);
    // every length 0..=256 of each credential string and 0..=40 of the client name (the Client Info PDU and CS_CORE
    // cross their length-encoding boundaries), ASCII and two-unit characters
    let mut lens = Vec::new();
    for n in 0..=256usize {
        for field in 0..3 {
            for wide in [false, true] {
                let mut cfg = crate::mem::ClientCfg::simple();
                let v: String = if wide { "\u{1F511}".repeat(n / 2) + &"x".repeat(n % 2) } else { "x".repeat(n) };
                match field {
                    0 => cfg.domain = v,
                    1 => cfg.user = v,
                    _ => cfg.password = v,
                }
                lens.push(Case { cfg, profile: refimpl::server::ServerProfile::simple(1004 + (n % 3) as u16, 0x000103EA), chunk: 0, stop_after: 0, warmup: false });
            }
        }
        if n <= 40 {
            let mut cfg = crate::mem::ClientCfg::simple();
            cfg.name = "n".repeat(n);
            lens.push(Case { cfg, profile: refimpl::server::ServerProfile::simple(1004, 0x000103EA), chunk: 0, stop_after: 0, warmup: false });
        }
    }
    // strings with a meaning of their own and strings that begin / end with each edge code point, in every string field
    for field in 0..4 {
        let mut specials: Vec<String> = crate::mem::MAGIC_STRINGS.iter().map(|m| m.to_string()).collect();
        for ch in crate::mem::EDGE_CHARS {
            specials.push(format!("{}ab", ch));
            specials.push(format!("ab{}", ch));
            specials.push(ch.to_string());
        }
        for v in specials {
            let mut cfg = crate::mem::ClientCfg::simple();
            match field {
                0 => cfg.domain = v,
                1 => cfg.user = v,
                2 => cfg.password = v,
                _ => cfg.name = v,
            }
            lens.push(Case { cfg, profile: refimpl::server::ServerProfile::simple(1004, 0x000103EA), chunk: 0, stop_after: 0, warmup: false });
        }
    }
    rep.list("string-lengths", lens, run);
    // NTLM tokens: the strict MS-NLMP layout rules of the C15 verifier (offset/length pairs, MIC position, field encodings)
    rep.random("ntlm-tokens", rep.tier.n(20_000, 1_000_000), 200, crate::props::c15::decode, crate::props::c15::run);
    rep.require("connections", "non-ascii-name", 1000);
    rep.require("connections", "long-name", 1000);
}
