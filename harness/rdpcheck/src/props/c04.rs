//! C04 — Every PDU the client emits is well formed under a strict independent parser.
use crate::gen;
use crate::mem::{gen_cfg, gen_string};
use crate::props::c03::{run_connection, Case};
use engine::{Outcome, Report, Src};

pub const LEVEL: &str = "exploration";
pub const RULE: &str = "case = (connector configuration with names / credentials drawn from empty, ASCII, Latin-1, CJK, combining, emoji and mixed strings whose UTF-8 and UTF-16 lengths straddle 15/16/32; screen sizes; layouts; server-assigned identifiers). Every byte the client writes during connect, activation and shutdown is parsed by the strict reference parsers (TPKT length, X.224 LI, BER/PER lengths, GCC block lengths, CS_CORE size and 32-byte NUL-terminated client name, cb* counts and terminators, totalLength / uncompressedLength, lengthSourceDescriptor, lengthCombinedCapabilities = 4 + sum, numberCapabilities, lengthCapability and specified capability sizes, numEvents) and decoded values are compared with the configuration. Non-trivial = a non-ASCII or over-long (> 15 UTF-16 units) string, or an identifier >= 0x80; distinct by hash of the case.";

pub fn run(c: &Case) -> Outcome {
    let mut out = run_connection(c, true);
    let nonascii = |s: &str| !s.is_ascii() || s.encode_utf16().count() > 15;
    let nt = nonascii(&c.cfg.name) || nonascii(&c.cfg.domain) || nonascii(&c.cfg.user) || nonascii(&c.cfg.password) || c.profile.user_id >= 1001 + 0x80;
    out.nontrivial(nt);
    if !c.cfg.name.is_ascii() {
        out.label("non-ascii-name");
    }
    if c.cfg.name.encode_utf16().count() > 15 {
        out.label("long-name");
    }
    if c.cfg.name.is_empty() {
        out.label("empty-name");
    }
    out
}

pub fn decode(s: &mut Src) -> Case {
    let mut cfg = gen_cfg(s);
    cfg.name = gen_string(s, 64);
    let profile = gen::gen_profile(s, cfg.nla);
    Case { cfg, profile, chunk: 0 }
}

pub fn check(rep: &Report) {
    rep.assume("client name truncation granularity is the UTF-16 code unit (a surrogate pair split at the cut is not flagged)");
    rep.assume("TS_SHAREDATAHEADER.uncompressedLength may follow either convention seen in the field (== totalLength, or payload + 4)");
    rep.random("connections", rep.tier.n(60_000, 3_000_000), 260, decode, run);
    // NTLM tokens: the strict MS-NLMP layout rules of the C15 verifier (offset/length pairs, MIC position, field encodings)
    rep.random("ntlm-tokens", rep.tier.n(20_000, 1_000_000), 200, crate::props::c15::decode, crate::props::c15::run);
    rep.require("connections", "non-ascii-name", 1000);
    rep.require("connections", "long-name", 1000);
}
