//! C12 — Activation state machine: one finalization per demand-active, input gated.
use crate::mem::{self, ClientCfg};
use crate::util::{call, fail_panic, Res};
use engine::{Outcome, Report, Src, Tier};
use rdp::core::event::{KeyboardEvent, PointerButton, PointerEvent, RdpEvent};
use refimpl::server::{ClientEvent, ServerProfile};
use refimpl::wire::{self, DataBody, DemandActive, FpUpdate, Rect};
use serde::{Deserialize, Serialize};

pub const LEVEL: &str = "exploration";
pub const RULE: &str = "case = history over the 11-letter alphabet of server messages {demand-active, synchronize, control-cooperate, control-granted, control-other, font-map, set-error-info, unknown data PDU, deactivate-all, fast-path bitmap, fast-path other}, one PDU per frame (plus, while the client is active, batches of several slow-path PDUs in one MCS frame: generated joins and the list of every 2- and 3-letter batch, each followed by a bitmap and a demand-active probe), on a fresh connected client; after every step an input attempt (write pointer, try_write key). gate-every-key-code: in each of the six non-active states all 65536 scancodes (press and release) and 4096 pointer events are offered through write and try_write: all refused, no byte written; the input probe after every step of every history uses one of 16 key codes (ordinary, E0 / E1 extended, print screen, boundaries); generated histories contain deactivate-alls that name the share id of an earlier activation (they close the window like any other). server-profiles: the activation script (with noise letters) against 32 server variants (reported RDP version 4 / 5 / 5.1 / 10.x / unknown x assigned user id); many-cycles: 40, 70 and 300 complete activation cycles in one session; a third of the generated histories use a non-default server variant. exhaustive section enumerates every history up to length 5 (quick) / 6 (thorough); random section histories up to length 60. Oracle = reference automaton written from the property: Await(DemandActive) -demand-active-> emits exactly [confirm-active, synchronize, cooperate, request-control, font-list] with that share id -> Await(Sync) -> Await(Cooperate) -> Await(Granted) -> Await(FontMap) -> Active -deactivate-all-> Await(DemandActive); any other letter emits nothing and does not advance; write is Ok with exactly one input PDU iff Active, otherwise Err (try_write Ok) with zero bytes; bitmap callbacks iff Active. Where the property is silent (deactivate-all during the handshake) both 'stay' and 'restart' are allowed. Non-trivial = history containing a complete activation or an input attempt refused after one; distinct by hash of the history.";

#[derive(Serialize, Deserialize, Hash, Clone, Copy, Debug, PartialEq, Eq)]
pub enum Letter {
    DemandActive,
    Synchronize,
    Cooperate,
    Granted,
    ControlOther,
    FontMap,
    SetErrorInfo,
    UnknownData,
    DeactivateAll,
    FpBitmap,
    FpOther,
    /// a deactivate-all that names the share id of an EARLIER activation (not part of the exhaustive alphabet)
    DeactivateAllOldShare,
}

/// key codes used by the input probe after every step: ordinary, extended (E0 / E1 prefixes), print screen, pause, boundary values
pub const PROBE_CODES: [u16; 16] = [30, 0x1D, 0x38, 0x53, 0xE037, 0xE02A, 0xE11D, 0x45, 0x5B, 0xE05B, 0, 1, 0xFF, 0x100, 0x7FFF, 0xFFFF];

pub const ALPHABET: [Letter; 11] = [Letter::DemandActive, Letter::Synchronize, Letter::Cooperate, Letter::Granted, Letter::ControlOther, Letter::FontMap, Letter::SetErrorInfo, Letter::UnknownData, Letter::DeactivateAll, Letter::FpBitmap, Letter::FpOther];

#[derive(Serialize, Deserialize, Hash, Clone, Debug)]
pub struct Case {
    pub history: Vec<Letter>,
    /// joins[i]: letter i travels in the same slow-path frame as letter i-1 (honoured only where the
    /// batch semantics follow from the property: model exactly Active, slow-path letters, no demand-active)
    #[serde(default)]
    pub joins: Vec<bool>,
    /// 0 = the usual server; otherwise a server reporting another RDP version / assigning other identifiers (see `profile_of`)
    #[serde(default)]
    pub variant: u8,
}

pub const VERSIONS: [u32; 8] = [0x00080004, 0x00080001, 0x00080005, 0x00080006, 0x0008000D, 0x00080011, 0x00080010, 0x12345678];

/// the server the history is played by: the activation automaton must not depend on what the server reported earlier
pub fn profile_of(variant: u8) -> ServerProfile {
    let uid = [1004u16, 1001, 0x8000, 65535][(variant as usize / VERSIONS.len()) % 4];
    let mut p = ServerProfile::simple(uid, 0x000103EA);
    let version = VERSIONS[variant as usize % VERSIONS.len()];
    for b in p.ccrsp.blocks.iter_mut() {
        if let refimpl::gcc::ScBlock::Core { version: v, .. } = b {
            *v = version;
        }
    }
    p
}

fn batchable(l: Letter) -> bool {
    !matches!(l, Letter::DemandActive | Letter::FpBitmap | Letter::FpOther | Letter::DeactivateAllOldShare)
}

#[derive(Clone, Copy, PartialEq, Eq, Debug)]
enum St {
    Demand,
    Sync,
    Coop,
    Granted,
    FontMap,
    Active,
}

/// successor states allowed by the property (a set where it is silent) and whether a finalization is emitted
fn step(st: St, l: Letter) -> (Vec<St>, bool) {
    match (st, l) {
        (St::Demand, Letter::DemandActive) => (vec![St::Sync], true),
        (St::Sync, Letter::Synchronize) => (vec![St::Coop], false),
        (St::Coop, Letter::Cooperate) => (vec![St::Granted], false),
        (St::Granted, Letter::Granted) => (vec![St::FontMap], false),
        (St::FontMap, Letter::FontMap) => (vec![St::Active], false),
        (St::Active, Letter::DeactivateAll) | (St::Active, Letter::DeactivateAllOldShare) => (vec![St::Demand], false),
        (St::Sync, Letter::DeactivateAll | Letter::DeactivateAllOldShare) | (St::Coop, Letter::DeactivateAll | Letter::DeactivateAllOldShare) | (St::Granted, Letter::DeactivateAll | Letter::DeactivateAllOldShare) | (St::FontMap, Letter::DeactivateAll | Letter::DeactivateAllOldShare) => (vec![st, St::Demand], false),
        _ => (vec![st], false),
    }
}

pub fn run(c: &Case) -> Outcome {
    let mut out = Outcome::new();
    let mut profile = profile_of(c.variant);
    profile.auto = false;
    let uid = profile.user_id;
    if c.variant != 0 {
        out.label("other-server-profile");
    }
    let (duplex, h) = mem::new_duplex(profile, None);
    let (r, step_name) = mem::mem_connect(&ClientCfg::simple(), duplex, 1);
    let mut conn = match r {
        Res::Ok(c) => c,
        _ => {
            out.fail("panic:HARNESS-FAULT c12 session setup", format!("{} failed", step_name));
            return out;
        }
    };
    let mut states = vec![St::Demand];
    let mut share_counter: u32 = 0x0100_0000;
    let mut current_share: u32 = 0;
    let mut prev_share: Option<u32> = None;
    let mut old_shares: Vec<u32> = Vec::new();
    let mut seen_events = h.borrow().server.events.len();
    let mut completed_activation = false;
    let mut refused_after_activation = false;
    let mut batched_frames = 0usize;
    let mut idx = 0usize;
    while idx < c.history.len() {
        let i = idx;
        let l = &c.history[i];
        idx += 1;
        // a batch: several share PDUs in one MCS frame while the client is (certainly) active
        let mut group: Vec<Letter> = vec![*l];
        if states == vec![St::Active] && batchable(*l) {
            while idx < c.history.len() && c.joins.get(idx).copied().unwrap_or(false) && batchable(c.history[idx]) {
                group.push(c.history[idx]);
                idx += 1;
            }
        }
        let last = idx - 1;
        // build and deliver the server PDU
        let frame = if group.len() > 1 {
            batched_frames += 1;
            let s = h.borrow();
            let su = 1002u16;
            let mut all = refimpl::rd::Built::new();
            for (k, g) in group.iter().enumerate() {
                let one = match g {
                    Letter::Synchronize => wire::synchronize(current_share, su, uid),
                    Letter::Cooperate => wire::control(current_share, su, 4, 0, 0),
                    Letter::Granted => wire::control(current_share, su, 2, uid, 0x03EA),
                    Letter::ControlOther => wire::control(current_share, su, if (i + k) % 2 == 0 { 3 } else { 1 }, 0, 0),
                    Letter::FontMap => wire::font_map(current_share, su),
                    Letter::SetErrorInfo => wire::set_error_info(current_share, su, 0),
                    Letter::UnknownData => wire::other_data_pdu(current_share, su, 0x26, &[0, 0, 0, 0]),
                    Letter::DeactivateAll => wire::deactivate_all(current_share, su),
                    _ => unreachable!(),
                };
                all.nest(&format!("pdu{}", k), &one);
            }
            s.server.wrap(&all)
        } else {
            let mut s = h.borrow_mut();
            let su = 1002u16;
            match l {
                Letter::DemandActive => {
                    share_counter = share_counter.wrapping_mul(31).wrapping_add(i as u32 + 7);
                    let d = DemandActive { share_id: share_counter, source: b"RDP\0".to_vec(), caps: wire::sample_server_caps(), session_id: 0 };
                    // the server expects the new share id only if the client answers this demand-active (decided after the read)
                    prev_share = s.server.share_id;
                    s.server.pdu_demand_active(&d)
                }
                Letter::Synchronize => s.server.wrap(&wire::synchronize(current_share, su, uid)),
                Letter::Cooperate => s.server.wrap(&wire::control(current_share, su, 4, 0, 0)),
                Letter::Granted => s.server.wrap(&wire::control(current_share, su, 2, uid, 0x03EA)),
                Letter::ControlOther => s.server.wrap(&wire::control(current_share, su, if i % 2 == 0 { 3 } else { 1 }, 0, 0)),
                Letter::FontMap => s.server.wrap(&wire::font_map(current_share, su)),
                Letter::SetErrorInfo => s.server.wrap(&wire::set_error_info(current_share, su, 0)),
                Letter::UnknownData => s.server.wrap(&wire::other_data_pdu(current_share, su, 0x26, &[0, 0, 0, 0])),
                Letter::DeactivateAll => s.server.wrap(&wire::deactivate_all(current_share, su)),
                Letter::DeactivateAllOldShare => s.server.wrap(&wire::deactivate_all(old_shares.first().copied().unwrap_or(current_share ^ 0x0101), su)),
                Letter::FpBitmap => wire::fast_path_pdu(&[FpUpdate::Bitmap(vec![Rect { left: 0, top: 0, right: 0, bottom: 0, width: 1, height: 1, bpp: 32, flags: 0, cd_scan_width: 0, cd_uncompressed: 0, data: vec![1, 2, 3, 4] }])], 0, false),
                Letter::FpOther => wire::fast_path_pdu(&[FpUpdate::PointerNull, FpUpdate::Synchronize], 0, false),
            }
        };
        // in the Active state every letter of a batch except deactivate-all is a no-op, and after a
        // deactivate-all (state Demand) every batchable letter is a no-op too: the batch as a whole
        // acts like a single deactivate-all if it contains one, and like its first letter otherwise
        let l = &if group.len() > 1 && group.contains(&Letter::DeactivateAll) { Letter::DeactivateAll } else { *l };
        let i = last;
        h.borrow_mut().push(&frame.bytes);
        let mut bitmaps = 0usize;
        let (r, _) = call(|| conn.client.read(|e| if let RdpEvent::Bitmap(_) = e { bitmaps += 1 }));
        if let Res::Panic(p) = r {
            fail_panic(&mut out, "RdpClient::read", &p);
            return out;
        }
        // what did the client emit?
        h.borrow_mut().pump();
        let emitted: Vec<String> = {
            let s = h.borrow();
            let v = s.server.events[seen_events..].iter().map(|e| e.0.kind()).collect();
            v
        };
        let shares: Vec<u32> = {
            let s = h.borrow();
            s.server.events[seen_events..]
                .iter()
                .filter_map(|e| match &e.0 {
                    ClientEvent::ConfirmActive { pdu, .. } => Some(pdu.share_id),
                    ClientEvent::Data { share_id, .. } => Some(*share_id),
                    _ => None,
                })
                .collect()
        };
        seen_events = h.borrow().server.events.len();
        let finalization = vec!["confirm-active".to_string(), "synchronize".into(), "control(4)".into(), "control(1)".into(), "font-list".into()];
        if *l == Letter::DemandActive {
            if emitted == finalization {
                if current_share != 0 {
                    old_shares.push(current_share);
                }
                current_share = share_counter;
            } else {
                // not answered: the previous share id stays the valid one
                h.borrow_mut().server.share_id = prev_share;
            }
        }
        // advance the model: keep the candidate states compatible with the observed emission
        let mut next: Vec<St> = Vec::new();
        let mut any_expected_emission = false;
        for st in &states {
            let (succ, emits) = step(*st, *l);
            any_expected_emission |= emits;
            let compatible = if emits { emitted == finalization } else { emitted.is_empty() };
            if compatible {
                for s2 in succ {
                    if !next.contains(&s2) {
                        next.push(s2);
                    }
                }
            }
        }
        if next.is_empty() {
            let sig = if emitted.is_empty() {
                "activation:missing-finalization"
            } else if !any_expected_emission {
                "activation:unexpected-emission"
            } else {
                "activation:wrong-finalization"
            };
            out.fail(format!("{}:{:?}", sig, l), format!("step #{} {:?} in model state(s) {:?}: client emitted {:?}; history {:?}", i, l, states, emitted, &c.history[..=i]));
            return out;
        }
        if emitted == finalization && shares.iter().any(|s| *s != current_share) {
            out.fail("activation:share-id", format!("step #{}: finalization carries share ids {:x?}, the demand-active carried {:#x}", i, shares, current_share));
            return out;
        }
        if *l == Letter::FpBitmap {
            let active_possible = next.contains(&St::Active);
            let inactive_possible = next.iter().any(|s| *s != St::Active);
            if (bitmaps > 0 && !active_possible) || (bitmaps == 0 && !inactive_possible) {
                out.fail(if bitmaps > 0 { "activation:bitmap-outside-window" } else { "activation:bitmap-not-delivered" }, format!("step #{}: {} bitmap callbacks in model state(s) {:?}", i, bitmaps, next));
                return out;
            }
            next.retain(|s| (*s == St::Active) == (bitmaps > 0));
        } else if bitmaps > 0 {
            out.fail("activation:spurious-bitmap", format!("step #{} {:?} produced {} bitmap callbacks", i, l, bitmaps));
            return out;
        }
        states = next;
        // input attempts: strict write of a pointer event, lenient write of a key event
        let before = h.borrow().transcript.len();
        let (r1, _) = call(|| conn.client.write(RdpEvent::Pointer(PointerEvent { x: 3, y: 4, button: PointerButton::Left, down: true })));
        let mid = h.borrow().transcript.len();
        let probe_code: u16 = PROBE_CODES[(i * 7 + c.history.len()) % PROBE_CODES.len()];
        let (r2, _) = call(|| conn.client.try_write(RdpEvent::Key(KeyboardEvent { code: probe_code, down: i % 2 == 0 })));
        let after = h.borrow().transcript.len();
        if let Res::Panic(p) = &r1 {
            fail_panic(&mut out, "RdpClient::write", p);
            return out;
        }
        if let Res::Panic(p) = &r2 {
            fail_panic(&mut out, "RdpClient::try_write", p);
            return out;
        }
        h.borrow_mut().pump();
        let inputs = {
            let s = h.borrow();
            s.server.events[seen_events..].iter().filter(|e| matches!(&e.0, ClientEvent::Data { body: DataBody::Input(_), .. })).count()
        };
        let other_msgs = h.borrow().server.events.len() - seen_events - inputs;
        seen_events = h.borrow().server.events.len();
        let accepted = r1.is_ok();
        let active_possible = states.contains(&St::Active);
        let inactive_possible = states.iter().any(|s| *s != St::Active);
        if accepted {
            if !active_possible {
                out.fail("input-gate:accepted-outside-window", format!("after step #{} {:?} the model is in {:?} but write() returned Ok ({} bytes written); history {:?}", i, l, states, mid - before, &c.history[..=i]));
                return out;
            }
            if inputs != 2 || other_msgs != 0 || !r2.is_ok() {
                out.fail("input-gate:active-but-not-sent", format!("after step #{}: write Ok but {} input PDUs (+{} other messages) decoded for two events, try_write ok = {}", i, inputs, other_msgs, r2.is_ok()));
                return out;
            }
            states.retain(|s| *s == St::Active);
        } else {
            if !inactive_possible {
                out.fail("input-gate:refused-inside-window", format!("after step #{} {:?} the model is Active but write() failed; history {:?}", i, l, &c.history[..=i]));
                return out;
            }
            if after != before || inputs != 0 {
                out.fail("input-gate:refused-but-wrote-bytes", format!("after step #{}: refused input put {} bytes on the wire", i, after - before));
                return out;
            }
            // the lenient write may drop the event silently or refuse it with an error: both are "refused" (no bytes were written)
            states.retain(|s| *s != St::Active);
            if completed_activation {
                refused_after_activation = true;
            }
        }
        if states == vec![St::Active] {
            completed_activation = true;
        }
    }
    let s = h.borrow();
    if let Some(v) = s.server.violations.iter().find(|v| !v.starts_with("order:")) {
        out.fail(format!("activation:server-violation:{}", crate::props::c03::norm(v)), v.clone());
    }
    out.nontrivial(completed_activation || refused_after_activation);
    if completed_activation {
        out.label("complete-activation");
    }
    if refused_after_activation {
        out.label("refused-after-activation");
    }
    if batched_frames > 0 {
        out.label("batched-frame");
    }
    out
}

/// outside the input window EVERY key code and EVERY pointer position is refused: the client is driven into a non-active
/// state and offered all 65536 scancodes (press and release) and a sweep of pointer events
#[derive(Serialize, Deserialize, Hash, Clone, Debug)]
pub struct GateCase {
    /// 0..=4 = the handshake states before the font-map; 5 = after a complete activation and a deactivate-all
    pub state: u8,
    pub lenient: bool,
}

pub fn run_gate(c: &GateCase) -> Outcome {
    let mut out = Outcome::new();
    out.nontrivial(true);
    let mut profile = ServerProfile::simple(1004, 0x000103EA);
    profile.auto = false;
    let (duplex, h) = mem::new_duplex(profile, None);
    let (r, step_name) = mem::mem_connect(&ClientCfg::simple(), duplex, 1);
    let mut conn = match r {
        Res::Ok(c) => c,
        _ => {
            out.fail("panic:HARNESS-FAULT c12 session setup", format!("{} failed", step_name));
            return out;
        }
    };
    let su = 1002u16;
    let share = 0x0042_0001u32;
    let d = DemandActive { share_id: share, source: b"RDP\0".to_vec(), caps: wire::sample_server_caps(), session_id: 0 };
    let mut frames = Vec::new();
    {
        let mut s = h.borrow_mut();
        frames.push(s.server.pdu_demand_active(&d));
        frames.push(s.server.wrap(&wire::synchronize(share, su, 1004)));
        frames.push(s.server.wrap(&wire::control(share, su, 4, 0, 0)));
        frames.push(s.server.wrap(&wire::control(share, su, 2, 1004, 0x03EA)));
        frames.push(s.server.wrap(&wire::font_map(share, su)));
        frames.push(s.server.wrap(&wire::deactivate_all(share, su)));
    }
    let n = if c.state >= 5 { 6 } else { c.state as usize };
    for f in frames.iter().take(n) {
        h.borrow_mut().push(&f.bytes);
        let (r, _) = call(|| conn.client.read(|_| ()));
        if !r.is_ok() {
            out.fail("panic:HARNESS-FAULT c12 gate prefix", "conforming prefix rejected");
            return out;
        }
    }
    h.borrow_mut().pump();
    let before = h.borrow().transcript.len();
    for code in 0..=0xFFFFu32 {
        for down in [true, false] {
            let ev = RdpEvent::Key(KeyboardEvent { code: code as u16, down });
            let (r, _) = call(|| if c.lenient { conn.client.try_write(ev) } else { conn.client.write(ev) });
            match r {
                Res::Panic(p) => {
                    fail_panic(&mut out, "RdpClient::write", &p);
                    return out;
                }
                Res::Ok(()) if !c.lenient => {
                    out.fail("input-gate:accepted-outside-window", format!("write(Key {{ code: {:#06x}, down: {} }}) returned Ok in state {} (outside the input window)", code, down, c.state));
                    return out;
                }
                _ => {}
            }
        }
        if code % 4096 == 0 || code == 0xFFFF {
            let now = h.borrow().transcript.len();
            if now != before {
                out.fail("input-gate:refused-but-wrote-bytes", format!("key events up to code {:#06x} offered in state {} put {} bytes on the wire", code, c.state, now - before));
                return out;
            }
        }
    }
    for k in 0..4096u32 {
        let ev = RdpEvent::Pointer(PointerEvent { x: (k * 16) as u16, y: (k * 13 % 65536) as u16, button: [PointerButton::None, PointerButton::Left, PointerButton::Right, PointerButton::Middle][(k % 4) as usize], down: k % 3 == 0 });
        let (r, _) = call(|| if c.lenient { conn.client.try_write(ev) } else { conn.client.write(ev) });
        match r {
            Res::Panic(p) => {
                fail_panic(&mut out, "RdpClient::write", &p);
                return out;
            }
            Res::Ok(()) if !c.lenient => {
                out.fail("input-gate:accepted-outside-window", format!("write(pointer #{}) returned Ok in state {}", k, c.state));
                return out;
            }
            _ => {}
        }
    }
    let now = h.borrow().transcript.len();
    if now != before {
        out.fail("input-gate:refused-but-wrote-bytes", format!("events offered in state {} put {} bytes on the wire", c.state, now - before));
    }
    out
}

fn all_histories(maxlen: usize, part: usize, parts: usize) -> impl Iterator<Item = Case> {
    // histories as base-11 numbers of every length 1..=maxlen
    let mut total = 0usize;
    let mut offsets = Vec::new();
    for l in 1..=maxlen {
        offsets.push((l, total));
        total += 11usize.pow(l as u32);
    }
    (part..total).step_by(parts).map(move |idx| {
        let (l, off) = *offsets.iter().rev().find(|(_, o)| *o <= idx).unwrap();
        let mut k = idx - off;
        let mut h = Vec::with_capacity(l);
        for _ in 0..l {
            h.push(ALPHABET[k % 11]);
            k /= 11;
        }
        Case { history: h, joins: Vec::new(), variant: 0 }
    })
}

pub fn decode(s: &mut Src) -> Case {
    let variant = if s.chance(96) { s.below(32) as u8 } else { 0 };
    let n = 1 + s.below(60);
    // biased walk: mostly the letter that advances the handshake so that deep states are reached
    let script = [Letter::DemandActive, Letter::Synchronize, Letter::Cooperate, Letter::Granted, Letter::FontMap, Letter::FpBitmap, Letter::DeactivateAll];
    let mut pos = 0usize;
    let mut history = Vec::new();
    let mut joins = Vec::new();
    let batchy = s.chance(128);
    for _ in 0..n {
        joins.push(batchy && s.chance(100));
        if s.chance(150) {
            history.push(script[pos % script.len()]);
            pos += 1;
        } else {
            history.push(if s.chance(16) { Letter::DeactivateAllOldShare } else { s.pick(&ALPHABET) });
        }
    }
    Case { history, joins, variant }
}

pub fn check(rep: &Report) {
    rep.assume("several share PDUs batched into one MCS frame are asserted only while the client is active and without a demand-active in the batch (there the property determines the outcome: the batch deactivates iff it contains a deactivate-all); elsewhere one PDU per frame");
    rep.assume("the Ok/Err result of read() for an unexpected letter is not asserted");
    let maxlen = match rep.tier {
        Tier::Quick => 5,
        Tier::Thorough => 6,
    };
    rep.enumerate("histories-exhaustive", true, move |p, n| all_histories(maxlen, p, n), run);
    rep.random("histories-random", rep.tier.n(20_000, 1_000_000), 80, decode, run);
    rep.require("histories-random", "complete-activation", 1000);
    rep.require("histories-random", "refused-after-activation", 500);
    rep.require("histories-random", "batched-frame", 500);
    // every batch of two or three slow-path letters delivered to an active client, followed by bitmap / demand-active probes
    let mut b = Vec::new();
    let slow: Vec<Letter> = ALPHABET.iter().copied().filter(|l| batchable(*l)).collect();
    let prefix = [Letter::DemandActive, Letter::Synchronize, Letter::Cooperate, Letter::Granted, Letter::FontMap];
    for x in &slow {
        for y in &slow {
            for z in slow.iter().map(|z| Some(*z)).chain([None]) {
                for tail in [[Letter::FpBitmap, Letter::DemandActive], [Letter::DemandActive, Letter::FpBitmap]] {
                    let mut history = prefix.to_vec();
                    let mut joins = vec![false; 5];
                    history.push(*x);
                    joins.push(false);
                    history.push(*y);
                    joins.push(true);
                    if let Some(z) = z {
                        history.push(z);
                        joins.push(true);
                    }
                    history.extend(tail);
                    joins.extend([false, false]);
                    b.push(Case { history, joins, variant: 0 });
                }
            }
        }
    }
    rep.list("batched-frames", b, run);
    let mut gates = Vec::new();
    for state in 0..=5u8 {
        for lenient in [false, true] {
            gates.push(GateCase { state, lenient });
        }
    }
    rep.list("gate-every-key-code", gates, run_gate);
    // every server profile variant x the activation script with noise letters between the steps, twice around
    let mut pv = Vec::new();
    let script = [Letter::DemandActive, Letter::Synchronize, Letter::Cooperate, Letter::Granted, Letter::FontMap, Letter::FpBitmap, Letter::DeactivateAll];
    for variant in 0..32u8 {
        for noise in [None, Some(Letter::FpBitmap), Some(Letter::SetErrorInfo), Some(Letter::ControlOther), Some(Letter::FpOther)] {
            let mut history = Vec::new();
            for _round in 0..2 {
                for l in script {
                    history.push(l);
                    if let Some(n) = noise {
                        history.push(n);
                    }
                }
            }
            pv.push(Case { history, joins: Vec::new(), variant });
        }
    }
    rep.list("server-profiles", pv, run);
    // many complete activation cycles in one session (state that accumulates from one activation to the next)
    let mut cyc = Vec::new();
    for (rounds, variant) in [(40usize, 0u8), (300, 0), (70, 9)] {
        let mut history = Vec::new();
        for r in 0..rounds {
            history.extend(script);
            if r % 7 == 3 {
                history.push(Letter::DeactivateAll);
            }
        }
        cyc.push(Case { history, joins: Vec::new(), variant });
    }
    rep.list("many-cycles", cyc, run);
    rep.require("histories-random", "other-server-profile", 1000);
}
