//! C14 — Outbound frames are exact and completely delivered, or refused.
use crate::io::{AdvWriter, WStep};
use crate::util::{call, fail_panic, Res};
use engine::{Outcome, Report, Src, Tier};
use rdp::core::tpkt;
use rdp::core::x224;
use rdp::model::link::{Link, Stream};
use serde::{Deserialize, Serialize};

pub const LEVEL: &str = "fault_enumeration";
pub const RULE: &str = "case = (entry point Link::write | tpkt::Client::write | x224::Client::write, payload length, writer behaviour = per-call caps / Ok(0) / EINTR schedule, optional hard error injected at byte position p). Oracle against the reference framing F of the payload: bytes accepted by the writer are always a prefix of F; Ok implies all of F was accepted; a writer that never fails and accepts >= 1 byte per call implies Ok; an injected hard error before |F| implies Err; a payload that does not fit the 16-bit TPKT length implies Err with nothing written. boundary-sweep enumerates every length around the 16-bit boundaries and every error position for small frames. Non-trivial = at least one short write, an injected error, or a length within 8 of a 16-bit boundary; distinct by hash of the case.";

#[derive(Serialize, Deserialize, Hash, Clone, Debug)]
pub struct Case {
    /// 0 = Link::write, 1 = tpkt::Client::write, 2 = x224::Client::write
    pub entry: u8,
    pub len: u32,
    pub schedule: Vec<WStep>,
    pub fail_at: Option<u32>,
    pub fill: u32,
}

fn payload(c: &Case) -> Vec<u8> {
    let mut x = c.fill | 1;
    (0..c.len)
        .map(|_| {
            x ^= x << 13;
            x ^= x >> 17;
            x ^= x << 5;
            (x >> 8) as u8
        })
        .collect()
}

pub fn run(c: &Case) -> Outcome {
    let mut out = Outcome::new();
    let p = payload(c);
    let hdr: usize = match c.entry {
        0 => 0,
        1 => 4,
        _ => 7,
    };
    let flen = p.len() + hdr;
    let too_big = c.entry != 0 && flen > 65535;
    let mut f: Vec<u8> = Vec::with_capacity(flen);
    if c.entry != 0 {
        f.extend_from_slice(&[3, 0, ((flen >> 8) & 0xFF) as u8, (flen & 0xFF) as u8]);
    }
    if c.entry == 2 {
        f.extend_from_slice(&[2, 0xF0, 0x80]);
    }
    f.extend_from_slice(&p);
    let short = c.schedule.iter().any(|s| !matches!(s, WStep::Cap(k) if *k as usize >= flen));
    let near = [0x7FFFusize, 0x8000, 0xFFFF, 0x10000].iter().any(|b| (flen as i64 - *b as i64).abs() <= 8);
    out.nontrivial(short || c.fail_at.is_some() || near);
    out.label(["link", "tpkt", "x224"][c.entry as usize % 3]);
    if short {
        out.label("short-writes");
    }
    if c.fail_at.is_some() {
        out.label("injected-error");
    }
    if too_big {
        out.label("too-big");
    }
    let never_fails = c.fail_at.map(|p| p as usize >= flen).unwrap_or(true) && c.schedule.iter().all(|s| matches!(s, WStep::Cap(_)));
    let (w, acc) = AdvWriter::new(c.schedule.clone(), c.fail_at.map(|x| x as usize));
    let link = Link::new(Stream::Raw(w));
    let entry = c.entry;
    let (r, _) = call(move || match entry {
        0 => {
            let mut l = link;
            l.write(&p)
        }
        1 => {
            let mut t = tpkt::Client::new(link);
            t.write(p)
        }
        _ => {
            let mut x = x224::Client::from_transport(tpkt::Client::new(link), x224::Protocols::ProtocolSSL);
            x.write(p)
        }
    });
    let got = acc.borrow();
    let name = ["link", "tpkt", "x224"][c.entry as usize % 3];
    let is_prefix = got.len() <= f.len() && got[..] == f[..got.len()];
    match r {
        Res::Panic(pi) => fail_panic(&mut out, &format!("{}.write", name), &pi),
        Res::Ok(()) => {
            out.label("ok");
            if too_big {
                out.fail(format!("write:{}:oversized-accepted", name), format!("payload of {} bytes does not fit a 16-bit TPKT length but write returned Ok; {} bytes emitted, header {:02x?}", c.len, got.len(), &got[..got.len().min(4)]));
            } else if got[..] != f[..] {
                out.fail(
                    format!("write:{}:ok-but-incomplete", name),
                    format!("write returned Ok but the stream accepted {} of {} bytes (prefix ok: {}); schedule {:?} fail_at {:?}", got.len(), f.len(), is_prefix, &c.schedule[..c.schedule.len().min(6)], c.fail_at),
                );
            }
        }
        Res::Err(e) => {
            out.label("err");
            if too_big {
                if !got.is_empty() {
                    out.fail(format!("write:{}:oversized-partial", name), format!("oversized payload refused but {} bytes were already written", got.len()));
                }
            } else if !is_prefix {
                out.fail(format!("write:{}:not-a-prefix", name), format!("bytes accepted by the stream are not a prefix of the frame ({} bytes accepted)", got.len()));
            } else if never_fails {
                out.fail(format!("write:{}:spurious-error", name), format!("stream never failed and accepted at least one byte per call, yet write returned Err({}) after {} of {} bytes", e, got.len(), f.len()));
            }
        }
    }
    out
}

fn schedule(s: &mut Src) -> Vec<WStep> {
    match s.below(8) {
        0 => vec![],
        1 => vec![WStep::Cap(1)],
        2 => vec![WStep::Cap(1 + s.below(16) as u16)],
        3 => vec![WStep::Zero, WStep::Cap(5)],
        4 => vec![WStep::Interrupted, WStep::Cap(3), WStep::Cap(1000)],
        5 => vec![WStep::Cap(3)],
        _ => {
            let k = 1 + s.below(5);
            (0..k)
                .map(|_| match s.below(10) {
                    0 => WStep::Zero,
                    1 => WStep::Interrupted,
                    _ => WStep::Cap(1 + s.small(2000) as u16),
                })
                .collect()
        }
    }
}

pub fn decode(s: &mut Src) -> Case {
    let entry = s.below(3) as u8;
    let len = match s.below(10) {
        0 => s.below(301) as u32,
        1 => 16370 + s.below(31) as u32,
        2 => 32750 + s.below(31) as u32,
        3 => 65500 + s.below(61) as u32,
        4 => 70000,
        5 => s.below(70001) as u32,
        _ => s.below(64) as u32,
    };
    let mut sch = schedule(s);
    // a stream that never makes progress is not a fault model of interest (write_all retries EINTR forever by contract)
    if !sch.is_empty() && !sch.iter().any(|x| matches!(x, WStep::Cap(_))) {
        sch.push(WStep::Cap(1));
    }
    let flen = len + [0, 4, 7][entry as usize];
    let fail_at = if s.chance(96) { Some(s.below(flen as usize + 2) as u32) } else { None };
    Case { entry, len, schedule: sch, fail_at, fill: s.u32() }
}

fn sweep(tier: Tier, part: usize, parts: usize) -> impl Iterator<Item = Case> {
    let mut v = Vec::new();
    let lens: Vec<u32> = match tier {
        Tier::Quick => (0..301u32).chain(16370..16401).chain(32750..32781).chain(65500..65561).chain([70000]).collect(),
        Tier::Thorough => (0..2000u32).chain(16000..16800).chain(32000..33500).chain(65000..66000).chain([70000, 131072]).collect(),
    };
    for entry in 0..3u8 {
        for &len in &lens {
            for sch in [vec![], vec![WStep::Cap(3)], vec![WStep::Cap(4096)]] {
                if sch == vec![WStep::Cap(3)] && len > 2000 && len % 7 != 0 {
                    continue;
                }
                v.push(Case { entry, len, schedule: sch, fail_at: None, fill: len });
            }
        }
        // a hard error at every byte position of small frames
        for len in 0..40u32 {
            let flen = len + [0, 4, 7][entry as usize];
            for p in 0..=flen {
                v.push(Case { entry, len, schedule: vec![], fail_at: Some(p), fill: 3 });
                v.push(Case { entry, len, schedule: vec![WStep::Cap(2)], fail_at: Some(p), fill: 3 });
            }
        }
        // every fixed cap 1..n for a medium frame
        for cap in 1..=80u16 {
            v.push(Case { entry, len: 70, schedule: vec![WStep::Cap(cap)], fail_at: None, fill: 9 });
        }
    }
    v.into_iter().enumerate().filter(move |(i, _)| i % parts == part).map(|(_, c)| c)
}

pub fn check(rep: &Report) {
    rep.assume("Ok(0) and EINTR results of the stream may be answered either by retrying or by reporting an error; only prefix/completeness is asserted for them");
    let tier = rep.tier;
    rep.enumerate("boundary-sweep", false, move |p, n| sweep(tier, p, n), run);
    rep.random("schedules", rep.tier.n(400_000, 6_000_000), 48, decode, run);
    rep.require("schedules", "short-writes", 1000);
    rep.require("schedules", "injected-error", 1000);
}
