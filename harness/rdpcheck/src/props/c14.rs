//! C14 — Outbound frames are exact and completely delivered, or refused.
use crate::io::{AdvWriter, WStep};
use crate::util::{call, fail_panic, hexs, Res};
use engine::{Outcome, Report, Src, Tier};
use rdp::core::tpkt;
use rdp::core::x224;
use rdp::model::link::{Link, Stream};
use serde::{Deserialize, Serialize};

pub const LEVEL: &str = "fault_enumeration";
pub const RULE: &str = "case = (entry point Link::write | tpkt::Client::write | x224::Client::write, payload length, writer behaviour = per-call caps / Ok(0) / EINTR schedule, optional hard error injected at byte position p). Oracle against the reference framing F of the payload: bytes accepted by the writer are always a prefix of F; Ok implies all of F was accepted; a writer that never fails and accepts >= 1 byte per call implies Ok; an injected hard error before |F| implies Err; a payload that does not fit the 16-bit TPKT length implies Err with nothing written. mcs-messages / mcs-random: messages handed to a connected mcs::Client (send-data request framing with PER length, initiator and channel), also after the server's disconnect ultimatum was read and around a transient transport error. boundary-sweep enumerates every length around the 16-bit boundaries and every error position for small frames; all-lengths every payload length 0..=65540 at each entry point with whole and 4096-byte partial writes; sequences and 30 % of the generated cases write several messages through the same client (per message: the bytes the stream accepts during the call are a prefix of that message's frame and all of it iff Ok; an oversized message in between must be refused without a byte; after a transient stream error (one failing call of any io::ErrorKind: BrokenPipe, TimedOut, ConnectionReset ...) the failed message is reported and the next message must again go out as exactly its own frame). Non-trivial = at least one short write, an injected error, or a length within 8 of a 16-bit boundary; distinct by hash of the case.";

#[derive(Serialize, Deserialize, Hash, Clone, Debug)]
pub struct Case {
    /// 0 = Link::write, 1 = tpkt::Client::write, 2 = x224::Client::write
    pub entry: u8,
    pub len: u32,
    pub schedule: Vec<WStep>,
    pub fail_at: Option<u32>,
    pub fill: u32,
    /// lengths of further messages written through the same client afterwards
    #[serde(default)]
    pub more: Vec<u32>,
}

fn payload(fill: u32, len: u32) -> Vec<u8> {
    // noise for most seeds, protocol-looking content (frame headers, token signatures, constant fills) for one in 32
    engine::src::expand(fill | 1, len as usize)
}

enum Layer {
    L(Link<AdvWriter>),
    T(tpkt::Client<AdvWriter>),
    X(x224::Client<AdvWriter>),
}

pub fn run(c: &Case) -> Outcome {
    let mut out = Outcome::new();
    let hdr: usize = match c.entry {
        0 => 0,
        1 => 4,
        _ => 7,
    };
    let name = ["link", "tpkt", "x224"][c.entry as usize % 3];
    let lens: Vec<u32> = std::iter::once(c.len).chain(c.more.iter().copied()).collect();
    let total: usize = lens.iter().map(|l| *l as usize + hdr).sum();
    let short = c.schedule.iter().any(|s| !matches!(s, WStep::Cap(k) if *k as usize >= c.len as usize + hdr));
    let near = lens.iter().any(|l| [0x7FFFusize, 0x8000, 0xFFFF, 0x10000].iter().any(|b| ((*l as usize + hdr) as i64 - *b as i64).abs() <= 8));
    out.nontrivial(short || c.fail_at.is_some() || near || lens.len() > 1);
    out.label(name);
    if short {
        out.label("short-writes");
    }
    if c.fail_at.is_some() {
        out.label("injected-error");
    }
    if lens.len() > 1 {
        out.label("several-messages");
    }
    let never_fails = c.fail_at.map(|p| p as usize >= total).unwrap_or(true) && c.schedule.iter().all(|s| matches!(s, WStep::Cap(_)));
    if c.schedule.iter().any(|s| matches!(s, WStep::Fail | WStep::FailKind(_))) {
        out.label("transient-error");
    }
    let (w, acc) = AdvWriter::new(c.schedule.clone(), c.fail_at.map(|x| x as usize));
    let hard = w.hard_errors.clone();
    let link = Link::new(Stream::Raw(w));
    let mut layer = match c.entry {
        0 => Layer::L(link),
        1 => Layer::T(tpkt::Client::new(link)),
        _ => Layer::X(x224::Client::from_transport(tpkt::Client::new(link), x224::Protocols::ProtocolSSL)),
    };
    // per message: what the stream accepts during the call is a prefix of that message's frame, all of it iff Ok
    for (k, len) in lens.iter().enumerate() {
        let p = payload(c.fill.wrapping_add(k as u32), *len);
        let flen = p.len() + hdr;
        let too_big = c.entry != 0 && flen > 65535;
        if too_big {
            out.label("too-big");
        }
        let mut f: Vec<u8> = Vec::with_capacity(flen);
        if c.entry != 0 {
            f.extend_from_slice(&[3, 0, ((flen >> 8) & 0xFF) as u8, (flen & 0xFF) as u8]);
        }
        if c.entry == 2 {
            f.extend_from_slice(&[2, 0xF0, 0x80]);
        }
        f.extend_from_slice(&p);
        let before = acc.borrow().len();
        let hard_before = *hard.borrow();
        let (r, _) = call(|| match &mut layer {
            Layer::L(l) => l.write(&p),
            Layer::T(t) => t.write(p.clone()),
            Layer::X(x) => x.write(p.clone()),
        });
        let all = acc.borrow();
        let got = &all[before..];
        let is_prefix = got.len() <= f.len() && got[..] == f[..got.len()];
        let hard_hit = *hard.borrow() > hard_before;
        match r {
            Res::Panic(pi) => {
                fail_panic(&mut out, &format!("{}.write", name), &pi);
                return out;
            }
            Res::Ok(()) => {
                out.label("ok");
                if too_big {
                    out.fail(format!("write:{}:oversized-accepted", name), format!("message #{}: payload of {} bytes does not fit a 16-bit TPKT length but write returned Ok; {} bytes emitted, header {:02x?}", k, len, got.len(), &got[..got.len().min(4)]));
                    return out;
                } else if hard_hit {
                    out.fail(format!("write:{}:error-swallowed", name), format!("message #{}: the stream returned a hard error during the call but write returned Ok", k));
                    return out;
                } else if got[..] != f[..] {
                    out.fail(
                        format!("write:{}:ok-but-incomplete", name),
                        format!("message #{} ({} bytes): write returned Ok but the stream accepted {} bytes during the call, the frame has {} (prefix ok: {}; hard error during the call: {}); schedule {:?} fail_at {:?}", k, len, got.len(), f.len(), is_prefix, hard_hit, &c.schedule[..c.schedule.len().min(6)], c.fail_at),
                    );
                    return out;
                }
            }
            Res::Err(e) => {
                out.label("err");
                if too_big {
                    if !got.is_empty() {
                        out.fail(format!("write:{}:oversized-partial", name), format!("message #{}: oversized payload refused but {} bytes were written", k, got.len()));
                        return out;
                    }
                } else if !is_prefix {
                    out.fail(format!("write:{}:not-a-prefix", name), format!("message #{}: the {} bytes accepted by the stream during the call are not a prefix of the message's frame", k, got.len()));
                    return out;
                } else if never_fails {
                    out.fail(format!("write:{}:spurious-error", name), format!("message #{}: stream never failed and accepted at least one byte per call, yet write returned Err({}) after {} of {} bytes", k, e, got.len(), f.len()));
                    return out;
                }
                // a reported error: the next message is a message of its own (after a transient error the
                // stream works again; after a permanent one every later write fails without a byte)
            }
        }
    }
    out
}

/// the MCS layer is a transport layer too: messages handed to a connected mcs::Client, also after the client has read the
/// server's disconnect-provider ultimatum (the session is over then, but a message is either framed and written or refused
/// with an error, never dropped silently) and around a transient transport error
#[derive(Serialize, Deserialize, Hash, Clone, Debug)]
pub struct McsCase {
    pub lens: Vec<u32>,
    pub after_ultimatum: bool,
    /// the transport refuses the write of message #k once (error kind index, 255 = WouldBlock)
    pub hiccup: Option<(u8, u8)>,
    pub user_id: u16,
}

pub fn run_mcs(c: &McsCase) -> Outcome {
    use crate::mem;
    use rdp::core::mcs;
    use refimpl::server::ServerProfile;
    let mut out = Outcome::new();
    out.nontrivial(true);
    out.label("mcs");
    if c.after_ultimatum {
        out.label("after-ultimatum");
    }
    let profile = ServerProfile::simple(c.user_id, 0x000103EA);
    let (duplex, h) = mem::new_duplex(profile, None);
    let tp = tpkt::Client::new(Link::new(Stream::Raw(duplex)));
    let x = x224::Client::from_transport(tp, x224::Protocols::ProtocolSSL);
    let mut m = mcs::Client::new(x);
    let (r, _) = call(|| m.connect("rdp-rs".to_string(), 800, 600, rdp::core::gcc::KeyboardLayout::US));
    if !r.is_ok() {
        out.fail("panic:HARNESS-FAULT c14 mcs setup", "mcs.connect against the conforming server failed");
        return out;
    }
    h.borrow_mut().auto_feed = false;
    if c.after_ultimatum {
        h.borrow_mut().push(&refimpl::wire::disconnect_provider_ultimatum().bytes);
        let (r, _) = call(|| m.read().map(|_| ()));
        if let Res::Panic(p) = r {
            fail_panic(&mut out, "mcs.read", &p);
            return out;
        }
    }
    for (k, len) in c.lens.iter().enumerate() {
        let p = payload(0x4D43 + k as u32, (*len).min(16000));
        let mut f: Vec<u8> = Vec::new();
        let mut body = vec![2u8, 0xF0, 0x80, 0x64];
        body.extend_from_slice(&(c.user_id - 1001).to_be_bytes());
        body.extend_from_slice(&1003u16.to_be_bytes());
        body.push(0x70);
        if p.len() < 0x80 {
            body.push(p.len() as u8);
        } else {
            body.push(0x80 | (p.len() >> 8) as u8);
            body.push(p.len() as u8);
        }
        body.extend_from_slice(&p);
        let flen = body.len() + 4;
        f.extend_from_slice(&[3, 0, (flen >> 8) as u8, flen as u8]);
        f.extend_from_slice(&body);
        let injected = matches!(c.hiccup, Some((at, _)) if at as usize == k);
        if let (true, Some((_, kind))) = (injected, c.hiccup) {
            h.borrow_mut().fail_writes.push(kind);
        }
        let before = h.borrow().transcript.len();
        let (r, _) = call(|| m.write(&"global".to_string(), p.clone()));
        let got: Vec<u8> = h.borrow().transcript[before..].to_vec();
        let consumed_injection = injected && h.borrow().fail_writes.is_empty();
        h.borrow_mut().fail_writes.clear();
        h.borrow_mut().pending.clear();
        match r {
            Res::Panic(pi) => {
                fail_panic(&mut out, "mcs.write", &pi);
                return out;
            }
            Res::Ok(()) => {
                if consumed_injection {
                    out.fail("write:mcs:error-swallowed", format!("message #{}: the transport refused the write but mcs::Client::write returned Ok", k));
                    return out;
                }
                if got != f {
                    out.fail("write:mcs:ok-but-incomplete", format!("message #{} ({} bytes{}): write returned Ok but {} bytes reached the stream, the frame has {}: {}", k, p.len(), if c.after_ultimatum { ", after the server's disconnect ultimatum was read" } else { "" }, got.len(), f.len(), hexs(&got[..got.len().min(24)])));
                    return out;
                }
            }
            Res::Err(e) => {
                if !got.is_empty() && got[..] != f[..got.len().min(f.len())] {
                    out.fail("write:mcs:not-a-prefix", format!("message #{}: {} bytes written that are not a prefix of its frame", k, got.len()));
                    return out;
                }
                if !consumed_injection && !c.after_ultimatum {
                    out.fail("write:mcs:spurious-error", format!("message #{}: the stream never failed, yet mcs::Client::write returned Err({})", k, e));
                    return out;
                }
            }
        }
    }
    out
}

pub fn decode_mcs(s: &mut Src) -> McsCase {
    let after_ultimatum = s.chance(96);
    let n = 1 + s.below(5);
    let lens = (0..n).map(|_| match s.below(5) {
        0 => s.pick(&[0u32, 1, 0x7F, 0x80, 0x81, 0x3FF, 0x3FFF, 16000]),
        _ => s.below(600) as u32,
    }).collect();
    let hiccup = if s.chance(64) { Some((s.below(n) as u8, s.pick(&[255u8, 0, 1, 2, 5]))) } else { None };
    McsCase { lens, after_ultimatum, hiccup, user_id: crate::gen::gen_user_id(s) }
}

fn schedule(s: &mut Src) -> Vec<WStep> {
    match s.below(8) {
        0 => vec![],
        1 => vec![WStep::Cap(1)],
        2 => vec![WStep::Cap(1 + s.below(16) as u16)],
        3 => vec![WStep::Zero, WStep::Cap(5)],
        4 => vec![WStep::Interrupted, WStep::Cap(3), WStep::Cap(1000)],
        5 => vec![WStep::Cap(3)],
        _ => {
            let k = 1 + s.below(5);
            (0..k)
                .map(|_| match s.below(11) {
                    0 => WStep::Zero,
                    1 => WStep::Interrupted,
                    10 => {
                        if s.bool() {
                            WStep::Fail
                        } else {
                            WStep::FailKind(s.below(10) as u8)
                        }
                    }
                    _ => WStep::Cap(1 + s.small(2000) as u16),
                })
                .collect()
        }
    }
}

fn gen_len(s: &mut Src) -> u32 {
    match s.below(10) {
        0 => s.below(301) as u32,
        1 => 16370 + s.below(31) as u32,
        2 => 32750 + s.below(31) as u32,
        3 => 65500 + s.below(61) as u32,
        4 => 70000,
        5 => s.below(70001) as u32,
        _ => s.below(64) as u32,
    }
}

pub fn decode(s: &mut Src) -> Case {
    let entry = s.below(3) as u8;
    let len = gen_len(s);
    let mut sch = schedule(s);
    // a stream that never makes progress is not a fault model of interest (write_all retries EINTR forever by contract)
    if !sch.is_empty() && !sch.iter().any(|x| matches!(x, WStep::Cap(_))) {
        sch.push(WStep::Cap(1));
    }
    let transient = sch.iter().any(|x| matches!(x, WStep::Fail | WStep::FailKind(_)));
    let flen = len + [0, 4, 7][entry as usize];
    let fail_at = if s.chance(96) { Some(s.below(flen as usize + 2) as u32) } else { None };
    let fill = s.u32();
    let more = if s.chance(80) || transient { (0..1 + s.below(4)).map(|_| gen_len(s)).collect() } else { Vec::new() };
    Case { entry, len, schedule: sch, fail_at, fill, more }
}

fn sweep(tier: Tier, part: usize, parts: usize) -> impl Iterator<Item = Case> {
    let mut v = Vec::new();
    let lens: Vec<u32> = match tier {
        Tier::Quick => (0..301u32).chain(16370..16401).chain(32750..32781).chain(65500..65561).chain([70000]).collect(),
        Tier::Thorough => (0..2000u32).chain(16000..16800).chain(32000..33500).chain(65000..66000).chain([70000, 131072]).collect(),
    };
    for entry in 0..3u8 {
        for &len in &lens {
            for sch in [vec![], vec![WStep::Cap(3)], vec![WStep::Cap(4096)]] {
                if sch == vec![WStep::Cap(3)] && len > 2000 && len % 7 != 0 {
                    continue;
                }
                v.push(Case { entry, len, schedule: sch, fail_at: None, fill: len, more: vec![] });
            }
        }
        // a hard error at every byte position of small frames
        for len in 0..40u32 {
            let flen = len + [0, 4, 7][entry as usize];
            for p in 0..=flen {
                v.push(Case { entry, len, schedule: vec![], fail_at: Some(p), fill: 3, more: vec![] });
                v.push(Case { entry, len, schedule: vec![WStep::Cap(2)], fail_at: Some(p), fill: 3, more: vec![] });
            }
        }
        // every fixed cap 1..n for a medium frame
        for cap in 1..=80u16 {
            v.push(Case { entry, len: 70, schedule: vec![WStep::Cap(cap)], fail_at: None, fill: 9, more: vec![] });
        }
    }
    v.into_iter().enumerate().filter(move |(i, _)| i % parts == part).map(|(_, c)| c)
}

/// every payload length 0..=65540 at every entry point, whole writes and 4096-byte partial writes
fn all_lengths(part: usize, parts: usize) -> impl Iterator<Item = Case> {
    (part as u32..65541 * 6).step_by(parts).map(|i| {
        let len = i % 65541;
        let k = i / 65541;
        Case { entry: (k % 3) as u8, len, schedule: if k / 3 == 0 { vec![] } else { vec![WStep::Cap(4096)] }, fail_at: None, fill: len ^ 0x5A5A, more: vec![] }
    })
}

/// several messages through one client: an oversized one between two that fit, repeated lengths, growing and shrinking sizes
fn sequences() -> Vec<Case> {
    let mut v = Vec::new();
    // every error kind, before the first byte and after part of the frame, followed by a second message
    for entry in 0..3u8 {
        for kind in 0..10u8 {
            for sch in [vec![WStep::FailKind(kind), WStep::Cap(60000), WStep::Cap(60000), WStep::Cap(60000)], vec![WStep::Cap(8), WStep::FailKind(kind), WStep::Cap(60000), WStep::Cap(60000), WStep::Cap(60000), WStep::Cap(60000)], vec![WStep::Cap(60000), WStep::FailKind(kind)]] {
                v.push(Case { entry, len: 20, schedule: sch, fail_at: None, fill: 5, more: vec![20, 7, 300] });
            }
        }
    }
    for entry in 0..3u8 {
        for sch in [vec![], vec![WStep::Cap(7)], vec![WStep::Cap(1000), WStep::Interrupted, WStep::Cap(1)], vec![WStep::Fail, WStep::Cap(5000), WStep::Cap(5000), WStep::Cap(5000)], vec![WStep::Cap(3), WStep::Fail, WStep::Cap(60000), WStep::Cap(60000), WStep::Cap(60000), WStep::Cap(60000), WStep::Cap(60000)], vec![WStep::Cap(60000), WStep::Cap(60000), WStep::Fail]] {
            for lens in [vec![10u32, 70000, 10], vec![0, 0, 0, 1], vec![65528, 65529, 65530, 65531, 65532, 65533, 5], vec![5000, 40, 5000, 40, 9000], vec![100; 40], vec![1, 2, 4, 8, 16, 32, 64, 128, 256, 512, 1024, 2048, 4096, 8192, 16384, 32768, 65000], vec![65000, 3, 65000, 3]] {
                v.push(Case { entry, len: lens[0], schedule: sch.clone(), fail_at: None, fill: 77, more: lens[1..].to_vec() });
                let total: u32 = lens.iter().filter(|l| **l < 65529).map(|l| l + 7).sum();
                for frac in [1u32, 2, 3] {
                    v.push(Case { entry, len: lens[0], schedule: sch.clone(), fail_at: Some(total / 4 * frac), fill: 78, more: lens[1..].to_vec() });
                }
            }
        }
    }
    v
}

pub fn check(rep: &Report) {
    rep.assume("Ok(0) and EINTR results of the stream may be answered either by retrying or by reporting an error; only prefix/completeness is asserted for them");
    let tier = rep.tier;
    rep.enumerate("boundary-sweep", false, move |p, n| sweep(tier, p, n), run);
    rep.enumerate("all-lengths", true, all_lengths, run);
    rep.list("sequences", sequences(), run);
    let mut mc = Vec::new();
    for after in [false, true] {
        for uid in [1004u16, 1001, 65535] {
            mc.push(McsCase { lens: (0..300u32).collect(), after_ultimatum: after, hiccup: None, user_id: uid });
            mc.push(McsCase { lens: vec![0x7F, 0x80, 0x3FFF, 16000, 5], after_ultimatum: after, hiccup: Some((1, 255)), user_id: uid });
            mc.push(McsCase { lens: vec![10, 10, 10], after_ultimatum: after, hiccup: Some((0, 1)), user_id: uid });
        }
    }
    rep.list("mcs-messages", mc, run_mcs);
    rep.random("mcs-random", rep.tier.n(20_000, 1_000_000), 48, decode_mcs, run_mcs);
    rep.require("mcs-random", "after-ultimatum", 1000);
    rep.random("schedules", rep.tier.n(400_000, 6_000_000), 48, decode, run);
    rep.require("schedules", "short-writes", 1000);
    rep.require("schedules", "injected-error", 1000);
    rep.require("schedules", "several-messages", 1000);
    rep.require("schedules", "transient-error", 1000);
}
