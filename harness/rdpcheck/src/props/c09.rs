//! C09 — Decompressed bitmaps are pixel-exact.
use crate::util::{call, fail_panic, hexs, Res};
use engine::{Outcome, Report, Src};
use rdp::core::event::BitmapEvent;
use refimpl::{planar, rle16};
use serde::{Deserialize, Serialize};

pub const LEVEL: &str = "exploration";
pub const RULE: &str = "case = (source image, one conformant encoding of it). Encodings come from the nondeterministic reference encoders (interleaved RLE 16 bpp: every applicable order kind / run length / short, extended and MEGA form; planar 32 bpp: free raw/run segmentation, long runs, delta rows) or are uncompressed bottom-up rows. tiny-exhaustive enumerates every image over a 3-colour palette for sizes up to 4 pixels (6 pixels over 2 colours) and *every* encoding of each (capped per image, cap reported). Oracle: BitmapEvent::decompress == source image top-down BGRA (565 widened by exact rounding) and the independent reference decoder agrees. Non-trivial = encoding with >= 2 order kinds, or image with >= 2 rows, or uncompressed with >= 2 rows; distinct by hash of (image, encoding).";

#[derive(Serialize, Deserialize, Hash, Clone, Debug)]
pub struct Case {
    /// 0 = interleaved RLE 16 bpp, 1 = planar 32 bpp, 2 = raw 16 bpp, 3 = raw 32 bpp
    pub mode: u8,
    pub w: u16,
    pub h: u16,
    /// source image, top-down; RGB565 for modes 0/2
    pub px16: Vec<u16>,
    /// source image, top-down BGRA for modes 1/3
    pub px32: Vec<u8>,
    pub encoded: Vec<u8>,
    /// number of different order kinds in the encoding (informational)
    pub kinds: u8,
}

pub fn dest_of(variant: usize, w: u16, h: u16) -> (u16, u16, u16, u16) {
    match variant % 8 {
        0 => (0, 0, w.saturating_sub(1), h.saturating_sub(1)),
        1 => (0, 0, (w / 2).saturating_sub(1), (h / 2).saturating_sub(1)),
        2 => (10, 20, 10u16.saturating_add(w.saturating_sub(1)), 20u16.saturating_add(h.saturating_sub(1))),
        3 => (0, 0, 0, 0),
        4 => (65535, 65535, 65535, 65535),
        5 => (w, h, 0, 0),
        6 => (3, 3, 3u16.saturating_add(w.saturating_sub(1)), 3u16.saturating_add(h.saturating_sub(2))),
        _ => (0, 0, w, h.saturating_sub(1)),
    }
}

fn flip_rows<T: Copy>(v: &[T], row: usize, h: usize) -> Vec<T> {
    let mut out = Vec::with_capacity(v.len());
    for r in (0..h).rev() {
        out.extend_from_slice(&v[r * row..(r + 1) * row]);
    }
    out
}

pub fn run(c: &Case) -> Outcome {
    let mut out = Outcome::new();
    let (w, h) = (c.w as usize, c.h as usize);
    let mode_name = ["rle16", "planar32", "raw16", "raw32"][c.mode as usize & 3];
    out.label(mode_name);
    let expected: Vec<u8> = match c.mode {
        0 | 2 => rle16::to_bgra(&c.px16),
        _ => c.px32.clone(),
    };
    // reference decoder must agree with the source image (guards the encoder and the oracle)
    match c.mode {
        0 => match rle16::decode(&c.encoded, w, h) {
            Ok(wire) if rle16::flip(&wire, w, h) == c.px16 => {}
            other => {
                out.fail("panic:HARNESS-FAULT c09 reference rle16 decoder disagrees with reference encoder", format!("{:?} for {}", other.map(|v| v.len()), hexs(&c.encoded)));
                return out;
            }
        },
        1 => match planar::decode(&c.encoded, w, h) {
            Ok(img) if img == c.px32 => {}
            other => {
                out.fail("panic:HARNESS-FAULT c09 reference planar decoder disagrees with reference encoder", format!("{:?}", other.map(|v| v.len())));
                return out;
            }
        },
        _ => {}
    }
    out.nontrivial(c.kinds >= 2 || h >= 2);
    if c.kinds >= 2 {
        out.label("multi-kind");
    }
    if h >= 2 {
        out.label("multi-row");
    }
    // the destination rectangle is independent of the bitmap's own size (servers pad widths, clip at the screen edge ...):
    // the decoded image must not depend on it. The variant is a pure function of the case.
    let dv = (c.w as usize * 31 + c.h as usize * 17 + c.encoded.len() * 7 + c.encoded.first().copied().unwrap_or(0) as usize) % 8;
    let (dl, dt, dr, db) = dest_of(dv, c.w, c.h);
    out.label(["dest:exact", "dest:smaller", "dest:offset", "dest:zero", "dest:max", "dest:inverted", "dest:one-row-less", "dest:wider"][dv]);
    let ev = BitmapEvent { dest_left: dl, dest_top: dt, dest_right: dr, dest_bottom: db, width: c.w, height: c.h, bpp: if c.mode == 0 || c.mode == 2 { 16 } else { 32 }, is_compress: c.mode < 2, data: c.encoded.clone() };
    let (r, _) = call(move || ev.decompress());
    match r {
        Res::Ok(v) => {
            if v != expected {
                let kind = if v.len() != expected.len() {
                    "length"
                } else if h >= 2 && v == flip_rows(&expected, w * 4, h) {
                    "upside-down"
                } else {
                    "pixels"
                };
                let first = v.iter().zip(expected.iter()).position(|(a, b)| a != b).unwrap_or(0);
                out.fail(
                    format!("mismatch:{}:{}", mode_name, kind),
                    format!("w={} h={} first differing byte {} (pixel {}, row {}): got {:?} want {:?}; encoding {}", w, h, first, first / 4, if w > 0 { first / 4 / w } else { 0 }, v.get(first / 4 * 4..first / 4 * 4 + 4), expected.get(first / 4 * 4..first / 4 * 4 + 4), hexs(&c.encoded)),
                );
            }
        }
        Res::Err(e) => {
            out.fail(format!("error:{}", mode_name), format!("conformant encoding rejected: {} (w={} h={} encoding {})", e, w, h, hexs(&c.encoded)));
        }
        Res::Panic(p) => fail_panic(&mut out, &format!("decompress:{}", mode_name), &p),
    }
    out
}

fn kinds_of(orders: &[(rle16::Kind, usize, rle16::Form)]) -> u8 {
    let mut seen: Vec<rle16::Kind> = Vec::new();
    for (k, _, _) in orders {
        if !seen.contains(k) {
            seen.push(*k);
        }
    }
    seen.len() as u8
}

fn gen_image16(s: &mut Src, w: usize, h: usize) -> Vec<u16> {
    // wire order (bottom-up) so that "previous line" structure is what the codec sees
    let n = w * h;
    let pal: Vec<u16> = vec![0, 0xFFFF, s.u16(), s.u16(), 0x001F, 0xF800];
    let style = s.below(8);
    let fg = pal[s.below(pal.len())];
    let mut px = vec![0u16; n];
    for i in 0..n {
        let above = if i >= w { px[i - w] } else { 0 };
        px[i] = match style {
            0 => pal[2],                                   // solid
            1 => pal[s.below(2)],                          // black/white noise
            2 => pal[s.below(pal.len())],                  // palette noise
            3 => s.u16(),                                  // full noise
            4 => {
                // vertical repetition with occasional foreground flips
                if i < w {
                    pal[s.below(3)]
                } else if s.chance(40) {
                    above ^ fg
                } else {
                    above
                }
            }
            5 => pal[2 + ((i % w + i / w) % 2)],          // checkerboard (dithered)
            6 => ((i % w) as u16).wrapping_mul(0x0841).wrapping_add((i / w) as u16), // gradient
            _ => {
                // sparse text-like: background with runs of fg
                if s.chance(48) {
                    fg
                } else if i >= w {
                    above
                } else {
                    0
                }
            }
        };
    }
    px
}

pub fn decode_rle16(s: &mut Src, maxdim: usize) -> Case {
    let w = 1 + s.small(maxdim - 1);
    let h = 1 + s.small(maxdim - 1);
    let wire = gen_image16(s, w, h);
    let mut ch = |n: usize| s_below(s, n);
    let (encoded, orders) = rle16::encode_random(&wire, w, &mut ch);
    Case { mode: 0, w: w as u16, h: h as u16, px16: rle16::flip(&wire, w, h), px32: vec![], encoded, kinds: kinds_of(&orders) }
}

fn s_below(s: &mut Src, n: usize) -> usize {
    s.below(n)
}

pub fn decode_planar(s: &mut Src, maxdim: usize) -> Case {
    let w = 1 + s.small(maxdim - 1);
    let h = 1 + s.small(maxdim - 1);
    let style = s.below(5);
    let seed = s.fill(w * h * 4);
    let base = s.bytes(4);
    let mut img = vec![0u8; w * h * 4];
    for i in 0..w * h {
        for c in 0..4 {
            img[i * 4 + c] = match style {
                0 => seed[i * 4 + c],
                1 => base[c],
                2 => base[c].wrapping_add(((i % w) * (c + 1)) as u8).wrapping_add((i / w) as u8),
                3 => {
                    if seed[i * 4 + c] < 40 {
                        seed[i * 4 + c]
                    } else {
                        base[c]
                    }
                }
                _ => {
                    if c == 3 {
                        0xFF
                    } else {
                        seed[(i / 5) * 4 + c]
                    }
                }
            };
        }
    }
    let mut ch = |n: usize| s_below(s, n);
    let (encoded, runs) = planar::encode(&img, w, h, &mut ch);
    Case { mode: 1, w: w as u16, h: h as u16, px16: vec![], px32: img, encoded, kinds: if runs > 0 { 2 } else { 1 } }
}

pub fn decode_raw(s: &mut Src, maxdim: usize) -> Case {
    let h = 1 + s.small(maxdim - 1);
    if s.bool() {
        // 16 bpp: even widths only (rows are then DWORD aligned under every reading of the specification)
        let w = 2 * (1 + s.small(maxdim / 2 - 1));
        let wire = gen_image16(s, w, h);
        let mut enc = Vec::with_capacity(w * h * 2);
        for v in &wire {
            enc.push((*v & 0xFF) as u8);
            enc.push((*v >> 8) as u8);
        }
        Case { mode: 2, w: w as u16, h: h as u16, px16: rle16::flip(&wire, w, h), px32: vec![], encoded: enc, kinds: 1 }
    } else {
        let w = 1 + s.small(maxdim - 1);
        let img = s.fill(w * h * 4);
        let enc = flip_rows(&img, w * 4, h);
        Case { mode: 3, w: w as u16, h: h as u16, px16: vec![], px32: img, encoded: enc, kinds: 1 }
    }
}

/// every image over `pal` with `w*h` pixels, every encoding (capped)
fn tiny(part: usize, parts: usize, cap: usize) -> impl Iterator<Item = Case> {
    let shapes3: Vec<(usize, usize)> = vec![(1, 1), (2, 1), (1, 2), (3, 1), (1, 3), (2, 2), (4, 1), (1, 4)];
    let shapes2: Vec<(usize, usize)> = vec![(3, 2), (2, 3), (5, 1), (1, 5), (6, 1), (1, 6)];
    let pal3 = [0u16, 0xFFFF, 0x1234];
    let pal2 = [0u16, 0xFFFF];
    let mut images: Vec<(usize, usize, Vec<u16>)> = Vec::new();
    for &(w, h) in &shapes3 {
        let n = w * h;
        for code in 0..3usize.pow(n as u32) {
            let mut k = code;
            let px: Vec<u16> = (0..n)
                .map(|_| {
                    let c = pal3[k % 3];
                    k /= 3;
                    c
                })
                .collect();
            images.push((w, h, px));
        }
    }
    for &(w, h) in &shapes2 {
        let n = w * h;
        for code in 0..2usize.pow(n as u32) {
            let px: Vec<u16> = (0..n).map(|i| pal2[(code >> i) & 1]).collect();
            images.push((w, h, px));
        }
    }
    images.into_iter().enumerate().filter(move |(i, _)| i % parts == part).flat_map(move |(_, (w, h, wire))| {
        let encs = rle16::encode_all(&wire, w, cap);
        let top = rle16::flip(&wire, w, h);
        encs.into_iter().map(move |e| Case { mode: 0, w: w as u16, h: h as u16, px16: top.clone(), px32: vec![], encoded: e, kinds: 2 })
    })
}

fn all_colours() -> Vec<Case> {
    // one 256x256 image containing every RGB565 value, as raw 16 bpp and as one RLE colour image
    let (w, h) = (256usize, 256usize);
    let wire: Vec<u16> = (0..65536u32).map(|v| v as u16).collect();
    let mut raw = Vec::new();
    for v in &wire {
        raw.push((*v & 0xFF) as u8);
        raw.push((*v >> 8) as u8);
    }
    let mut st = rle16::EncState::new();
    let mut enc = Vec::new();
    // rows of 256 pixels: MEGA colour images of one row each
    for _ in 0..h {
        rle16::emit(&wire, w, &mut st, rle16::Kind::ColorImage, w, rle16::Form::Mega, 0, 0, &mut enc);
    }
    let top = rle16::flip(&wire, w, h);
    let mut v = vec![
        Case { mode: 2, w: 256, h: 256, px16: top.clone(), px32: vec![], encoded: raw, kinds: 1 },
        Case { mode: 0, w: 256, h: 256, px16: top, px32: vec![], encoded: enc, kinds: 1 },
    ];
    // orders whose 16-bit length field is large (0x7FFF, 0x8000, 0xFFFF ...): colour runs and raw colour images over many scanlines
    for (w, h, splits) in [(256usize, 256usize, vec![65535usize, 1]), (256, 256, vec![32768, 32768]), (256, 256, vec![32767, 32769]), (256, 129, vec![33000, 24]), (512, 128, vec![0xFFFF, 1]), (300, 200, vec![40000, 20000])] {
        for image_kind in [rle16::Kind::ColorRun, rle16::Kind::ColorImage] {
            let mut wire: Vec<u16> = Vec::with_capacity(w * h);
            for (k, n) in splits.iter().enumerate() {
                for i in 0..*n {
                    wire.push(if image_kind == rle16::Kind::ColorRun { 0x1234u16.wrapping_mul(k as u16 + 3) } else { (i as u16).wrapping_mul(40503) ^ k as u16 });
                }
            }
            assert_eq!(wire.len(), w * h);
            let mut st = rle16::EncState::new();
            let mut enc = Vec::new();
            for n in &splits {
                let form = if *n <= 31 { rle16::Form::Short } else { rle16::Form::Mega };
                rle16::emit(&wire, w, &mut st, image_kind, *n, form, 0, 0, &mut enc);
            }
            v.push(Case { mode: 0, w: w as u16, h: h as u16, px16: rle16::flip(&wire, w, h), px32: vec![], encoded: enc, kinds: 1 });
        }
    }
    v
}

pub fn check(rep: &Report) {
    rep.assume("interleaved-RLE background/foreground/FGBG orders never straddle the first/second scanline boundary (the subset on which MS-RDPBCGR's per-order and rdesktop's per-pixel first-line test agree)");
    rep.assume("uncompressed 16 bpp is generated for even widths only (row padding for odd widths is read differently by the specification and by deployed clients)");
    rep.assume("zero-length MEGA_MEGA runs are not generated (no encoder emits them)");
    let cap = rep.tier.n(400, 20_000) as usize;
    rep.extra("tiny_encodings_cap_per_image", serde_json::json!(cap));
    rep.enumerate("tiny-exhaustive", false, move |p, n| tiny(p, n, cap), run);
    rep.list("all-65536-colours", all_colours(), run);
    // thorough: larger images, but bounded so that the tier stays within minutes (cost grows with the area)
    let maxdim = rep.tier.n(64, 96) as usize;
    rep.random("rle16", rep.tier.n(120_000, 1_500_000), 220, |s| decode_rle16(s, maxdim), run);
    rep.random("planar32", rep.tier.n(60_000, 1_500_000), 200, |s| decode_planar(s, maxdim), run);
    rep.random("raw", rep.tier.n(20_000, 500_000), 64, |s| decode_raw(s, maxdim), run);
    rep.require("rle16", "multi-kind", 1000);
    rep.require("rle16", "multi-row", 1000);
    rep.require("planar32", "multi-row", 1000);
}
