//! C05 / C06 — Hostile server bytes never crash the client (connection setup / active session).
use crate::mem::{self, ClientCfg};
use crate::util::{call, check_alloc, fail_panic, hexs, Res};
use engine::{AllocStats, Outcome, Report, Src, Tier};
use rdp::core::gcc;
use rdp::core::license;
use rdp::core::per;
use rdp::core::tpkt;
use rdp::core::x224;
use rdp::model::link::{Link, Stream};
use rdp::nla::ntlm::Ntlm;
use refimpl::rd::Built;
use refimpl::server::{apply_fault, Fault, FaultKind, ServerProfile};
use refimpl::wire::{self, DemandActive, FpUpdate, NegReply, Rect};
use serde::{Deserialize, Serialize};
use std::io::Cursor;

pub const LEVEL: &str = "fault_enumeration";
pub const RULE_C05: &str = "faults injected into an otherwise conforming server conversation during connection setup: for every scalar field of every server message (connection confirm, connect-response incl. GCC blocks, attach-user confirm, channel-join confirms, licence) every value of 8-bit fields and the boundary values of 16/32-bit fields (field-sweep, enumerated), every negotiation structure type 0..8 x small and boundary values of its 32-bit field; consistent conversations with unusual identifier assignments (user id equal to the I/O channel or the server's id, other I/O channels); truncation at every byte, trailing garbage, xor corruption of 1..8 bytes and pairs of such faults (generated); plus every byte string of length <= 2 (3 thorough) at the pure parser entries gcc::read_conference_create_response, license::client_connect, per::read_* and as X.224 confirm payload. Oracle: each call returns Ok or Err: no panic, no more than 64 reads on a finished stream, no single allocation > 1 MiB + 64 n and no total > 16 MiB + 4096 n for n server bytes. Non-trivial = the faulty message differs from the conforming one and the client consumed it; distinct by hash of the case.";
pub const RULE_C06: &str = "the client is driven by a conforming prefix into each of its six activation states, then reads one hostile frame and afterwards one valid frame. Hostile frames: every scalar field of every kind of server PDU (demand-active with capability sets, deactivate-all, synchronize, control, font map, set-error-info, unknown data PDU, fast-path bitmap / pointer / synchronize / unknown updates) set to every 8-bit value / the 16- and 32-bit boundary values (field-sweep, enumerated per state), truncations, extensions, xor corruption, double faults and free byte strings as MCS payload / fast-path payload (generated), all byte strings of length <= 2 at the share-PDU and fast-path parser entries (enumerated); every pair and triple of slow-path PDUs batched into one MCS frame in every state, and generated batches with faults; every 16-bit value in every word of every capability set of the sample demand-active (and of zeroed bodies) directly at Capability::from_capability_set, plus generated capability sets; demand-actives with repeated capability sets after earlier activations with other lists; the client's own PDUs (confirm-active, synchronize, control, font list) echoed back to it in every state; every PDU kind in every state after each of nine legal variations of the activating demand-active's capability list (order reversed / rotated, subsets, unknown sets only, none); frames with 255..300 PDUs of one kind and sessions that went through 255..300 (generated: 1..300) complete reactivation cycles before the hostile frame. Oracle: read returns Ok or Err: no panic, no spin, allocation bounds as for C05. Non-trivial = hostile frame differs from the conforming one; distinct by hash of the case.";

pub const B16V: [u32; 24] = [0, 1, 2, 3, 4, 5, 6, 7, 8, 0x7F, 0x80, 0xFF, 0x100, 0x3FF, 0x400, 0x7FFF, 0x8000, 0xFBFF, 0xFC16, 0xFC17, 0xFFFC, 0xFFFD, 0xFFFE, 0xFFFF];
pub const B32V: [u32; 20] = [0, 1, 2, 3, 4, 6, 7, 8, 0xFF, 0x100, 0xFFFF, 0x1_0000, 0x7FFF_FFFF, 0x8000_0000, 0x8000_0001, 0xFFFF_FFFB, 0xFFFF_FFFC, 0xFFFF_FFFD, 0xFFFF_FFFE, 0xFFFF_FFFF];

fn finish(out: &mut Outcome, entry: &str, st: &AllocStats, n: usize, h: Option<&mem::Handle>) {
    check_alloc(out, entry, st, n);
    if let Some(h) = h {
        if h.borrow().spin {
            out.fail(format!("{}:spin", entry), "more than 64 reads on a finished stream within one call");
        }
    }
}

// --------------------------------------------------------------------------------------------
// C05
// --------------------------------------------------------------------------------------------

#[derive(Serialize, Deserialize, Hash, Clone, Debug)]
pub enum Case05 {
    /// x224::Client::connect against a (possibly faulty) connection confirm
    Negotiation { reply: NegReply, fault: Option<FaultKind>, nla: bool, auth: bool },
    /// the whole connect against a conforming server with one faulty message
    Conn { profile: ServerProfile, fault: Fault },
    Gcc(Vec<u8>),
    License(Vec<u8>),
    Per { which: u8, data: Vec<u8> },
    /// raw bytes as the server's whole first reply
    RawConfirm(Vec<u8>),
}

pub fn run05(c: &Case05) -> Outcome {
    let mut out = Outcome::new();
    match c {
        Case05::Negotiation { reply, fault, nla, auth } => {
            out.label("negotiation");
            let b = wire::connection_confirm(reply);
            let bytes = match fault {
                Some(k) => apply_fault(&b, k).0,
                None => b.bytes.clone(),
            };
            out.nontrivial(bytes != wire::connection_confirm(&NegReply::Response { flags: 0, selected: 1 }).bytes);
            negotiate(&mut out, bytes, *nla, *auth);
        }
        Case05::RawConfirm(bytes) => {
            out.label("raw-confirm");
            out.nontrivial(true);
            negotiate(&mut out, bytes.clone(), true, true);
        }
        Case05::Conn { profile, fault } => {
            out.label("conn");
            let (duplex, h) = mem::new_duplex(profile.clone(), Some(fault.clone()));
            let (r, step, connect_stats) = mem::mem_connect_stats(&ClientCfg::simple(), duplex, profile.selected_protocol);
            let sent: Vec<(String, usize, Option<String>)> = h.borrow().sent_msgs.clone();
            let faulted = sent.iter().find(|m| m.2.is_some()).map(|m| m.0.clone());
            out.nontrivial(faulted.is_some());
            match faulted.as_deref() {
                Some("connect-response") => out.label("fault:connect-response"),
                Some("attach-user-confirm") => out.label("fault:attach-user-confirm"),
                Some("channel-join-confirm") => out.label("fault:channel-join-confirm"),
                Some("license") => out.label("fault:license"),
                Some(_) => out.label("fault:other"),
                None => out.label("fault:not-reached"),
            };
            let n = h.borrow().delivered;
            match r {
                Res::Panic(p) => fail_panic(&mut out, step, &p),
                Res::Ok(mut conn) => {
                    out.label("connect-ok");
                    // a few reads so that a fault in the demand-active (sent with the licence) is consumed too
                    for _ in 0..3 {
                        let idle = {
                            let s = h.borrow();
                            s.to_client.is_empty() && s.pending.is_empty()
                        };
                        if idle {
                            break;
                        }
                        let (r, st) = call(|| conn.client.read(|_| ()));
                        if let Res::Panic(p) = r {
                            fail_panic(&mut out, "RdpClient::read", &p);
                            break;
                        }
                        finish(&mut out, "RdpClient::read", &st, h.borrow().delivered, Some(&h));
                    }
                }
                Res::Err(_) => {
                    out.label("connect-err");
                }
            }
            if h.borrow().spin {
                out.fail(format!("{}:spin", step), "more than 64 reads on a finished stream within one call");
            }
            // memory requested on the way through connect, in proportion to the bytes the server had sent by then
            if !out.failed() {
                check_alloc(&mut out, step, &connect_stats, n);
            }
        }
        Case05::Gcc(data) => {
            out.label("direct-gcc");
            out.nontrivial(!data.is_empty());
            let (r, st) = call(|| gcc::read_conference_create_response(&mut Cursor::new(data.clone())).map(|_| ()));
            if let Res::Panic(p) = r {
                fail_panic(&mut out, "read_conference_create_response", &p);
            }
            finish(&mut out, "read_conference_create_response", &st, data.len(), None);
        }
        Case05::License(data) => {
            out.label("direct-license");
            out.nontrivial(!data.is_empty());
            let (r, st) = call(|| license::client_connect(&mut Cursor::new(data.clone())));
            if let Res::Panic(p) = r {
                fail_panic(&mut out, "license::client_connect", &p);
            }
            finish(&mut out, "license::client_connect", &st, data.len(), None);
        }
        Case05::Per { which, data } => {
            out.label("direct-per");
            out.nontrivial(!data.is_empty());
            let names = ["read_length", "read_integer", "read_integer_16", "read_object_identifier", "read_numeric_string", "read_octet_stream", "read_enumerates", "read_padding"];
            let w = *which as usize % names.len();
            let (r, st) = call(|| {
                let mut cur = Cursor::new(data.clone());
                match w {
                    0 => per::read_length(&mut cur).map(|_| ()),
                    1 => per::read_integer(&mut cur).map(|_| ()),
                    2 => per::read_integer_16(1001, &mut cur).map(|_| ()),
                    3 => per::read_object_identifier(&[0, 0, 20, 124, 0, 1], &mut cur).map(|_| ()),
                    4 => per::read_numeric_string(1, &mut cur).map(|_| ()),
                    5 => per::read_octet_stream(b"McDn", 4, &mut cur),
                    6 => per::read_enumerates(&mut cur).map(|_| ()),
                    _ => per::read_padding(2, &mut cur),
                }
            });
            if let Res::Panic(p) = r {
                fail_panic(&mut out, names[w], &p);
            }
            finish(&mut out, names[w], &st, data.len(), None);
        }
    }
    out
}

fn negotiate(out: &mut Outcome, bytes: Vec<u8>, nla: bool, auth: bool) {
    let (reader, _handed, eof) = crate::io::ChunkReader::new(bytes.clone(), vec![]);
    let tp = tpkt::Client::new(Link::new(Stream::Raw(reader)));
    let mut ntlm = Ntlm::new("d".to_string(), "u".to_string(), "p".to_string());
    let protocols = if nla { 3 } else { 1 };
    let (r, st) = call(|| if auth { x224::Client::connect(tp, protocols, false, Some(&mut ntlm), false, false).map(|_| ()) } else { x224::Client::connect(tp, protocols, false, None, false, false).map(|_| ()) });
    match r {
        Res::Panic(p) => fail_panic(out, if auth { "x224.connect" } else { "x224.connect(auth=None)" }, &p),
        Res::Ok(()) => {
            out.label("ok");
        }
        Res::Err(_) => {
            out.label("err");
        }
    }
    check_alloc(out, "x224.connect", &st, bytes.len());
    if *eof.borrow() > 64 {
        out.fail("x224.connect:spin", "more than 64 reads on a finished stream");
    }
}

fn gen_fault_kind(s: &mut Src) -> FaultKind {
    match s.below(10) {
        0 | 1 | 2 | 3 => {
            let value = match s.below(4) {
                0 => s.pick(&B16V),
                1 => s.pick(&B32V),
                2 => s.u8() as u32,
                _ => s.u32(),
            };
            FaultKind::SetField { field: s.u16(), value }
        }
        4 | 5 => FaultKind::Truncate(s.u16()),
        6 => {
            let n = 1 + s.below(8);
            FaultKind::Extend(s.bytes(n))
        }
        _ => {
            let n = 1 + s.below(8);
            FaultKind::Xor((0..n).map(|_| (s.u16(), s.u8() | 1)).collect())
        }
    }
}

pub fn decode05(s: &mut Src) -> Case05 {
    match s.below(12) {
        0 | 1 => {
            let reply = match s.below(6) {
                0 => NegReply::Response { flags: s.u8(), selected: s.b32() },
                1 => NegReply::Failure { flags: s.u8(), code: s.b32() },
                2 => NegReply::Other { typ: s.u8(), flags: s.u8(), length: s.b16(), value: s.b32() },
                3 => NegReply::Absent,
                _ => NegReply::Response { flags: 0, selected: s.below(4) as u32 },
            };
            Case05::Negotiation { reply, fault: if s.bool() { Some(gen_fault_kind(s)) } else { None }, nla: s.bool(), auth: !s.chance(64) }
        }
        2 => {
            let n = s.below(24);
            Case05::RawConfirm(s.bytes(n))
        }
        3 => {
            let n = s.below(40);
            Case05::Gcc(s.bytes(n))
        }
        4 => {
            let n = s.below(30);
            Case05::License(s.bytes(n))
        }
        5 => {
            let n = s.below(8);
            Case05::Per { which: s.u8(), data: s.bytes(n) }
        }
        _ => {
            let mut sub = Src::new(&[]);
            let mut profile = if s.chance(64) { ServerProfile::simple(crate::gen::gen_user_id(s), s.b32()) } else { let _ = &mut sub; crate::gen::gen_profile(s, false) };
            // identifiers no conforming server assigns, consistently used through the whole conversation
            if s.chance(40) {
                profile.user_id = s.pick(&[1003u16, 1002, 1001, 1004]);
            }
            let message = s.below(6) as u16;
            let kind = gen_fault_kind(s);
            let kind2 = if s.chance(64) { Some(gen_fault_kind(s)) } else { None };
            Case05::Conn { profile, fault: Fault { message, kind, kind2 } }
        }
    }
}

/// every scalar field of every setup message x every 8-bit value / boundary value
fn sweep05(part: usize, parts: usize) -> impl Iterator<Item = Case05> {
    let mut v: Vec<Case05> = Vec::new();
    // connection confirm
    let cc = wire::connection_confirm(&NegReply::Response { flags: 0, selected: 1 });
    for (fi, f) in cc.fields.iter().filter(|f| f.width > 0).enumerate() {
        for val in values_for(f.width) {
            for nla in [false, true] {
                v.push(Case05::Negotiation { reply: NegReply::Response { flags: 0, selected: 1 }, fault: Some(FaultKind::SetField { field: fi as u16, value: val }), nla, auth: true });
            }
        }
    }
    for t in 0..cc.bytes.len() {
        v.push(Case05::Negotiation { reply: NegReply::Response { flags: 0, selected: 1 }, fault: Some(FaultKind::Truncate(t as u16)), nla: true, auth: true });
    }
    // every negotiation structure type x small and boundary values of its 32-bit field (selected protocol / failure code ...)
    for typ in 0..=8u8 {
        for value in (0..=64u32).chain(B32V.iter().copied()) {
            for flags in [0u8, 1, 0x1F] {
                v.push(Case05::Negotiation { reply: NegReply::Other { typ, flags, length: 8, value }, fault: None, nla: value % 2 == 0, auth: true });
            }
        }
    }
    // consistent conversations with unusual identifier assignments (user id equal to the I/O channel or to the
    // server's own id, I/O channel other than 1003 ...): every message is well formed, nothing is faulted
    for user_id in [1001u16, 1002, 1003, 1004, 1005, 0x7FFF, 0x8000, 65535] {
        for io_channel in [1003u16, 1004, 1001, 1002, 0, 65535] {
            for server_user in [1002u16, 1003, 1004] {
                let mut p = ServerProfile::simple(user_id, 0x000103EA);
                p.io_channel = io_channel;
                p.server_user = server_user;
                for b in p.ccrsp.blocks.iter_mut() {
                    if let refimpl::gcc::ScBlock::Net { io_channel: c, .. } = b {
                        *c = io_channel;
                    }
                }
                v.push(Case05::Conn { profile: p, fault: Fault { message: 0, kind: FaultKind::Xor(vec![]), kind2: None } });
            }
        }
    }
    // conforming conversations whose connect response / licence carry padding of every size that moves the BER, PER,
    // GCC and TPKT lengths across their encoding boundaries (0x80, 0x100, 0x4000 ...), and SC_NET with many channels
    for n in (0..300usize).chain(16000..16500).chain([30000]) {
        let mut p = ServerProfile::simple(1004, 0x000103EA);
        p.ccrsp.blocks.push(refimpl::gcc::ScBlock::Unknown { typ: 0x0C04, body: vec![0x11; n] });
        v.push(Case05::Conn { profile: p, fault: Fault { message: 0, kind: FaultKind::Xor(vec![]), kind2: None } });
        if n < 300 || n % 25 == 0 {
            let mut p = ServerProfile::simple(1004, 0x000103EA);
            p.license = wire::License::ValidClient { blob_type: 4, blob: vec![0x22; n.min(60000)] };
            v.push(Case05::Conn { profile: p, fault: Fault { message: 0, kind: FaultKind::Xor(vec![]), kind2: None } });
            let mut p = ServerProfile::simple(1004, 0x000103EA);
            p.license = wire::License::NewLicense { body: vec![0x23; n.min(60000)] };
            v.push(Case05::Conn { profile: p, fault: Fault { message: 0, kind: FaultKind::Xor(vec![]), kind2: None } });
        }
        if n <= 300 {
            let mut p = ServerProfile::simple(1004, 0x000103EA);
            for b in p.ccrsp.blocks.iter_mut() {
                if let refimpl::gcc::ScBlock::Net { ids, pad, .. } = b {
                    *ids = (0..n as u16).map(|k| 1005 + k).collect();
                    *pad = n % 2 == 1;
                }
            }
            v.push(Case05::Conn { profile: p, fault: Fault { message: 0, kind: FaultKind::Xor(vec![]), kind2: None } });
        }
    }
    // every MCS domain parameter of the connect response at small and boundary values (minimal BER integers, all enclosing
    // lengths consistent), followed by the rest of the conversation
    for idx in 0..8usize {
        for val in [0u32, 1, 2, 3, 4, 5, 6, 7, 8, 9, 0x7F, 0x80, 0xFF, 0x100, 0x41F, 0x420, 0x421, 0x7FFF, 0x8000, 0xFFFF, 0x10000, 0xFFFFFF, 0x7FFF_FFFF, 0x8000_0000, 0xFFFF_FFFF] {
            let mut p = ServerProfile::simple(1004, 0x000103EA);
            p.domain_params[idx] = val;
            v.push(Case05::Conn { profile: p, fault: Fault { message: 0, kind: FaultKind::Xor(vec![]), kind2: None } });
        }
    }
    // N extra PDUs with an unusual security header in front of the licensing PDU (auto-detect request, heartbeat, redirection,
    // encrypted-licence, no flags at all): counters and loops on the way to the licence
    for flags in [0x1000u16, 0x2000, 0x4000, 0x0400, 0x0200, 0x0000, 0x0008, 0x1080] {
        for count in [1usize, 2, 3, 16, 255, 256, 257, 300, 1000] {
            let mut p = ServerProfile::simple(1004, 0x000103EA);
            let mut body = Built::new();
            body.u16le("flags", flags).u16le("flagsHi", 0).blob("data", &[6, 0, 0, 0, 0, 0]);
            let frame = wire::send_data_indication(p.server_user, p.io_channel, &body).bytes;
            p.pre_license = vec![frame; count];
            v.push(Case05::Conn { profile: p, fault: Fault { message: 0, kind: FaultKind::Xor(vec![]), kind2: None } });
        }
    }
    // every selected protocol low byte, with and without an authentication protocol
    for sel in 0..256u32 {
        for auth in [false, true] {
            for nla in [false, true] {
                v.push(Case05::Negotiation { reply: NegReply::Response { flags: 0, selected: sel }, fault: None, nla, auth });
            }
        }
    }
    // the messages of the MCS / licence phase of two profiles
    let mut p2 = ServerProfile::simple(1004, 0x000103EA);
    p2.ccrsp.blocks = vec![
        refimpl::gcc::ScBlock::Core { version: 0x00080004, requested: Some(1), early_caps: Some(0) },
        refimpl::gcc::ScBlock::Net { io_channel: 1003, ids: vec![1004, 1005, 1006], pad: true },
        refimpl::gcc::ScBlock::Security { method: 0, level: 0 },
        refimpl::gcc::ScBlock::Unknown { typ: 0x0C04, body: vec![1, 2, 3, 4] },
    ];
    p2.license = wire::License::NewLicense { body: vec![0; 12] };
    // a server that selects Standard RDP Security (SC_SECURITY with random and certificate) and announces a message channel
    // and multitransport; and the same layout with nothing selected
    let mut p3 = ServerProfile::simple(1004, 0x000103EA);
    p3.ccrsp.blocks = vec![
        refimpl::gcc::ScBlock::Core { version: 0x00080004, requested: Some(1), early_caps: Some(1) },
        refimpl::gcc::ScBlock::SecurityFull { method: 2, level: 2, random: vec![0xAB; 32], cert: vec![0xCD; 184] },
        refimpl::gcc::ScBlock::Net { io_channel: 1003, ids: vec![1004], pad: true },
        refimpl::gcc::ScBlock::Unknown { typ: 0x0C04, body: vec![0xEC, 0x03] },
        refimpl::gcc::ScBlock::Unknown { typ: 0x0C08, body: vec![1, 0, 0, 0] },
    ];
    let mut p4 = p3.clone();
    p4.ccrsp.blocks[1] = refimpl::gcc::ScBlock::SecurityFull { method: 0, level: 0, random: vec![], cert: vec![] };
    // the BER part of the connect response: every TLV header with its length in every long form of 1..8 octets (true value, all
    // ones, 0x7F.., 0x80 00.., one too many), indefinite and reserved; the TPKT length follows the new size
    {
        let profile = ServerProfile::simple(1004, 0x000103EA);
        let cr = &setup_messages(&profile)[0];
        for m in wire::der_length_mutations(&cr.bytes, 7) {
            v.push(Case05::Conn { profile: profile.clone(), fault: Fault { message: 0, kind: FaultKind::ReplaceBody(m[4..].to_vec()), kind2: None } });
        }
    }
    for profile in [ServerProfile::simple(1004, 0x000103EA), p2, p3, p4] {
        let built = setup_messages(&profile);
        for (mi, b) in built.iter().enumerate() {
            let scalars = b.fields.iter().filter(|f| f.width > 0).count();
            for fi in 0..scalars {
                let w = b.fields.iter().filter(|f| f.width > 0).nth(fi).unwrap().width;
                for val in values_for(w) {
                    v.push(Case05::Conn { profile: profile.clone(), fault: Fault { message: mi as u16, kind: FaultKind::SetField { field: fi as u16, value: val }, kind2: None } });
                }
            }
            for t in 0..b.bytes.len() {
                v.push(Case05::Conn { profile: profile.clone(), fault: Fault { message: mi as u16, kind: FaultKind::Truncate(t as u16), kind2: None } });
            }
            for e in [vec![0u8], vec![0xFF; 3], vec![3, 0, 0, 4]] {
                v.push(Case05::Conn { profile: profile.clone(), fault: Fault { message: mi as u16, kind: FaultKind::Extend(e), kind2: None } });
            }
        }
    }
    // framing level: every message replaced by each of a family of short raw frames (fast-path and TPKT headers with
    // boundary lengths, in both length forms)
    let mut frames: Vec<Vec<u8>> = Vec::new();
    for b0 in [0u8, 1, 2, 3, 4, 0x40, 0x80, 0xC3, 0xFF] {
        frames.push(vec![b0]);
        for b1 in 0..=255u8 {
            frames.push(vec![b0, b1]);
        }
        for b1 in [0u8, 1, 2, 3, 4, 0x7F, 0x80, 0x81, 0xFF] {
            for b2 in [0u8, 1, 2, 3, 4, 5, 6, 7, 0x7F, 0x80, 0xFF] {
                frames.push(vec![b0, b1, b2]);
                frames.push(vec![b0, b1, b2, 0]);
                frames.push(vec![b0, b1, 0, b2]);
                frames.push(vec![b0, b1, b2, 0, 0, 0, 0]);
            }
        }
    }
    let simple = ServerProfile::simple(1004, 0x000103EA);
    for f in &frames {
        v.push(Case05::RawConfirm(f.clone()));
        for mi in 0..5u16 {
            v.push(Case05::Conn { profile: simple.clone(), fault: Fault { message: mi, kind: FaultKind::ReplaceFrame(f.clone()), kind2: None } });
        }
    }
    v.into_iter().enumerate().filter(move |(i, _)| i % parts == part).map(|(_, c)| c)
}

pub fn values_for(width: u8) -> Vec<u32> {
    match width {
        1 => (0..256).collect(),
        2 => B16V.to_vec(),
        _ => B32V.to_vec(),
    }
}

/// the server messages of the setup phase for a profile, in sending order (same builders the server uses)
fn setup_messages(p: &ServerProfile) -> Vec<Built> {
    let user_data = refimpl::gcc::build_ccrsp(&p.ccrsp);
    let cr = wire::tpkt(&wire::x224_data(&wire::connect_response(0, p.connect_id, p.domain_params, &user_data, p.ber_long)));
    let auc = wire::attach_user_confirm(0, p.user_id);
    let j1 = wire::channel_join_confirm(0, p.user_id, p.user_id, p.user_id);
    let j2 = wire::channel_join_confirm(0, p.user_id, p.io_channel, p.io_channel);
    let lic = wire::send_data_indication(p.server_user, p.io_channel, &wire::license_pdu(&p.license, 0x0080));
    vec![cr, auc, j1, j2, lic]
}

fn short_strings05(maxlen: usize, part: usize, parts: usize) -> impl Iterator<Item = Case05> {
    let nstr: usize = (0..=maxlen).map(|l| 256usize.pow(l as u32)).sum();
    // entries: gcc, license, per x 8, raw confirm payload wrapped into a TPKT
    let entries = 11usize;
    let total = nstr * entries;
    (part..total).step_by(parts).map(move |i| {
        let e = i / nstr;
        let mut k = i % nstr;
        let mut len = 0;
        while k >= 256usize.pow(len as u32) {
            k -= 256usize.pow(len as u32);
            len += 1;
        }
        let data: Vec<u8> = (0..len).map(|j| ((k >> (8 * j)) & 0xFF) as u8).collect();
        match e {
            0 => Case05::Gcc(data),
            1 => Case05::License(data),
            10 => {
                let mut f = vec![3u8, 0, 0, (4 + data.len()) as u8];
                f.extend(data);
                Case05::RawConfirm(f)
            }
            w => Case05::Per { which: (w - 2) as u8, data },
        }
    })
}

pub fn check05(rep: &Report) {
    rep.assume("error kinds are never asserted; only Ok/Err versus panic / spin / disproportionate allocation");
    rep.assume("TLS start on a scripted transport fails with an I/O error; that is an acceptable Err");
    rep.enumerate("field-sweep", true, sweep05, run05);
    let ml = if rep.tier == Tier::Thorough { 3 } else { 2 };
    rep.enumerate("short-strings", true, move |p, n| short_strings05(ml, p, n), run05);
    rep.random("faults", rep.tier.n(400_000, 12_000_000), 200, decode05, run05);
    rep.require("faults", "fault:connect-response", 2000);
    rep.require("faults", "fault:license", 2000);
    rep.require("faults", "negotiation", 2000);
}

// --------------------------------------------------------------------------------------------
// C06
// --------------------------------------------------------------------------------------------

#[derive(Serialize, Deserialize, Hash, Clone, Debug, PartialEq, Eq)]
pub enum PduKind {
    DemandActive,
    DeactivateAll,
    Synchronize,
    Control,
    FontMap,
    SetErrorInfo,
    UnknownData,
    FpBitmap,
    FpPointer,
    FpSync,
    FpUnknown,
    /// free bytes as the payload of a SendDataIndication on the I/O channel
    RawShare(Vec<u8>),
    /// free bytes as the payload of a fast-path frame
    RawFastPath(Vec<u8>),
    /// free bytes as a whole frame
    RawFrame(Vec<u8>),
    /// several slow-path share PDUs in one MCS send-data-indication
    Batch(Vec<PduKind>),
    /// a conforming demand-active with one more (unknown) capability set of this many body bytes: PDU, MCS and TPKT
    /// lengths cross their encoding boundaries (0x80, 0x4000, 0x7FFF)
    DemandActivePadded(u16),
    /// an unparsed data PDU (save session info) with a body of this many bytes
    DataPadded(u16),
    /// a conforming demand-active whose capability list is the n-th variant of `caps_variant_ext` (duplicated sets, sets in
    /// other orders ...): interesting after earlier activations with another list
    DemandActiveCaps(u8),
    /// the k-th share PDU the client itself has written so far (confirm-active, synchronize, control, font list, input),
    /// sent back to it as if it came from the server
    EchoClient(u8),
}

/// capability lists with repeated sets, on top of `caps_variant`
pub fn caps_variant_ext(v: u8) -> Vec<(u16, Vec<u8>)> {
    let all = wire::sample_server_caps();
    let get = |t: u16| all.iter().find(|(x, _)| *x == t).cloned();
    let seq = |types: &[u16]| -> Vec<(u16, Vec<u8>)> { types.iter().filter_map(|t| get(*t)).collect() };
    match v % 16 {
        0 => seq(&[1, 2, 8]),
        1 => seq(&[1, 2, 8, 8]),
        2 => seq(&[8, 8]),
        3 => seq(&[1, 1, 2, 2, 8, 8]),
        4 => seq(&[1, 2, 8, 1]),
        5 => seq(&[2, 1, 2]),
        6 => seq(&[8, 2, 1, 8, 2, 1, 8]),
        7 => seq(&[1]),
        8 => seq(&[1, 1]),
        9 => {
            let mut c = all.clone();
            let last = c.last().cloned();
            c.extend(last);
            c
        }
        10 => {
            let mut c = all.clone();
            c.extend(all.clone());
            c
        }
        other => caps_variant(other),
    }
}

/// the share PDU of a slow-path kind (None for fast-path and raw-frame kinds)
pub fn share_pdu(kind: &PduKind, share: u32) -> Option<Built> {
    let su = 1002u16;
    Some(match kind {
        PduKind::DemandActive => wire::demand_active(&DemandActive { share_id: share ^ 0x55, source: b"RDP\0".to_vec(), caps: wire::sample_server_caps(), session_id: 7 }, su),
        PduKind::DeactivateAll => wire::deactivate_all(share, su),
        PduKind::Synchronize => wire::synchronize(share, su, 1004),
        PduKind::Control => wire::control(share, su, 4, 0, 0),
        PduKind::FontMap => wire::font_map(share, su),
        PduKind::SetErrorInfo => wire::set_error_info(share, su, 5),
        PduKind::UnknownData => wire::other_data_pdu(share, su, 0x26, &[1, 2, 3, 4, 5, 6]),
        PduKind::RawShare(b) => {
            let mut x = Built::new();
            x.blob("raw", b);
            x
        }
        PduKind::DemandActivePadded(n) => {
            let mut caps = wire::sample_server_caps();
            caps.push((0x00FE, vec![0x5A; *n as usize]));
            wire::demand_active(&DemandActive { share_id: share ^ 0x55, source: b"RDP\0".to_vec(), caps, session_id: 7 }, su)
        }
        PduKind::DataPadded(n) => wire::other_data_pdu(share, su, 0x26, &vec![0x33; *n as usize]),
        PduKind::DemandActiveCaps(v) => wire::demand_active(&DemandActive { share_id: share ^ 0x77, source: b"RDP\0".to_vec(), caps: caps_variant_ext(*v), session_id: 7 }, su),
        _ => return None,
    })
}

#[derive(Serialize, Deserialize, Hash, Clone, Debug)]
pub struct Case06 {
    /// 0 = awaiting demand-active … 5 = active
    pub state: u8,
    pub kind: PduKind,
    pub fault: Option<FaultKind>,
    pub fault2: Option<FaultKind>,
    /// complete activation + deactivate-all cycles the session went through before (state accumulated over a long session)
    #[serde(default)]
    pub cycles: u16,
    /// capability sets of the conforming demand-active that activated the session (0 = the captured Windows list)
    #[serde(default)]
    pub caps: u8,
    /// a fault in the demand-active that ACTIVATES the session (a value the client accepts there may only take effect in a
    /// later PDU); if the client refuses the faulted demand-active the case ends
    #[serde(default)]
    pub act: Option<FaultKind>,
}

/// legal variations of the demand-active's capability list: order, subsets, unknown sets only, none
pub fn caps_variant(v: u8) -> Vec<(u16, Vec<u8>)> {
    let all = wire::sample_server_caps();
    let pick = |types: &[u16]| -> Vec<(u16, Vec<u8>)> { types.iter().filter_map(|t| all.iter().find(|(x, _)| x == t).cloned()).collect() };
    match v % 10 {
        0 => all,
        1 => all.into_iter().rev().collect(),
        2 => pick(&[2, 1, 3]),
        3 => pick(&[3, 2]),
        4 => Vec::new(),
        5 => pick(&[9, 0x14, 0x1D, 0x1E]),
        6 => pick(&[1]),
        7 => pick(&[2]),
        8 => {
            let mut c = all;
            c.rotate_left(1);
            c
        }
        _ => vec![(0x00FF, vec![0; 8]), (0x1D, vec![1; 20])],
    }
}

pub fn base_frame(kind: &PduKind, share: u32) -> Built {
    let su = 1002u16;
    let wrap = |b: &Built| wire::send_data_indication(su, 1003, b);
    match kind {
        PduKind::DemandActive => wrap(&wire::demand_active(&DemandActive { share_id: share ^ 0x55, source: b"RDP\0".to_vec(), caps: wire::sample_server_caps(), session_id: 7 }, su)),
        PduKind::DeactivateAll => wrap(&wire::deactivate_all(share, su)),
        PduKind::Synchronize => wrap(&wire::synchronize(share, su, 1004)),
        PduKind::Control => wrap(&wire::control(share, su, 4, 0, 0)),
        PduKind::FontMap => wrap(&wire::font_map(share, su)),
        PduKind::SetErrorInfo => wrap(&wire::set_error_info(share, su, 5)),
        PduKind::UnknownData => wrap(&wire::other_data_pdu(share, su, 0x26, &[1, 2, 3, 4, 5, 6])),
        PduKind::FpBitmap => wire::fast_path_pdu(
            &[FpUpdate::Bitmap(vec![
                Rect { left: 0, top: 0, right: 1, bottom: 1, width: 2, height: 2, bpp: 32, flags: 0, cd_scan_width: 0, cd_uncompressed: 0, data: vec![9; 16] },
                Rect { left: 2, top: 2, right: 3, bottom: 3, width: 2, height: 2, bpp: 16, flags: 1, cd_scan_width: 4, cd_uncompressed: 8, data: vec![0x64, 1, 2] },
            ])],
            0,
            false,
        ),
        PduKind::FpPointer => wire::fast_path_pdu(&[FpUpdate::ColorPointer { cache: 0, hot: 0, width: 2, height: 2, and_mask: vec![0; 4], xor_mask: vec![1; 12], pad: true }, FpUpdate::PointerNull], 0, false),
        PduKind::FpSync => wire::fast_path_pdu(&[FpUpdate::Synchronize], 0, false),
        PduKind::FpUnknown => wire::fast_path_pdu(&[FpUpdate::Other { code: 4, body: vec![1, 2, 3] }, FpUpdate::Other { code: 0xF, body: vec![] }], 0, true),
        PduKind::RawShare(b) => {
            let mut x = Built::new();
            x.blob("raw", b);
            wrap(&x)
        }
        PduKind::RawFastPath(b) => {
            let mut x = Built::new();
            x.u8("fp.header", 0);
            x.u8("fp.length", (b.len() + 2).min(0x7F) as u8);
            x.blob("raw", b);
            x
        }
        PduKind::RawFrame(b) => {
            let mut x = Built::new();
            x.blob("raw", b);
            x
        }
        PduKind::DemandActivePadded(_) | PduKind::DataPadded(_) | PduKind::DemandActiveCaps(_) => wrap(&share_pdu(kind, share).unwrap()),
        // filled in by run06 from what the client has written
        PduKind::EchoClient(_) => Built::new(),
        PduKind::Batch(kinds) => {
            let mut all = Built::new();
            for (i, k) in kinds.iter().enumerate() {
                if let Some(p) = share_pdu(k, share) {
                    all.nest(&format!("pdu{}", i), &p);
                }
            }
            wrap(&all)
        }
    }
}

const SHARE: u32 = 0x000103EA;

pub fn run06(c: &Case06) -> Outcome {
    let mut out = Outcome::new();
    let mut profile = ServerProfile::simple(1004, SHARE);
    profile.auto = false;
    let (duplex, h) = mem::new_duplex(profile, None);
    let (r, _step) = mem::mem_connect(&ClientCfg::simple(), duplex, 1);
    let mut conn = match r {
        Res::Ok(c) => c,
        _ => {
            out.fail("panic:HARNESS-FAULT c06 session setup", "connect failed");
            return out;
        }
    };
    // conforming prefix into the requested state
    let su = 1002u16;
    let d = DemandActive { share_id: SHARE, source: b"RDP\0".to_vec(), caps: caps_variant(c.caps), session_id: 0 };
    if c.caps % 10 != 0 {
        out.label("other-capability-list");
    }
    let prefix: Vec<Built> = vec![
        wire::send_data_indication(su, 1003, &wire::demand_active(&d, su)),
        wire::send_data_indication(su, 1003, &wire::synchronize(SHARE, su, 1004)),
        wire::send_data_indication(su, 1003, &wire::control(SHARE, su, 4, 0, 0)),
        wire::send_data_indication(su, 1003, &wire::control(SHARE, su, 2, 1004, 0x3EA)),
        wire::send_data_indication(su, 1003, &wire::font_map(SHARE, su)),
    ];
    let state = (c.state % 6) as usize;
    h.borrow_mut().auto_feed = false;
    if c.cycles > 0 {
        out.label("long-session");
        let dea = wire::send_data_indication(su, 1003, &wire::deactivate_all(SHARE, su));
        for _ in 0..c.cycles {
            for f in prefix.iter().chain(std::iter::once(&dea)) {
                h.borrow_mut().push(&f.bytes);
                let (r, _) = call(|| conn.client.read(|_| ()));
                match r {
                    Res::Ok(()) => {}
                    Res::Panic(p) => {
                        fail_panic(&mut out, "RdpClient::read(cycle)", &p);
                        return out;
                    }
                    Res::Err(e) => {
                        out.fail("panic:HARNESS-FAULT c06 cycles", format!("conforming reactivation cycle rejected: {}", e));
                        return out;
                    }
                }
                // the client's answers are not needed
                h.borrow_mut().pending.clear();
            }
        }
    }
    for (i, f) in prefix.iter().take(state).enumerate() {
        if let (0, Some(k)) = (i, &c.act) {
            let (bytes, _) = apply_fault(f, k);
            let n = bytes.len();
            h.borrow_mut().push(&bytes);
            h.borrow_mut().eof_reads = 0;
            let (r, st) = call(|| conn.client.read(|_| ()));
            match r {
                Res::Panic(p) => {
                    fail_panic(&mut out, "RdpClient::read(activating)", &p);
                    return out;
                }
                Res::Err(_) => {
                    out.label("act:refused");
                    return out;
                }
                Res::Ok(()) => {
                    out.label("act:accepted");
                }
            }
            finish(&mut out, "RdpClient::read(activating)", &st, n, Some(&h));
            if out.failed() {
                return out;
            }
            {
                let mut sh = h.borrow_mut();
                sh.to_client.clear();
                sh.eof_reads = 0;
                sh.spin = false;
            }
            continue;
        }
        h.borrow_mut().push(&f.bytes);
        let (r, _) = call(|| conn.client.read(|_| ()));
        if !r.is_ok() {
            if c.act.is_some() {
                // the faulted demand-active was consumed without an error but left the client unable to go on
                out.label("act:stuck");
                return out;
            }
            out.fail("panic:HARNESS-FAULT c06 prefix", format!("conforming prefix rejected in state {}", state));
            return out;
        }
    }
    out.label(["state0-demand", "state1-sync", "state2-coop", "state3-granted", "state4-fontmap", "state5-active"][state]);
    let mut base = base_frame(&c.kind, SHARE);
    if let PduKind::EchoClient(k) = &c.kind {
        out.label("echo-of-client-pdu");
        // the share PDUs the client has written so far, taken from its own frames
        let written = h.borrow().transcript.clone();
        let mut pdus: Vec<Vec<u8>> = Vec::new();
        if let Ok((frames, _)) = wire::split_tpkt(&written) {
            for f in frames {
                if f.len() > 3 {
                    if let Ok(wire::DomainPdu::SendDataRequest { data, .. }) = wire::parse_domain_pdu(&f[3..]) {
                        pdus.push(data.to_vec());
                    }
                }
            }
        }
        if pdus.is_empty() {
            return out;
        }
        let mut x = Built::new();
        x.blob("echo", &pdus[*k as usize % pdus.len()]);
        base = wire::send_data_indication(su, 1003, &x);
    }
    let mut bytes = base.bytes.clone();
    if let Some(k) = &c.fault {
        bytes = apply_fault(&base, k).0;
        if let Some(k2) = &c.fault2 {
            let b2 = Built { bytes: bytes.clone(), fields: base.fields.iter().filter(|f| f.off + f.width as usize <= bytes.len()).cloned().collect() };
            bytes = apply_fault(&b2, k2).0;
        }
    }
    let differs = bytes != base.bytes || matches!(c.kind, PduKind::RawShare(_) | PduKind::RawFastPath(_) | PduKind::RawFrame(_) | PduKind::Batch(_) | PduKind::DemandActivePadded(_) | PduKind::DataPadded(_) | PduKind::DemandActiveCaps(_) | PduKind::EchoClient(_));
    if matches!(c.kind, PduKind::Batch(_)) {
        out.label("batch");
    }
    out.nontrivial(differs);
    let before = h.borrow().delivered;
    h.borrow_mut().push(&bytes);
    h.borrow_mut().eof_reads = 0;
    let mut events = 0usize;
    let (r, st) = call(|| conn.client.read(|_| events += 1));
    let n = h.borrow().delivered - before;
    match r {
        Res::Panic(p) => {
            fail_panic(&mut out, "RdpClient::read", &p);
            return out;
        }
        Res::Ok(()) => {
            out.label("ok");
        }
        Res::Err(_) => {
            out.label("err");
        }
    }
    finish(&mut out, "RdpClient::read", &st, n.max(bytes.len()), Some(&h));
    if out.failed() {
        return out;
    }
    // the session must still be usable or fail cleanly: one valid frame afterwards
    {
        let mut s = h.borrow_mut();
        s.to_client.clear();
        s.eof_reads = 0;
        s.spin = false;
    }
    let follow = wire::send_data_indication(su, 1003, &wire::set_error_info(SHARE, su, 0));
    h.borrow_mut().push(&follow.bytes);
    let (r, st) = call(|| conn.client.read(|_| ()));
    if let Res::Panic(p) = r {
        fail_panic(&mut out, "RdpClient::read(after)", &p);
        return out;
    }
    finish(&mut out, "RdpClient::read(after)", &st, follow.bytes.len(), Some(&h));
    let _ = hexs(&bytes);
    out
}

const KINDS: [PduKind; 11] = [PduKind::DemandActive, PduKind::DeactivateAll, PduKind::Synchronize, PduKind::Control, PduKind::FontMap, PduKind::SetErrorInfo, PduKind::UnknownData, PduKind::FpBitmap, PduKind::FpPointer, PduKind::FpSync, PduKind::FpUnknown];

pub fn decode06(s: &mut Src) -> Case06 {
    let state = s.below(6) as u8;
    let long = s.chance(6);
    let caps = if s.chance(80) { s.below(10) as u8 } else { 0 };
    let kind = match s.below(16) {
        0 => {
            let n = s.below(40);
            PduKind::RawShare(s.bytes(n))
        }
        1 => {
            let n = s.below(40);
            PduKind::RawFastPath(s.bytes(n))
        }
        2 => {
            let n = s.below(24);
            PduKind::RawFrame(s.bytes(n))
        }
        5 if s.bool() => PduKind::DemandActiveCaps(s.below(16) as u8),
        5 => PduKind::EchoClient(s.u8()),
        3 | 4 => {
            let n = 2 + s.below(4);
            PduKind::Batch(
                (0..n)
                    .map(|_| {
                        if s.chance(32) {
                            let l = s.below(12);
                            PduKind::RawShare(s.bytes(l))
                        } else {
                            s.pick(&KINDS[..7])
                        }
                    })
                    .collect(),
            )
        }
        _ => s.pick(&KINDS),
    };
    let fault = if matches!(kind, PduKind::RawShare(_) | PduKind::RawFastPath(_) | PduKind::RawFrame(_) | PduKind::Batch(_)) && s.bool() { None } else { Some(gen_fault_kind(s)) };
    let fault2 = if fault.is_some() && s.chance(64) { Some(gen_fault_kind(s)) } else { None };
    // a fault in the activating demand-active, mostly in the words of its capability bodies
    let act = if state > 0 && s.chance(64) {
        Some(if s.chance(200) { FaultKind::SetField { field: 20 + s.below(260) as u16, value: s.pick(&[0u32, 1, 0x7FFF, 0x8000, 0xFFFF, 0xFFFF_FFFF, 0x100, 0xFF]) } } else { gen_fault_kind(s) })
    } else {
        None
    };
    Case06 { state, kind, fault, fault2, cycles: if long { 1 + s.below(300) as u16 } else { 0 }, caps, act }
}

fn sweep06(tier: Tier, part: usize, parts: usize) -> impl Iterator<Item = Case06> {
    let mut v = Vec::new();
    for kind in KINDS.iter() {
        let b = base_frame(kind, SHARE);
        let scalars: Vec<u8> = b.fields.iter().filter(|f| f.width > 0).map(|f| f.width).collect();
        // quick: the state that parses the kind most deeply plus state 0 and active; thorough: all six
        let states: Vec<u8> = match tier {
            Tier::Thorough => (0..6).collect(),
            Tier::Quick => {
                let deep = match kind {
                    PduKind::DemandActive => 0,
                    PduKind::Synchronize => 1,
                    PduKind::Control => 2,
                    PduKind::FontMap => 4,
                    _ => 5,
                };
                let mut st = vec![deep, 5u8, 3];
                st.dedup();
                st
            }
        };
        for st in states {
            for (fi, w) in scalars.iter().enumerate() {
                for val in values_for(*w) {
                    v.push(Case06 { state: st, kind: kind.clone(), fault: Some(FaultKind::SetField { field: fi as u16, value: val }), fault2: None, cycles: 0, caps: 0, act: None });
                }
            }
            for t in 0..b.bytes.len().min(400) {
                v.push(Case06 { state: st, kind: kind.clone(), fault: Some(FaultKind::Truncate(t as u16)), fault2: None, cycles: 0, caps: 0, act: None });
            }
            for e in [vec![0u8], vec![0xFF; 5], vec![3, 0, 0, 4]] {
                v.push(Case06 { state: st, kind: kind.clone(), fault: Some(FaultKind::Extend(e)), fault2: None, cycles: 0, caps: 0, act: None });
            }
        }
    }
    v.into_iter().enumerate().filter(move |(i, _)| i % parts == part).map(|(_, c)| c)
}

fn short_strings06(part: usize, parts: usize) -> impl Iterator<Item = Case06> {
    let nstr = 1 + 256 + 65536usize;
    let total = nstr * 2 * 2;
    (part..total).step_by(parts).map(move |i| {
        let which = i / nstr;
        let mut k = i % nstr;
        let mut len = 0;
        while k >= 256usize.pow(len as u32) {
            k -= 256usize.pow(len as u32);
            len += 1;
        }
        let data: Vec<u8> = (0..len).map(|j| ((k >> (8 * j)) & 0xFF) as u8).collect();
        let state = if which & 1 == 0 { 5 } else { 0 };
        let kind = if which & 2 == 0 { PduKind::RawShare(data) } else { PduKind::RawFastPath(data) };
        Case06 { state, kind, fault: None, fault2: None, cycles: 0, caps: 0, act: None }
    })
}

/// every pair and triple of slow-path PDUs batched into one frame, unfaulted, in every state
fn batches06() -> Vec<Case06> {
    let slow = &KINDS[..7];
    let mut v = Vec::new();
    // hundreds of PDUs of one kind in one frame, and hundreds of cycles in one session (counters that wrap)
    for st in [0u8, 5] {
        for k in slow {
            for n in [255usize, 256, 257, 300] {
                // keep the frame below the TPKT limit
                let per = share_pdu(k, SHARE).map(|b| b.bytes.len()).unwrap_or(1).max(1);
                let n = n.min(60000 / per);
                v.push(Case06 { state: st, kind: PduKind::Batch(vec![k.clone(); n]), fault: None, fault2: None, cycles: 0, caps: 0, act: None });
            }
        }
    }
    // every PDU kind, unfaulted, in every state, after each legal variation of the activating capability list
    for caps in 1..10u8 {
        for st in 0..6u8 {
            for k in KINDS.iter() {
                v.push(Case06 { state: st, kind: k.clone(), fault: None, fault2: None, cycles: 0, caps, act: None });
            }
        }
    }
    // padded PDUs: every size that moves the PDU / MCS / TPKT lengths across 0x80, 0x4000 and towards 0x7FFF
    for n in (0..200u16).chain(15700..16100).chain(32000..32300) {
        v.push(Case06 { state: 0, kind: PduKind::DemandActivePadded(n), fault: None, fault2: None, cycles: 0, caps: 0, act: None });
        v.push(Case06 { state: 5, kind: PduKind::DataPadded(n), fault: None, fault2: None, cycles: 0, caps: 0, act: None });
    }
    // a demand-active with each extended capability list (repeated sets ...) in every state, fresh and after one or two earlier
    // activations that used each of several other lists
    for v2 in 0..16u8 {
        for st in 0..6u8 {
            v.push(Case06 { state: st, kind: PduKind::DemandActiveCaps(v2), fault: None, fault2: None, cycles: 0, caps: 0, act: None });
        }
        for caps in [0u8, 2, 3, 6, 7] {
            for cycles in [1u16, 2] {
                v.push(Case06 { state: 0, kind: PduKind::DemandActiveCaps(v2), fault: None, fault2: None, cycles, caps, act: None });
            }
        }
    }
    // the client's own PDUs echoed back by the server, in every state
    for st in 0..6u8 {
        for k in 0..12u8 {
            for cycles in [0u16, 1] {
                v.push(Case06 { state: st, kind: PduKind::EchoClient(k), fault: None, fault2: None, cycles, caps: 0, act: None });
            }
        }
    }
    for cycles in [255u16, 256, 257, 300] {
        for k in [PduKind::DeactivateAll, PduKind::DemandActive, PduKind::FpBitmap] {
            v.push(Case06 { state: 5, kind: k, fault: None, fault2: None, cycles, caps: 0, act: None });
        }
    }
    for st in 0..6u8 {
        for a in slow {
            for b in slow {
                v.push(Case06 { state: st, kind: PduKind::Batch(vec![a.clone(), b.clone()]), fault: None, fault2: None, cycles: 0, caps: 0, act: None });
                for c in slow {
                    v.push(Case06 { state: st, kind: PduKind::Batch(vec![a.clone(), b.clone(), c.clone()]), fault: None, fault2: None, cycles: 0, caps: 0, act: None });
                }
            }
        }
    }
    v
}

/// every boundary value in every 16-bit word of every capability body of the ACTIVATING demand-active, followed (once the
/// session is active) by each fast-path kind with every fragmentation / compression nibble in its first update header, and by
/// each slow-path kind: values the client stores at activation and uses later
fn accepted_then_pdu(part: usize, parts: usize) -> impl Iterator<Item = Case06> {
    let su = 1002u16;
    let d = DemandActive { share_id: SHARE, source: b"RDP\0".to_vec(), caps: wire::sample_server_caps(), session_id: 0 };
    let da = wire::send_data_indication(su, 1003, &wire::demand_active(&d, su));
    let scalars: Vec<&refimpl::rd::Field> = da.fields.iter().filter(|f| f.width > 0 && f.off + f.width as usize <= da.bytes.len()).collect();
    let words: Vec<u16> = scalars.iter().enumerate().filter(|(_, f)| f.name.contains("capabilityData.")).map(|(i, _)| i as u16).collect();
    let mut follow: Vec<(PduKind, Option<FaultKind>)> = Vec::new();
    for k in [PduKind::FpBitmap, PduKind::FpPointer, PduKind::FpSync, PduKind::FpUnknown] {
        let b = base_frame(&k, SHARE);
        let sc: Vec<&refimpl::rd::Field> = b.fields.iter().filter(|f| f.width > 0 && f.off + f.width as usize <= b.bytes.len()).collect();
        let hdr = sc.iter().position(|f| f.name.ends_with("updateHeader"));
        follow.push((k.clone(), None));
        if let Some(hi) = hdr {
            let code = b.bytes[sc[hi].off] & 0x0F;
            for nib in 1..16u32 {
                follow.push((k.clone(), Some(FaultKind::SetField { field: hi as u16, value: (nib << 4) | code as u32 })));
            }
        }
    }
    for k in KINDS[..7].iter() {
        follow.push((k.clone(), None));
    }
    let values = [0xFFFFu32, 0x8000, 0, 0x7FFF, 1];
    let total = words.len() * values.len() * follow.len();
    (part..total).step_by(parts.max(1)).map(move |i| {
        let (kind, fault) = follow[i % follow.len()].clone();
        let j = i / follow.len();
        let value = values[j % values.len()];
        let field = words[j / values.len()];
        Case06 { state: 5, kind, fault, fault2: None, cycles: 0, caps: 0, act: Some(FaultKind::SetField { field, value }) }
    })
}

/// one capability set handed to the capability parser directly: type, length, body
#[derive(Serialize, Deserialize, Hash, Clone, Debug)]
pub struct CapCase {
    pub cap_type: u16,
    pub length: u16,
    pub body: Vec<u8>,
}

pub fn run_cap(c: &CapCase) -> Outcome {
    use rdp::core::capability::{capability_set, Capability};
    use rdp::model::data::Message;
    let mut out = Outcome::new();
    out.nontrivial(true);
    let mut bytes = Vec::new();
    bytes.extend_from_slice(&c.cap_type.to_le_bytes());
    bytes.extend_from_slice(&c.length.to_le_bytes());
    bytes.extend_from_slice(&c.body);
    let n = bytes.len();
    let (r, st) = call(move || {
        let mut cs = capability_set(None);
        cs.read(&mut Cursor::new(bytes))?;
        Capability::from_capability_set(&cs).map(|_| ())
    });
    match r {
        Res::Panic(p) => {
            fail_panic(&mut out, "Capability::from_capability_set", &p);
            return out;
        }
        Res::Ok(()) => {
            out.label("ok");
        }
        Res::Err(_) => {
            out.label("err");
        }
    }
    finish(&mut out, "Capability::from_capability_set", &st, n, None);
    out
}

/// every 16-bit value in every word of every capability set of the sample demand-active, and of an
/// all-zero body of every capability type 0..=31 at its canonical length
fn cap_words(part: usize, parts: usize) -> impl Iterator<Item = CapCase> {
    let mut bases: Vec<(u16, Vec<u8>)> = wire::sample_server_caps();
    let known: Vec<(u16, usize)> = bases.iter().map(|(t, b)| (*t, b.len())).collect();
    for (t, l) in known {
        bases.push((t, vec![0u8; l]));
    }
    let mut slots = Vec::new();
    for (bi, (_, body)) in bases.iter().enumerate() {
        for w in 0..body.len() / 2 {
            slots.push((bi, w));
        }
    }
    slots.into_iter().enumerate().filter(move |(i, _)| i % parts == part).flat_map(move |(_, (bi, w))| {
        let (t, body) = bases[bi].clone();
        (0..=0xFFFFu32).map(move |v| {
            let mut b = body.clone();
            b[2 * w] = v as u8;
            b[2 * w + 1] = (v >> 8) as u8;
            CapCase { cap_type: t, length: (b.len() + 4) as u16, body: b }
        })
    })
}

pub fn decode_cap(s: &mut Src) -> CapCase {
    let caps = wire::sample_server_caps();
    let (t, mut body) = if s.chance(200) { s.pick(&caps) } else { (s.b16() as u16, Vec::new()) };
    if s.chance(64) {
        let n = s.below(120);
        body = s.bytes(n);
    }
    for _ in 0..s.below(4) {
        if !body.is_empty() {
            let i = s.below(body.len());
            body[i] = s.u8();
        }
    }
    let length = if s.chance(200) { (body.len() + 4) as u16 } else { s.b16() as u16 };
    let t = if s.chance(32) { s.b16() as u16 } else { t };
    CapCase { cap_type: t, length, body }
}

pub fn check06(rep: &Report) {
    rep.assume("error kinds are never asserted; only Ok/Err versus panic / spin / disproportionate allocation");
    let tier = rep.tier;
    rep.enumerate("field-sweep", true, move |p, n| sweep06(tier, p, n), run06);
    rep.enumerate("short-strings", true, short_strings06, run06);
    rep.list("batched-frames", batches06(), run06);
    rep.enumerate("accepted-values-then-pdu", true, accepted_then_pdu, run06);
    rep.require("accepted-values-then-pdu", "act:accepted", 20000);
    rep.enumerate("capability-words", true, cap_words, run_cap);
    rep.random("capability-sets", rep.tier.n(200_000, 4_000_000), 160, decode_cap, run_cap);
    rep.random("faults", rep.tier.n(100_000, 6_000_000), 120, decode06, run06);
    rep.require("faults", "batch", 3000);
    rep.require("faults", "other-capability-list", 3000);
    for st in ["state0-demand", "state1-sync", "state2-coop", "state3-granted", "state4-fontmap", "state5-active"] {
        rep.require("faults", st, 5000);
    }
    rep.require("faults", "act:accepted", 300);
}
