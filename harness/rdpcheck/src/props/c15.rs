//! C15 — NTLMv2 AUTHENTICATE tokens are accepted by an independent MS-NLMP server.
use crate::util::{call, fail_panic, hexs, Res};
use engine::{Outcome, Report, Src};
use rdp::nla::ntlm::Ntlm;
use rdp::nla::sspi::AuthenticationProtocol;
use refimpl::crypto::{self, SealCtx};
use refimpl::ntlm::{self, Account, Challenge};
use serde::{Deserialize, Serialize};

pub const LEVEL: &str = "exploration";
pub const RULE: &str = "case = (domain, user, password or NT hash; CHALLENGE with an 8-byte server challenge, target name, a random subset and order of AV pairs 1..10 always containing MsvAvTimestamp, flags = mandatory set plus a random subset of VERSION / UNICODE / 56 / REQUEST_TARGET / TARGET_TYPE_*, payload order and padding variants). Oracle = independent MS-NLMP server verification given only the three messages and the account's NT hash: all offset/length pairs inside the token and non-overlapping, user/domain decode to the account, NTProofStr verifies, client-challenge blob well formed with the server's timestamp and AV pairs, LM response Z(24) or valid LMv2, RC4-wrapped session key unwraps, MIC verifies over the three messages; then a message sealed by build_security_interface() unseals under keys derived from the unwrapped session key. hash-login and password-login verify against the same account. edge-code-points puts each code point at the edges of the UTF-8 / UTF-16 forms (U+7F/80, U+7FF/800, U+D7FF/E000, U+FFFF/10000/10001, U+10FFFF ...) into each identity field at each position; one case in six lets the same context answer one or two earlier CHALLENGEs first (re-authentication) and verifies the last handshake; magic-names-and-secret-changes: names with a meaning of their own ('.', '..', 'localhost', '*', ...) in each identity field against target information with and without the computer / domain name pairs; a context for the same identity with ANOTHER secret used on the same thread just before (one case in six of the generated ones too). large-fields: domain / user names of up to 32767 characters and target information of up to 65 000 bytes (every field fits its 16-bit length, the payload crosses 64 KiB); one case in six hands the context a refused CHALLENGE (no timestamp, truncated, offset outside the message, no target information) before the real one; matrix enumerates every subset of the five optional flags x every subset of the nine optional AV pairs x both payload orders, and every (user length, domain length) and (user length, password length) pair in 0..=40. Non-trivial = non-empty credentials and >= 2 AV pairs; distinct by hash of the case.";

#[derive(Serialize, Deserialize, Hash, Clone, Debug)]
pub struct Case {
    pub domain: String,
    pub user: String,
    pub password: String,
    pub from_hash: bool,
    pub challenge: Challenge,
    pub message: Vec<u8>,
    /// CHALLENGE messages the same context has already answered before the one that is verified (re-authentication on one context)
    #[serde(default)]
    pub earlier: Vec<Challenge>,
    /// byte strings the same context was handed as CHALLENGE before (refused ones: no timestamp, truncated, bad offsets);
    /// whatever it made of them, the token for the real CHALLENGE must verify
    #[serde(default)]
    pub earlier_raw: Vec<Vec<u8>>,
    /// a context for the SAME user and domain but this other password was created (and answered the CHALLENGE) on the same
    /// thread just before: a mistyped password, a password change
    #[serde(default)]
    pub other_secret_before: Option<String>,
}

/// the handshake part: returns the context and the exported session key the independent verifier recovered
pub fn handshake(c: &Case, out: &mut Outcome) -> Option<(Ntlm, Vec<u8>)> {
    out.nontrivial(!c.user.is_empty() && !c.password.is_empty() && c.challenge.target_info.len() >= 2);
    out.label(if c.from_hash { "from-hash" } else { "from-password" });
    if c.challenge.flags & ntlm::NEG_VERSION != 0 {
        out.label("version-flag");
    }
    if c.challenge.flags & ntlm::NEG_UNICODE != 0 {
        out.label("unicode-flag");
    }
    if !c.user.is_ascii() || !c.domain.is_ascii() || !c.password.is_ascii() {
        out.label("non-ascii");
    }
    if let Some(other) = &c.other_secret_before {
        out.label("same-identity-other-secret-before");
        let chal0 = ntlm::build_challenge(&c.challenge);
        let oh = crypto::nt_hash(other);
        let mut n0 = if c.from_hash { Ntlm::from_hash(c.domain.clone(), c.user.clone(), &oh) } else { Ntlm::new(c.domain.clone(), c.user.clone(), other.clone()) };
        let (r, _) = call(|| {
            n0.create_negotiate_message()?;
            n0.read_challenge_message(&chal0.bytes)
        });
        if let Res::Panic(p) = r {
            fail_panic(out, "read_challenge_message", &p);
            return None;
        }
    }
    let nt_hash = crypto::nt_hash(&c.password);
    let account = Account { domain: c.domain.clone(), user: c.user.clone(), nt_hash: nt_hash.clone() };
    let chal = ntlm::build_challenge(&c.challenge);
    let mut n = if c.from_hash { Ntlm::from_hash(c.domain.clone(), c.user.clone(), &nt_hash) } else { Ntlm::new(c.domain.clone(), c.user.clone(), c.password.clone()) };
    let (r, _) = call(|| n.create_negotiate_message());
    let nego = match r {
        Res::Ok(v) => v,
        Res::Err(e) => {
            out.fail("ntlm:negotiate-error", e);
            return None;
        }
        Res::Panic(p) => {
            fail_panic(out, "create_negotiate_message", &p);
            return None;
        }
    };
    if let Err(e) = ntlm::parse_negotiate(&nego) {
        out.fail("ntlm:negotiate-malformed", format!("{} ({})", e.0, hexs(&nego)));
        return None;
    }
    for (i, e) in c.earlier.iter().enumerate() {
        let eb = ntlm::build_challenge(e);
        let (r, _) = call(|| n.read_challenge_message(&eb.bytes));
        match r {
            Res::Ok(_) => {}
            Res::Err(err) => {
                if !e.target_info.iter().any(|(id, _)| *id == 7) {
                    out.label("no-timestamp-refused");
                    return None;
                }
                if e.flags & ntlm::MANDATORY != ntlm::MANDATORY {
                    out.label("reduced-flags-refused");
                    return None;
                }
                out.fail("ntlm:challenge-rejected", format!("conforming earlier CHALLENGE #{} rejected: {}; {:?}", i, err, e));
                return None;
            }
            Res::Panic(p) => {
                fail_panic(out, "read_challenge_message", &p);
                return None;
            }
        }
    }
    if !c.earlier.is_empty() {
        out.label("re-authentication");
    }
    for raw in c.earlier_raw.iter() {
        let (r, _) = call(|| n.read_challenge_message(raw));
        match r {
            Res::Panic(p) => {
                fail_panic(out, "read_challenge_message", &p);
                return None;
            }
            Res::Ok(_) => {
                out.label("earlier-raw-accepted");
            }
            Res::Err(_) => {
                out.label("after-refused-challenge");
            }
        }
    }
    let (r, _) = call(|| n.read_challenge_message(&chal.bytes));
    let auth = match r {
        Res::Ok(v) => v,
        Res::Err(e) => {
            if !c.challenge.target_info.iter().any(|(id, _)| *id == 7) {
                // the property quantifies over target-info blocks with a timestamp; without one a client may refuse. If it
                // answers, the token is verified like any other (the time stamp is then the client's own)
                out.label("no-timestamp-refused");
                return None;
            }
            if c.challenge.flags & ntlm::MANDATORY != ntlm::MANDATORY {
                // a client may insist on the session security it asked for; nothing to verify then
                out.label("reduced-flags-refused");
                return None;
            }
            out.fail("ntlm:challenge-rejected", format!("conforming CHALLENGE rejected: {}; {:?}", e, c.challenge));
            return None;
        }
        Res::Panic(p) => {
            fail_panic(out, "read_challenge_message", &p);
            return None;
        }
    };
    let v = match ntlm::verify_authenticate(&account, &nego, &chal.bytes, &c.challenge, &auth) {
        Ok(v) => v,
        Err(e) => {
            let class = e.split(':').next().unwrap_or("?").to_string();
            out.fail(format!("ntlm:verify:{}", class), format!("{}; AUTHENTICATE = {}", e, hexs(&auth)));
            return None;
        }
    };
    Some((n, v.exported_session_key.clone()))
}

pub fn run(c: &Case) -> Outcome {
    let mut out = Outcome::new();
    let (mut n, exported) = match handshake(c, &mut out) {
        Some(x) => x,
        None => return out,
    };
    // session security built from the handshake must interoperate with keys the verifier derives
    // full-strength keys; where the server did not offer 128-bit keys the weakened sealing keys of MS-NLMP 3.4.5.3 are as good
    let mut candidates = vec![crypto::session_keys(&exported)];
    if c.challenge.flags & ntlm::NEG_128 == 0 {
        out.label("no-128-bit-flag");
        candidates.push(crypto::session_keys_weakened(&exported, if c.challenge.flags & ntlm::NEG_56 != 0 { 7 } else { 5 }));
    }
    if c.challenge.flags & ntlm::MANDATORY != ntlm::MANDATORY {
        out.label("reduced-flags");
    }
    if !c.challenge.target_info.iter().any(|(id, _)| *id == 7) {
        out.label("no-timestamp-answered");
    }
    let (r, _) = call(|| {
        let mut si = n.build_security_interface();
        let a = si.gss_wrapex(&c.message)?;
        let b = si.gss_wrapex(&c.message)?;
        Ok((a, b))
    });
    match r {
        Res::Ok((a, b)) => {
            let ok = candidates.iter().any(|keys| {
                let mut ctx = SealCtx::new(&keys.client_sign, &keys.client_seal);
                ctx.unseal(&a).as_deref() == Some(&c.message[..]) && ctx.unseal(&b).as_deref() == Some(&c.message[..])
            });
            if !ok {
                out.fail("ntlm:session-keys", "messages sealed by build_security_interface() do not unseal under the keys derived from the exported session key");
            }
        }
        Res::Err(e) => {
            out.fail("ntlm:wrap-error", e);
        }
        Res::Panic(p) => fail_panic(&mut out, "build_security_interface/gss_wrapex", &p),
    }
    out
}

/// characters whose uppercase mapping is a single BMP code unit under every implementation we know of
/// names with a meaning of their own for some tool or server (local-account shorthand, wildcards, separators)
pub const MAGIC_NAMES: [&str; 14] = [".", "..", "\\", "@", ".\\", "localhost", "WORKGROUP", "-", "*", " ", "NT AUTHORITY", "$", "BUILTIN", "a@b"];

pub fn gen_name(s: &mut Src, max: usize) -> String {
    if s.chance(12) {
        return s.pick(&MAGIC_NAMES).to_string();
    }
    let n = match s.below(5) {
        0 => 0,
        _ => 1 + s.below(max),
    };
    let class = s.below(7);
    let mut out = String::new();
    for _ in 0..n {
        let c = match if class == 5 { s.below(5) } else { class } {
            6 => {
                if s.bool() {
                    s.pick(&crate::mem::EDGE_CHARS)
                } else {
                    (0x21 + s.below(0x5E) as u8) as char
                }
            }
            0 | 1 => (0x21 + s.below(0x5E) as u8) as char,
            2 => {
                // Latin-1 letters except µ, ß, ÿ and the multiplication / division signs
                let v = 0xC0 + s.below(0x3F) as u32;
                if v == 0xD7 || v == 0xDF || v == 0xF7 || v == 0xFF {
                    'É'
                } else {
                    char::from_u32(v).unwrap()
                }
            }
            3 => {
                // Greek alpha..omega without final sigma, Cyrillic a..ya
                if s.bool() {
                    let v = 0x3B1 + s.below(25) as u32;
                    char::from_u32(if v == 0x3C2 { 0x3C3 } else { v }).unwrap()
                } else {
                    char::from_u32(0x430 + s.below(32) as u32).unwrap()
                }
            }
            _ => {
                if s.bool() {
                    char::from_u32(0x4E00 + s.below(0x1000) as u32).unwrap()
                } else {
                    char::from_u32(0x1F600 + s.below(0x40) as u32).unwrap()
                }
            }
        };
        out.push(c);
    }
    out
}

pub fn gen_challenge(s: &mut Src, unicode_names: bool) -> Challenge {
    let mut flags = ntlm::MANDATORY;
    for f in [ntlm::NEG_VERSION, ntlm::NEG_56, ntlm::NEG_REQUEST_TARGET, ntlm::NEG_TARGET_TYPE_SERVER, ntlm::NEG_TARGET_TYPE_DOMAIN] {
        if s.bool() {
            flags |= f;
        }
    }
    // without the UNICODE flag names travel in the OEM code page: only ASCII identities are generated then
    if unicode_names || s.chance(200) {
        flags |= ntlm::NEG_UNICODE;
    }
    let ids = [1u16, 2, 3, 4, 5, 6, 8, 9, 10];
    let mut info: Vec<(u16, Vec<u8>)> = Vec::new();
    for id in ids {
        if s.chance(110) {
            let l = match s.below(4) {
                0 => 0,
                1 => 64,
                _ => s.below(33),
            };
            info.push((id, s.fill(l)));
        }
    }
    let ts_pos = s.below(info.len() + 1);
    info.insert(ts_pos, (7, s.bytes(8)));
    if s.chance(64) {
        info.reverse();
    }
    let tn = s.below(17);
    Challenge { flags, server_challenge: s.bytes(8), target_name: s.fill(tn * 2), target_info: info, version: vec![6, 1, 0xB1, 0x1D, 0, 0, 0, 15], payload_order: s.below(2) as u8, gap: s.pick(&[0u8, 0, 0, 1, 4, 8]), max_len_delta: s.pick(&[0u16, 0, 0, 1, 2, 8, 100]) }
}

/// a server that does not offer every optional capability the client asked for: flags whose absence leaves the NTLMv2
/// AUTHENTICATE computation as it is (key strength, signing / sealing, key exchange)
pub fn reduce_flags(mask: u8, c: &mut Challenge) {
    for (i, f) in [ntlm::NEG_128, ntlm::NEG_SEAL, ntlm::NEG_SIGN, ntlm::NEG_ALWAYS_SIGN, ntlm::NEG_KEY_EXCH, ntlm::NEG_56].iter().enumerate() {
        if mask & (1 << i) != 0 {
            c.flags &= !f;
        }
    }
}

pub fn decode(s: &mut Src) -> Case {
    let refused = s.chance(40);
    let other = s.chance(40);
    // (the subset is taken from two bytes and-ed: few flags dropped at a time more often than many)
    let reduce = if s.chance(64) { 1 + (s.u8() & s.u8() & 0x3F) } else { 0 };
    let no_timestamp = s.chance(20);
    let domain = gen_name(s, 16);
    let user = gen_name(s, 20);
    let password = crate::mem::gen_string(s, 32);
    let ascii = domain.is_ascii() && user.is_ascii();
    let mut challenge = gen_challenge(s, !ascii);
    if reduce > 0 {
        reduce_flags(reduce - 1, &mut challenge);
    }
    if no_timestamp {
        challenge.target_info.retain(|(id, _)| *id != 7);
    }
    let ml = s.below(64);
    let from_hash = s.chance(100);
    let message = s.fill(ml);
    let earlier = if s.chance(40) {
        let k = 1 + s.below(2);
        (0..k).map(|_| if s.bool() { challenge.clone() } else { gen_challenge(s, !ascii || challenge.flags & ntlm::NEG_UNICODE != 0) }).collect()
    } else {
        Vec::new()
    };
    let mut earlier_raw = Vec::new();
    if refused {
        let mut bad = challenge.clone();
        let b = match s.below(4) {
            0 => {
                bad.target_info.retain(|(id, _)| *id != 7);
                ntlm::build_challenge(&bad).bytes
            }
            1 => {
                let full = ntlm::build_challenge(&bad).bytes;
                let k = 32 + s.below(full.len().saturating_sub(32).max(1));
                full[..k.min(full.len())].to_vec()
            }
            2 => {
                let mut full = ntlm::build_challenge(&bad).bytes;
                // TargetInfoBufferOffset far outside the message
                if full.len() > 48 {
                    full[44..48].copy_from_slice(&0x00FF_FFFFu32.to_le_bytes());
                }
                full
            }
            _ => {
                bad.target_info.clear();
                ntlm::build_challenge(&bad).bytes
            }
        };
        earlier_raw.push(b);
    }
    let other_secret_before = if other { Some(format!("{}x", password)) } else { None };
    Case { domain, user, password, from_hash, challenge, message, earlier, earlier_raw, other_secret_before }
}

/// every subset of the optional flags x every subset of the optional AV pairs x both payload orders, and
/// identities of every length 0..=40 (user, domain, password independently at the edges)
fn matrix(part: usize, parts: usize) -> impl Iterator<Item = Case> {
    let flags = [ntlm::NEG_VERSION, ntlm::NEG_56, ntlm::NEG_REQUEST_TARGET, ntlm::NEG_TARGET_TYPE_SERVER, ntlm::NEG_TARGET_TYPE_DOMAIN];
    let ids = [1u16, 2, 3, 4, 5, 6, 8, 9, 10];
    let n_flag_av = 32 * 512 * 2;
    let n_len = 41 * 41 * 2;
    (part..n_flag_av + n_len).step_by(parts).map(move |i| {
        let mut c = Case {
            domain: "Domain".into(),
            user: "User".into(),
            password: "Password".into(),
            from_hash: i % 3 == 0,
            challenge: Challenge { flags: ntlm::MANDATORY | ntlm::NEG_UNICODE, server_challenge: vec![1, 2, 3, 4, 5, 6, 7, 8], target_name: refimpl::crypto::utf16le("SRV"), target_info: Vec::new(), version: vec![6, 1, 0xB1, 0x1D, 0, 0, 0, 15], payload_order: 0, gap: 0, max_len_delta: 0 },
            message: vec![0x42; 9],
            earlier: Vec::new(),
            earlier_raw: Vec::new(),
            other_secret_before: None,
        };
        if i < n_flag_av {
            let fm = i % 32;
            let am = (i / 32) % 512;
            c.challenge.payload_order = (i / (32 * 512)) as u8;
            for (k, f) in flags.iter().enumerate() {
                if fm >> k & 1 == 1 {
                    c.challenge.flags |= f;
                }
            }
            for (k, id) in ids.iter().enumerate() {
                if am >> k & 1 == 1 {
                    c.challenge.target_info.push((*id, vec![(k as u8) ^ 0x30; (k * 5) % 23]));
                }
            }
            let pos = (i / 7) % (c.challenge.target_info.len() + 1);
            c.challenge.target_info.insert(pos, (7, vec![0x11, 0x22, 0x33, 0x44, 0x55, 0x66, 0x77, 0x01]));
        } else {
            let j = i - n_flag_av;
            let (a, b, which) = (j % 41, (j / 41) % 41, j / (41 * 41));
            let mk = |n: usize, base: char| -> String { (0..n).map(|k| char::from_u32(base as u32 + (k % 26) as u32).unwrap()).collect() };
            c.user = mk(a, 'a');
            if which == 0 {
                c.domain = mk(b, 'A');
            } else {
                c.password = mk(b, 'p');
            }
            c.challenge.target_info = vec![(2, refimpl::crypto::utf16le("DOM")), (7, vec![9; 8]), (1, refimpl::crypto::utf16le("SRV"))];
        }
        c
    })
}

pub fn check(rep: &Report) {
    rep.assume("user names use characters whose uppercase mapping is one BMP code unit under Unicode and Windows alike (no sharp s, ligatures, final sigma, cased supplementary-plane letters)");
    rep.assume("the MIC is located as the 16 bytes between the fixed header implied by the flags and the first payload byte (the client omits the Version field when the flag is off)");
    rep.assume("without NTLMSSP_NEGOTIATE_UNICODE only ASCII identities are generated (OEM code page undefined)");
    rep.assume("the trailing Z(4) of the NTLMv2 client challenge is optional");
    rep.enumerate("matrix", true, matrix, run);
    // every edge code point of the encoding forms, in each identity field and at each position of a short string
    let mut edges = Vec::new();
    for ch in crate::mem::EDGE_CHARS {
        for field in 0..3 {
            for pos in 0..3 {
                for from_hash in [false, true] {
                    let mut c = matrix(0, 1).next().unwrap();
                    c.from_hash = from_hash;
                    let mut base: Vec<char> = "ab".chars().collect();
                    base.insert(pos, ch);
                    let v: String = base.into_iter().collect();
                    match field {
                        0 => c.password = v,
                        1 => c.user = v,
                        _ => c.domain = v,
                    }
                    edges.push(c);
                }
            }
        }
    }
    rep.list("edge-code-points", edges, run);
    // names with a meaning of their own in each identity field, against target information with and without each name pair;
    // and the same identity with another secret used just before on the same thread (password and hash logons)
    let mut magic = Vec::new();
    for name in MAGIC_NAMES {
        for field in 0..3 {
            for info in 0..4 {
                for from_hash in [false, true] {
                    let mut c = matrix(0, 1).next().unwrap();
                    c.from_hash = from_hash;
                    match field {
                        0 => c.password = name.to_string(),
                        1 => c.user = name.to_string(),
                        _ => c.domain = name.to_string(),
                    }
                    c.challenge.target_info = match info {
                        0 => vec![(7, vec![5; 8])],
                        1 => vec![(1, refimpl::crypto::utf16le("SERVER1")), (7, vec![5; 8])],
                        2 => vec![(2, refimpl::crypto::utf16le("DOM")), (1, refimpl::crypto::utf16le("SERVER1")), (3, refimpl::crypto::utf16le("server1.dom.local")), (4, refimpl::crypto::utf16le("dom.local")), (7, vec![5; 8])],
                        _ => vec![(7, vec![5; 8]), (9, refimpl::crypto::utf16le("TERMSRV/server1")), (6, vec![2, 0, 0, 0])],
                    };
                    magic.push(c);
                }
            }
        }
    }
    for from_hash in [false, true] {
        for (a, b) in [("Password", "Passw0rd"), ("", "x"), ("x", ""), ("p1", "p2"), ("same", "same")] {
            let mut c = matrix(0, 1).next().unwrap();
            c.from_hash = from_hash;
            c.password = b.to_string();
            c.other_secret_before = Some(a.to_string());
            magic.push(c);
        }
    }
    rep.list("magic-names-and-secret-changes", magic, run);
    // long fields: every field still fits its 16-bit length, but the payload as a whole crosses 64 KiB
    let mut large = Vec::new();
    for (dl, ul, til) in [(20000usize, 13000usize, 40usize), (3000, 1000, 59000), (32767, 0, 40), (0, 32767, 40), (16384, 16384, 40), (100, 100, 65000), (10000, 10000, 20000), (32767, 32767, 65000), (1, 1, 65400), (16000, 16000, 1000), (8192, 8192, 32768)] {
        for from_hash in [false, true] {
            for version in [false, true] {
                let mut c = matrix(0, 1).next().unwrap();
                c.domain = "D".repeat(dl);
                c.user = "u".repeat(ul);
                c.from_hash = from_hash;
                if version {
                    c.challenge.flags |= ntlm::NEG_VERSION;
                }
                c.challenge.target_info = vec![(7, vec![3; 8]), (2, vec![0x42; til])];
                large.push(c);
            }
        }
    }
    rep.list("large-fields", large, run);
    rep.random("tokens", rep.tier.n(300_000, 6_000_000), 200, decode, run);
    rep.require("tokens", "from-hash", 2000);
    rep.require("tokens", "reduced-flags", 2000);
    rep.require("tokens", "version-flag", 2000);
    rep.require("tokens", "non-ascii", 2000);
    rep.require("tokens", "re-authentication", 2000);
    rep.require("tokens", "after-refused-challenge", 2000);
    rep.require("tokens", "same-identity-other-secret-before", 2000);
}
