//! C10 — Every bitmap rectangle the server sends reaches the application exactly once.
use crate::mem::{self, ClientCfg};
use crate::util::{call, fail_panic, hexs, Res};
use engine::{Outcome, Report, Src};
use rdp::core::event::RdpEvent;
use refimpl::server::ServerProfile;
use refimpl::wire::{self, FpUpdate, Rect};
use serde::{Deserialize, Serialize};

pub const LEVEL: &str = "exploration";
pub const RULE: &str = "aligned-sizes: PDUs whose frame / body / bitmap data size is 1024, 1500, 2048, 4096, k x 8192, 32764 (+-3), each followed by further PDUs already in the stream (queued delivery: a reader that reads too far swallows the next PDU); server-variants: 256 variants of what the server said during connection setup (reported version, maximum MCS PDU size down to 1056, capability list order / subsets, general extraFlags with and without NO_BITMAP_COMPRESSION_HDR / FASTPATH_OUTPUT) x rectangles of every flag combination and PDUs above the negotiated MCS PDU size; after-malformed-update: a bitmap-coded update whose updateType is not 1 (what the client makes of that PDU is not asserted; if it goes on, the following PDUs must be exact). case = sequence of 1..8 fast-path output PDUs, each with 0..6 updates (bitmap with 0..5 rectangles, synchronize, pointer-null, well-formed colour pointer, and unsupported/unknown update codes), every rectangle field a boundary-biased u16 (a third of the rectangles instead coherent: uncompressed tiles of 1..12 x 1..8 pixels at 8/15/16/24/32 bpp whose data length is exactly rows x padded width x bytes per pixel, all rows different), flags in {0, 0x0001 with TS_CD_HEADER, 0x0401, 0x0400}, data lengths 0..largest that fits, short and long fast-path length forms, free numEvents/flag bits. Oracle: the list of RdpEvent::Bitmap values passed to the callback equals, element for element and in order, the rectangles of the reference fast-path description (position, size, bpp, compression bit, data); no other event is produced; every read returns Ok. Non-trivial = a PDU with >= 2 updates, >= 2 rectangles, or a non-bitmap update before a bitmap one; distinct by hash of the case.";

#[derive(Serialize, Deserialize, Hash, Clone, Debug)]
pub struct Pdu {
    pub updates: Vec<FpUpdate>,
    pub first: u8,
    pub long_len: bool,
}

#[derive(Serialize, Deserialize, Hash, Clone, Debug)]
pub struct Case {
    pub pdus: Vec<Pdu>,
    pub chunk: u16,
    pub user_id: u16,
    /// all PDUs are in the stream before the first read (what follows a PDU is then visible to a reader that reads too far)
    #[serde(default)]
    pub queued: bool,
    /// what the server said while the connection was set up (0 = the usual server): reported version, negotiated maximum MCS
    /// PDU size, capability list of the demand-active (order, subsets, general extraFlags) — none of it changes what a
    /// fast-path bitmap update means
    #[serde(default)]
    pub server: u8,
}

/// the server profile of a variant: fast-path delivery must not depend on it
pub fn profile_of(variant: u8, user_id: u16, share: u32) -> ServerProfile {
    let mut p = ServerProfile::simple(user_id, share);
    if variant == 0 {
        return p;
    }
    let v = variant as usize;
    p.ccrsp = crate::props::c12::profile_of((v % 8) as u8).ccrsp;
    p.domain_params[6] = [0xfff8u32, 0xffff, 0x420, 1056, 0x1000, 0x7fff, 0x4000, 0x10000][(v / 3) % 8];
    p.domain_params[0] = [34u32, 22, 3, 0xffff][(v / 5) % 4];
    let mut caps = crate::props::hostile::caps_variant((v % 10) as u8);
    // the general capability set's extraFlags: without NO_BITMAP_COMPRESSION_HDR, without FASTPATH_OUTPUT, zero, all ones
    let extra = [0x041du16, 0x001d, 0x0000, 0x0401, 0xffff, 0x0400][(v / 7) % 6];
    for (t, body) in caps.iter_mut() {
        if *t == 1 && body.len() >= 12 {
            body[10] = extra as u8;
            body[11] = (extra >> 8) as u8;
        }
    }
    if (v / 11) % 3 == 1 {
        caps.retain(|(t, _)| *t != 1);
    }
    p.activations[0].caps = caps;
    p
}

/// a PDU with a bitmap-coded update that is not a bitmap update (updateType != 1): what the client makes of that PDU is
/// not asserted (it may skip the update, drop the PDU or fail), but if it goes on, the PDUs after it must be exact
fn is_hostile(p: &Pdu) -> bool {
    p.updates.iter().any(|u| matches!(u, FpUpdate::Other { code, .. } if code & 0xF == 1))
}

#[derive(Debug, PartialEq, Eq)]
struct Ev {
    l: u16,
    t: u16,
    r: u16,
    b: u16,
    w: u16,
    h: u16,
    bpp: u16,
    comp: bool,
    data: Vec<u8>,
}

pub fn run(c: &Case) -> Outcome {
    let mut out = Outcome::new();
    let mut nt = false;
    for p in &c.pdus {
        let nb = p.updates.iter().filter(|u| matches!(u, FpUpdate::Bitmap(_))).count();
        if p.updates.len() >= 2 || p.updates.iter().any(|u| matches!(u, FpUpdate::Bitmap(r) if r.len() >= 2)) {
            nt = true;
        }
        if let Some(i) = p.updates.iter().position(|u| matches!(u, FpUpdate::Bitmap(_))) {
            if i > 0 {
                out.label("non-bitmap-before-bitmap");
            }
        }
        if nb >= 2 {
            out.label("multi-bitmap-update");
        }
        if p.long_len {
            out.label("long-length-form");
        }
    }
    out.nontrivial(nt);
    if c.server != 0 {
        out.label("other-server-profile");
    }
    let (mut conn, h) = match mem::activated_session(&ClientCfg::simple(), profile_of(c.server, c.user_id, 0x1234_5678)) {
        Ok(x) => x,
        Err(e) => {
            out.fail("panic:HARNESS-FAULT c10 session setup", e);
            return out;
        }
    };
    h.borrow_mut().chunk = c.chunk as usize;
    let mut want: Vec<Ev> = Vec::new();
    let mut got: Vec<Ev> = Vec::new();
    let mut others = 0usize;
    if c.queued {
        out.label("queued");
        for p in c.pdus.iter() {
            let frame = wire::fast_path_pdu(&p.updates, p.first, p.long_len);
            if frame.bytes.len() <= 0x7FFF {
                h.borrow_mut().push(&frame.bytes);
            }
        }
    }
    for (i, p) in c.pdus.iter().enumerate() {
        let frame = wire::fast_path_pdu(&p.updates, p.first, p.long_len);
        if frame.bytes.len() > 0x7FFF {
            continue;
        }
        let hostile = is_hostile(p);
        if hostile {
            out.label("malformed-bitmap-update");
        }
        let got_before = got.len();
        if !hostile {
            for u in &p.updates {
                if let FpUpdate::Bitmap(rects) = u {
                    for r in rects {
                        want.push(Ev { l: r.left, t: r.top, r: r.right, b: r.bottom, w: r.width, h: r.height, bpp: r.bpp, comp: r.flags & 1 != 0, data: r.data.clone() });
                    }
                }
            }
        }
        if !c.queued {
            h.borrow_mut().push(&frame.bytes);
        }
        let (r, _) = call(|| {
            conn.client.read(|e| match e {
                RdpEvent::Bitmap(b) => got.push(Ev { l: b.dest_left, t: b.dest_top, r: b.dest_right, b: b.dest_bottom, w: b.width, h: b.height, bpp: b.bpp, comp: b.is_compress, data: b.data }),
                _ => others += 1,
            })
        });
        match r {
            Res::Ok(()) => {
                if hostile {
                    // whatever it delivered for the malformed PDU is not asserted
                    got.truncate(got_before);
                }
            }
            Res::Err(_) if hostile => {
                // a refusal ends the session: nothing further is asserted
                return out;
            }
            Res::Err(e) => {
                out.fail("fastpath:read-error", format!("read of fast-path PDU #{} failed: {}; frame {}", i, e, hexs(&frame.bytes)));
                return out;
            }
            Res::Panic(p) => {
                fail_panic(&mut out, "RdpClient::read(fast-path)", &p);
                return out;
            }
        }
        if got.len() != want.len() || got.last() != want.last() {
            break;
        }
    }
    if others > 0 {
        // events of other kinds (a client may report pointer updates to the application) are not the property's business
        out.label("non-bitmap-events-delivered");
    }
    if got != want {
        let i = got.iter().zip(want.iter()).position(|(a, b)| a != b).unwrap_or(got.len().min(want.len()));
        let kind = if got.len() < want.len() && i == got.len() {
            "missing"
        } else if got.len() > want.len() && i == want.len() {
            "extra"
        } else {
            match (got.get(i), want.get(i)) {
                (Some(a), Some(b)) if a.data != b.data && (a.l, a.t, a.r, a.b, a.w, a.h, a.bpp, a.comp) == (b.l, b.t, b.r, b.b, b.w, b.h, b.bpp, b.comp) => "data",
                _ => "fields",
            }
        };
        out.fail(format!("fastpath:events-differ:{}", kind), format!("{} events delivered, {} rectangles sent; first difference at #{}: got {:?} want {:?}", got.len(), want.len(), i, got.get(i).map(|e| (e.l, e.t, e.r, e.b, e.w, e.h, e.bpp, e.comp, e.data.len())), want.get(i).map(|e| (e.l, e.t, e.r, e.b, e.w, e.h, e.bpp, e.comp, e.data.len()))));
    }
    out
}

fn gen_rect(s: &mut Src, budget: &mut usize) -> Rect {
    // a third of the rectangles are what a real server sends: geometry, depth and data length agree (uncompressed rows of
    // width x bytes-per-pixel, all rows different), so that code which treats well-formed tiles specially is exercised
    if s.chance(85) {
        let w = 1 + s.below(12);
        let h = 1 + s.below(8);
        let bpp = s.pick(&[32u16, 32, 16, 16, 24, 15, 8]);
        let bytes = (bpp as usize + 7) / 8;
        let pad = if s.chance(64) { (4 - w % 4) % 4 } else { 0 };
        let len = (w + pad) * h * bytes;
        if len + 40 <= *budget {
            *budget -= len + 40;
            let salt = s.u8() as usize;
            let left = s.below(2000) as u16;
            let top = s.below(1200) as u16;
            let data: Vec<u8> = (0..len).map(|k| ((k * 37 + salt) ^ (k >> 8)) as u8).collect();
            return Rect { left, top, right: left + w as u16 - 1, bottom: top + h as u16 - 1, width: (w + pad) as u16, height: h as u16, bpp, flags: s.pick(&[0u16, 0, 0x0400]), cd_scan_width: 0, cd_uncompressed: 0, data };
        }
    }
    let flags = s.pick(&[0u16, 0x0001, 0x0401, 0x0400, 0x0001, 0]);
    let maxd = (*budget).min(0x7000);
    let len = match s.below(10) {
        0 => 0,
        1 => 1,
        2 => s.pick(&[2usize, 7, 8, 9, 255, 256]).min(maxd),
        3 => maxd.min(s.below(0x7000)),
        _ => s.below(64).min(maxd),
    };
    *budget = budget.saturating_sub(len + 40);
    Rect { left: s.b16(), top: s.b16(), right: s.b16(), bottom: s.b16(), width: s.b16(), height: s.b16(), bpp: s.pick(&[16u16, 32, 24, 15, 8, 0, 0xFFFF]), flags, cd_scan_width: s.b16(), cd_uncompressed: s.b16(), data: s.fill(len) }
}

fn gen_update(s: &mut Src, budget: &mut usize) -> FpUpdate {
    match s.below(10) {
        0 | 1 | 2 | 3 | 4 => {
            let n = s.below(6);
            FpUpdate::Bitmap((0..n).map(|_| gen_rect(s, budget)).collect())
        }
        5 => FpUpdate::Synchronize,
        6 => FpUpdate::PointerNull,
        7 => {
            let a = s.below(40).min(*budget / 2);
            let x = s.below(40).min(*budget / 2);
            *budget = budget.saturating_sub(a + x + 20);
            FpUpdate::ColorPointer { cache: s.b16(), hot: s.u32(), width: s.b16(), height: s.b16(), and_mask: s.fill(a), xor_mask: s.fill(x), pad: s.bool() }
        }
        _ => {
            // orders, palette, surface commands, pointer position, cached / new pointer, default pointer, undefined codes
            let code = s.pick(&[0u8, 2, 4, 6, 8, 0xA, 0xB, 7, 0xC, 0xD, 0xE, 0xF, 1]);
            let l = s.below(24).min(*budget);
            *budget = budget.saturating_sub(l + 3);
            let mut body = s.fill(l);
            if code == 1 && body.len() >= 2 && body[0] == 1 && body[1] == 0 {
                // must not be a bitmap update by accident
                body[0] = 2;
            }
            FpUpdate::Other { code, body }
        }
    }
}

/// "many": PDUs with hundreds of updates and bitmap updates with hundreds of tiny rectangles
fn many_case(n_updates: usize, n_rects: usize, user_id: u16) -> Case {
    let tiny = |i: usize| Rect { left: i as u16, top: (i >> 3) as u16, right: i as u16, bottom: 0, width: 1, height: 1, bpp: 16, flags: 0, cd_scan_width: 0, cd_uncompressed: 0, data: vec![i as u8, (i >> 8) as u8] };
    let mut updates: Vec<FpUpdate> = Vec::new();
    for i in 0..n_updates.saturating_sub(1) {
        updates.push(if i % 3 == 0 { FpUpdate::Bitmap(vec![tiny(i)]) } else if i % 3 == 1 { FpUpdate::Synchronize } else { FpUpdate::PointerNull });
    }
    updates.push(FpUpdate::Bitmap((0..n_rects).map(|i| tiny(10_000 + i)).collect()));
    Case { pdus: vec![Pdu { updates, first: 0, long_len: true }, Pdu { updates: vec![FpUpdate::Bitmap(vec![tiny(7)])], first: 0, long_len: false }], chunk: 0, user_id, queued: false, server: 0 }
}

/// the generator without the PDUs of hundreds of elements (each costs milliseconds: a coverage-guided campaign that
/// keeps them in its corpus crawls); those are covered by the many-elements section and by `decode`
pub fn decode_light(s: &mut Src) -> Case {
    decode_inner(s, false)
}

pub fn decode(s: &mut Src) -> Case {
    decode_inner(s, true)
}

fn decode_inner(s: &mut Src, many: bool) -> Case {
    if many && s.chance(2) {
        let nu = s.pick(&[1usize, 2, 255, 256, 257, 300, 600]);
        let nr = s.pick(&[1usize, 255, 256, 257, 300, 511, 512, 513, 900]);
        // the PDU must fit the 15-bit fast-path length
        let (nu, nr) = if nu * 8 + nr * 20 > 0x7000 { (nu.min(2), nr.min(900)) } else { (nu, nr) };
        return many_case(nu, nr, 1004);
    }
    let queued = s.chance(100);
    let server = if s.chance(100) { s.u8() } else { 0 };
    let n = 1 + s.below(8);
    let mut pdus = Vec::new();
    for _ in 0..n {
        let k = s.below(7);
        let mut budget = 0x7F00usize;
        let updates = (0..k).map(|_| gen_update(s, &mut budget)).collect();
        pdus.push(Pdu { updates, first: s.u8() & 0x3C, long_len: s.bool() });
    }
    Case { pdus, chunk: s.pick(&[0u16, 0, 1, 5, 1460]), user_id: s.pick(&[1004u16, 1001, 65535, 0x8000]), queued, server }
}

/// the same streams through the real entry point: Connector::connect over TLS, fast-path PDUs sent by the server
/// thread right after the activation, cut into TLS records of `chunk` bytes
pub fn run_tls(c: &Case) -> Outcome {
    use crate::tls::{self, FinalReply, NlaCfg, TlsServerCfg};
    let mut out = Outcome::new();
    out.nontrivial(true);
    let mut profile = ServerProfile::simple(c.user_id, 0x0BAD_CAFE);
    let mut want: Vec<Ev> = Vec::new();
    for p in &c.pdus {
        let frame = wire::fast_path_pdu(&p.updates, p.first, p.long_len);
        if frame.bytes.len() > 0x7FFF {
            continue;
        }
        for u in &p.updates {
            if let FpUpdate::Bitmap(rects) = u {
                for r in rects {
                    want.push(Ev { l: r.left, t: r.top, r: r.right, b: r.bottom, w: r.width, h: r.height, bpp: r.bpp, comp: r.flags & 1 != 0, data: r.data.clone() });
                }
            }
        }
        profile.post_activation.push(frame.bytes);
    }
    let n = profile.post_activation.len();
    let cfg = ClientCfg { nla: false, ..ClientCfg::simple() };
    let scfg = TlsServerCfg { identity: 1, reply: refimpl::wire::NegReply::Response { flags: 0, selected: 1 }, nla: None::<NlaCfg>, profile, record_cut: c.chunk };
    let _ = FinalReply::Honest;
    // events are collected through a shared cell because run_tls owns the read loop
    let got: std::cell::RefCell<Vec<Ev>> = std::cell::RefCell::new(Vec::new());
    let run = tls::run_tls_with_events(&cfg, &scfg, 5 + n, true, &mut |b: rdp::core::event::BitmapEvent| {
        got.borrow_mut().push(Ev { l: b.dest_left, t: b.dest_top, r: b.dest_right, b: b.dest_bottom, w: b.width, h: b.height, bpp: b.bpp, comp: b.is_compress, data: b.data })
    });
    if run.client_timeout || run.report.timeout {
        out.fail("inconclusive:timeout", "a socket timeout hit; not counted as a violation");
        return out;
    }
    match &run.connect {
        Res::Ok(()) => {}
        Res::Err(e) => {
            out.fail("fastpath:tls:connect-error", e.clone());
            return out;
        }
        Res::Panic(p) => {
            fail_panic(&mut out, "Connector::connect", p);
            return out;
        }
    }
    for r in &run.reads {
        match r {
            Res::Ok(()) => {}
            Res::Err(e) => {
                out.fail("fastpath:tls:read-error", format!("read failed: {}", e));
                return out;
            }
            Res::Panic(p) => {
                fail_panic(&mut out, "RdpClient::read", p);
                return out;
            }
        }
    }
    let got = got.into_inner();
    if got != want {
        out.fail("fastpath:tls:events-differ", format!("{} events delivered through TLS, {} rectangles sent", got.len(), want.len()));
    }
    out
}

pub fn check(rep: &Report) {
    rep.assume("updates are uncompressed and unfragmented (the property's stated domain); fast-path security flags are 0 (TLS)");
    rep.assume("unsupported update kinds carry opaque bodies; the client is only required to skip them");
    let mut many = Vec::new();
    for n in [254usize, 255, 256, 257, 258, 300, 511, 512, 513, 1000, 1500] {
        many.push(many_case(1, n, 1004));
        many.push(many_case(n.min(1200), 3, 1004));
    }
    rep.list("many-elements", many, run);
    // PDUs whose size sits on round numbers (frame, body and bitmap data sizes of 2^k, k x 8192, 1500 ...), each followed by
    // another PDU that is already in the stream
    let mut aligned = Vec::new();
    let one = |len: usize, i: u16| FpUpdate::Bitmap(vec![Rect { left: i, top: 1, right: i + 3, bottom: 2, width: 4, height: 2, bpp: 32, flags: 0, cd_scan_width: 0, cd_uncompressed: 0, data: (0..len).map(|j| (j as u8) ^ (i as u8)).collect() }]);
    let overhead = wire::fast_path_pdu(&[one(0, 0)], 0, true).bytes.len();
    for target in [1024usize, 1500, 2048, 4096, 8192, 12288, 16384, 24576, 32764] {
        for delta in [-3i64, -2, -1, 0, 1, 2, 3] {
            // the target is met once by the frame, once by the body behind the 3-byte header, once by the data itself
            for adjust in [overhead as i64, overhead as i64 - 3, 0] {
                let len = target as i64 + delta - adjust;
                if len < 0 || len as usize + overhead > 0x7FFF {
                    continue;
                }
                let pdus = vec![
                    Pdu { updates: vec![one(len as usize, 1)], first: 0, long_len: true },
                    Pdu { updates: vec![one(8, 2)], first: 0, long_len: false },
                    Pdu { updates: vec![one(len as usize, 3), FpUpdate::Synchronize], first: 0, long_len: true },
                    Pdu { updates: vec![one(8, 4)], first: 0, long_len: true },
                ];
                for (queued, chunk) in [(true, 0u16), (true, 1460), (false, 0)] {
                    aligned.push(Case { pdus: pdus.clone(), chunk, user_id: 1004, queued, server: 0 });
                }
            }
        }
    }
    rep.list("aligned-sizes", aligned, run);
    // a bitmap-coded update that is not a bitmap update, followed by valid ones in later PDUs (twice, with the same and with another type)
    let mut mal = Vec::new();
    for ty in [0u8, 2, 3, 0xFF] {
        for second in [ty, ty ^ 1] {
            for body_len in [2usize, 4, 30] {
                let bad = |t: u8| {
                    let mut b = vec![t, 0];
                    b.resize(body_len, 0x11);
                    FpUpdate::Other { code: 1, body: b }
                };
                let pdus = vec![
                    Pdu { updates: vec![one(8, 1)], first: 0, long_len: false },
                    Pdu { updates: vec![bad(ty)], first: 0, long_len: false },
                    Pdu { updates: vec![one(8, 2)], first: 0, long_len: false },
                    Pdu { updates: vec![bad(second)], first: 0, long_len: false },
                    Pdu { updates: vec![one(12, 3), one(4, 4)], first: 0, long_len: false },
                    Pdu { updates: vec![one(8, 5)], first: 0, long_len: false },
                ];
                mal.push(Case { pdus, chunk: 0, user_id: 1004, queued: false, server: 0 });
            }
        }
    }
    rep.list("after-malformed-update", mal, run);
    // every server variant x rectangles of every flag combination and of sizes below / above the negotiated MCS PDU size
    let mut sv = Vec::new();
    for server in 0..=255u8 {
        let rect = |flags: u16, len: usize, i: u16| Rect { left: i, top: 2, right: i + 1, bottom: 3, width: 2, height: 2, bpp: 16, flags, cd_scan_width: 4, cd_uncompressed: 8, data: (0..len).map(|j| (j as u8).wrapping_mul(3) | 1).collect() };
        let pdus = vec![
            Pdu { updates: vec![FpUpdate::Bitmap(vec![rect(0x0401, 24, 1), rect(0x0001, 24, 2), rect(0, 8, 3), rect(0x0400, 9, 4)])], first: 0, long_len: false },
            Pdu { updates: vec![FpUpdate::Bitmap(vec![rect(0x0401, 1100, 5)]), FpUpdate::Bitmap(vec![rect(0, 2100, 6)])], first: 0, long_len: true },
            Pdu { updates: vec![FpUpdate::Bitmap(vec![rect(0x0001, 9000, 7), rect(0x0401, 4, 8)])], first: 0, long_len: true },
        ];
        sv.push(Case { pdus, chunk: 0, user_id: 1004, queued: server % 2 == 0, server });
    }
    rep.list("server-variants", sv, run);
    rep.random("streams", rep.tier.n(60_000, 4_000_000), 400, decode, run);
    crate::tls::pki();
    rep.random("tls", rep.tier.n(300, 10_000), 300, decode, run_tls);
    rep.require("streams", "non-bitmap-before-bitmap", 1000);
    rep.require("streams", "multi-bitmap-update", 1000);
    rep.require("streams", "queued", 1000);
    rep.require("streams", "other-server-profile", 1000);
    rep.require("streams", "malformed-bitmap-update", 500);
}
