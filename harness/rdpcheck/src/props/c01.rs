//! C01 — NLA releases credentials only after the server proves the session key.
use crate::mem::{gen_string, ClientCfg};
use crate::props::c15::{gen_challenge, gen_name};
use crate::props::c17::{self, Case as C17Case};
use crate::tls::{self, FinalReply};
use crate::util::{fail_panic, hexs, Res};
use engine::{Outcome, Report, Src, Tier};
use refimpl::ntlm;
use serde::{Deserialize, Serialize};

pub const LEVEL: &str = "fault_enumeration";
pub const RULE: &str = "case = (credential set and connector configuration with NLA on, server certificate key in {RSA-2048 CA-signed, RSA-2048, RSA-3072, P-256; in the enumerated section also Ed25519 raw keys, two of them beginning with 0xFF so that the + 1 carries}, reply strategy for the final CredSSP round). Strategies: honest; every single-bit flip of the honest TSRequest (bitflips section: every bit for the P-256 key and every third bit for RSA-2048 in quick, every bit for all four keys in thorough); key + k for k in {0, 2, 255, 256, 65536, ...}, key - 1, big-endian + 1, + 1 on the last byte; sealed under an unknown session key; sealed with the client-to-server keys; wrong signing key only; key + 1 of another certificate; the client's own token reflected; every truncation length; bytes appended inside the token / after the DER; BER re-encoding; advanced cipher state; wrong sequence number; garbage; random token; key + 1 followed or preceded by extra bytes under a valid seal; the same xor mask applied at two positions 1..128 bytes apart (differences that cancel under a folded comparison); constant ('dummy') checksum; ciphertext of another certificate's key + 1 obtained by xor with a zeroed checksum. With the CA-signed identity certificate checking is switched on in most cases (a validated certificate does not replace the key binding). reused-authentication-object: one Ntlm object used for two NLA connections through x224::Client::connect; in the second the final reply is sealed under the FIRST connection's session key (or an unrelated one, or is honest); relay history: a first connection to one certificate, then a connection to a certificate with the same subject, issuer and serial number but another key, answered with the first key + 1 under a valid seal (must be refused) or honestly. One case in five (and a list in the enumerated section) uses a CHALLENGE that lacks some of the flags the client asked for (SIGN, SEAL, KEY_EXCH, ALWAYS_SIGN, ESS, 128 ...): the client may refuse it early, but must not release credentials without the proof. Each reply is classified by the reference server itself (lenient decode + unseal with the true keys): if it still yields key + 1 under a valid signature nothing is asserted; otherwise Connector::connect must return Err and the server, reading to EOF, must receive zero application bytes after the AUTHENTICATE message. For the honest reply the next message must be a TSRequest whose authInfo unseals. Non-trivial = the handshake reached the final round and the reply is not 'still honest'; distinct by hash of the case.";

#[derive(Serialize, Deserialize, Hash, Clone, Debug)]
pub struct Case {
    pub base: C17Case,
    pub reply: FinalReply,
}

pub fn run(c: &Case) -> Outcome {
    let mut out = Outcome::new();
    let mut scfg = c17::server_cfg(&c.base);
    if let Some(n) = scfg.nla.as_mut() {
        n.final_reply = c.reply.clone();
    }
    let run = tls::run_tls(&c.base.cfg, &scfg, 0, false, &mut |_| ());
    let class = match &c.reply {
        FinalReply::Honest => "honest",
        FinalReply::BitFlip(_) => "bitflip",
        FinalReply::Offset(_) | FinalReply::MinusOne | FinalReply::BigEndianPlusOne | FinalReply::LastBytePlusOne => "offset",
        FinalReply::WrongSessionKey(_) => "wrong-session-key",
        FinalReply::WrongDirection => "wrong-direction",
        FinalReply::WrongSignKey => "wrong-sign-key",
        FinalReply::OtherCert => "other-cert",
        FinalReply::Reflect => "reflect",
        FinalReply::Truncate(_) => "truncate",
        FinalReply::ExtendToken(_) | FinalReply::ExtendAfter(_) => "extend",
        FinalReply::Reencode(_) => "reencode",
        FinalReply::AdvancedRc4(_) => "advanced-rc4",
        FinalReply::WrongSeq(_) => "wrong-seq",
        FinalReply::Garbage(_) => "garbage",
        FinalReply::RandomToken(_) => "random-token",
        FinalReply::PlainSuffix(_) | FinalReply::PlainPrefix(_) => "padded-value",
        FinalReply::ConstChecksum(_) | FinalReply::RelayedXor => "dummy-signature",
        FinalReply::PlainXor(_) => "xor-pattern",
        FinalReply::PlainTruncated(_) | FinalReply::NoCarryPlusOne => "padded-value",
    };
    let std_flags = c.base.challenge.flags & ntlm::MANDATORY == ntlm::MANDATORY;
    if !std_flags {
        out.label("reduced-flags");
    }
    if c.base.cfg.check_certificate {
        out.label("certificate-checked");
    }
    out.label(class);
    if run.client_timeout || run.report.timeout {
        out.fail("inconclusive:timeout", "a socket timeout hit; not counted as a violation");
        return out;
    }
    if let Res::Panic(p) = &run.connect {
        fail_panic(&mut out, "Connector::connect", p);
        return out;
    }
    let nla = &run.report.nla;
    if !nla.reached_final && !std_flags {
        // a CHALLENGE without one of the flags the client asked for: refusing it early is fine, nothing to assert
        out.label("reduced-flags-not-reached");
        if std::env::var_os("VERIF_DEBUG").is_some() {
            eprintln!("not-reached missing={:#010x} verify={:?} negotiate={:?} notes={:?}", ntlm::MANDATORY & !c.base.challenge.flags, nla.verify_error, nla.negotiate_error, nla.notes);
        }
        return out;
    }
    if !nla.reached_final {
        out.fail("inconclusive:final-round-not-reached", format!("the handshake did not reach the final CredSSP round (tls {} / negotiate {:?} / verify {:?}); this is C03/C15 territory", run.report.tls_established, nla.negotiate_error, nla.verify_error));
        return out;
    }
    let honest_kind = c.reply == FinalReply::Honest;
    out.nontrivial(!nla.final_is_honest);
    if nla.final_is_honest {
        out.label("still-honest");
        if honest_kind && std_flags {
            // that the credentials follow an honest reply is C03's statement ("connecting succeeds"), not C01's; here it only
            // guards against a vacuous pass (a client that never releases credentials satisfies C01 trivially)
            if let (_, Some(Ok(_))) = (&run.connect, &nla.credentials) {
                out.label("credentials-after-honest-reply");
            }
        } else if let Some(Err(e)) = &nla.credentials {
            if !e.starts_with("no credentials message") {
                out.fail("nla:malformed-credentials", format!("credentials sent after an equivalent reply do not decode: {}", e));
            }
        }
        return out;
    }
    out.label("must-refuse");
    if run.connect.is_ok() {
        out.fail(format!("nla:accepted:{}", class), format!("Connector::connect returned Ok although the final reply ({:?}) does not prove the session key; reply {}", c.reply, hexs(&nla.final_sent)));
        return out;
    }
    if !nla.bytes_after_final.is_empty() {
        out.fail(format!("nla:bytes-after-refused-reply:{}", class), format!("the client wrote {} bytes on the link after a reply it must refuse ({:?}): {}", nla.bytes_after_final.len(), c.reply, hexs(&nla.bytes_after_final)));
    }
    out
}

/// One authentication object used for two NLA connections in a row (x224::Client::connect, the entry point below the
/// Connector): in the second connection the server answers the final round with key + 1 sealed under the session key of the
/// FIRST connection (which it may have learnt then); or honestly.
#[derive(Serialize, Deserialize, Hash, Clone, Debug)]
pub struct ReuseCase {
    pub base: C17Case,
    /// 0 = the second connection is answered honestly; 1 = with the first connection's session key; 2 = an unrelated key;
    /// 3 = relay history: the first connection (own authentication object) meets a certificate, the second one a certificate
    /// with the same subject, issuer and serial number but ANOTHER key, and is answered with the first key + 1 under a valid
    /// seal (what a relay forwarding the real server's answer sends); 4 = the same history answered honestly
    pub second: u8,
}

pub fn run_reuse(c: &ReuseCase) -> Outcome {
    let mut out = Outcome::new();
    out.nontrivial(c.second != 0 && c.second != 4);
    let mut base = c.base.clone();
    base.cfg.nla = true;
    base.cfg.restricted_admin = false;
    base.cfg.blank_creds = false;
    base.cfg.hash = None;
    let twin = c.second >= 3;
    let mut scfg1 = c17::server_cfg(&base);
    if twin {
        scfg1.identity = tls::twins().0;
    }
    let mut ntlm = rdp::nla::ntlm::Ntlm::new(base.cfg.domain.clone(), base.cfg.user.clone(), base.cfg.password.clone());
    let (r1, rep1, t1) = tls::run_x224_nla(&mut ntlm, &scfg1);
    if t1 || rep1.timeout {
        out.fail("inconclusive:timeout", "a socket timeout hit; not counted as a violation");
        return out;
    }
    if let Res::Panic(p) = &r1 {
        fail_panic(&mut out, "x224::Client::connect", p);
        return out;
    }
    let key1 = match (&r1, &rep1.nla.exported_session_key) {
        (Res::Ok(()), Some(k)) => k.clone(),
        _ => {
            // the first connection did not complete: nothing to reuse (guarded by a floor on the label below)
            out.label("first-connection-failed");
            return out;
        }
    };
    out.label("first-connection-ok");
    let mut scfg2 = c17::server_cfg(&base);
    if let Some(n) = scfg2.nla.as_mut() {
        n.final_reply = match c.second {
            0 | 4 => FinalReply::Honest,
            1 => FinalReply::WrongSessionKey(key1.clone()),
            3 => FinalReply::OtherCert,
            _ => FinalReply::WrongSessionKey(vec![0x42; 16]),
        };
    }
    if twin {
        scfg2.identity = tls::twins().1;
        ntlm = rdp::nla::ntlm::Ntlm::new(base.cfg.domain.clone(), base.cfg.user.clone(), base.cfg.password.clone());
        out.label("same-name-and-serial-other-key");
    }
    let (r2, rep2, t2) = tls::run_x224_nla(&mut ntlm, &scfg2);
    if t2 || rep2.timeout {
        out.fail("inconclusive:timeout", "a socket timeout hit; not counted as a violation");
        return out;
    }
    if let Res::Panic(p) = &r2 {
        fail_panic(&mut out, "x224::Client::connect", p);
        return out;
    }
    if twin && std::env::var_os("VERIF_DEBUG").is_some() {
        eprintln!("twin second={} r2={:?} reached={} honest={} verify={:?} notes={:?} tls_err={:?}", c.second, r2.kind(), rep2.nla.reached_final, rep2.nla.final_is_honest, rep2.nla.verify_error, rep2.nla.notes, rep2.tls_error);
    }
    if !rep2.nla.reached_final {
        out.label("second-final-not-reached");
        return out;
    }
    if rep2.nla.final_is_honest {
        out.label("still-honest");
        if let Some(Ok(_)) = &rep2.nla.credentials {
            out.label("credentials-after-honest-reply");
        }
        return out;
    }
    out.label("must-refuse");
    if r2.is_ok() {
        if twin {
            out.fail("nla:accepted:other-cert:same-name-and-serial", "second connection to a certificate with the subject, issuer and serial number of the first but another key: connect returned Ok although the final reply carried the FIRST certificate's key + 1".to_string());
            return out;
        }
        out.fail("nla:accepted:previous-session-key", format!("second connection with the same authentication object: connect returned Ok although the final reply was sealed under {} session key", if c.second == 1 { "the FIRST connection's" } else { "an unrelated" }));
        return out;
    }
    if !rep2.nla.bytes_after_final.is_empty() {
        out.fail("nla:bytes-after-refused-reply:previous-session-key", format!("second connection with the same authentication object: the client wrote {} bytes after a final reply sealed under {} session key", rep2.nla.bytes_after_final.len(), if c.second == 1 { "the first connection's" } else { "an unrelated" }));
    }
    out
}

fn gen_base(s: &mut Src, identity: Option<u8>) -> C17Case {
    let domain = gen_name(s, 10);
    let user = {
        let u = gen_name(s, 10);
        if u.is_empty() {
            "u".to_string()
        } else {
            u
        }
    };
    let mut challenge = gen_challenge(s, true);
    challenge.flags |= ntlm::NEG_UNICODE;
    let bits = s.u8();
    let _ = &mut challenge;
    let cfg = ClientCfg {
        width: 800,
        height: 600,
        layout: 7,
        name: "rdp-rs".into(),
        domain,
        user,
        password: gen_string(s, 16),
        hash: if bits & 16 != 0 { Some(s.bytes(16)) } else { None },
        auto_logon: bits & 8 != 0,
        restricted_admin: bits & 0x60 == 0x60,
        blank_creds: bits & 0x84 == 0x84,
        nla: true,
        check_certificate: false,
        setter_order: 0,
    };
    let identity = identity.unwrap_or_else(|| s.below(4) as u8);
    // certificate checking on, against the CA-signed identity (the TLS layer accepts it; the CredSSP binding must still be checked)
    let mut cfg = cfg;
    if identity == 0 && s.chance(180) {
        cfg.check_certificate = true;
    }
    // a server that does not echo every flag the client asked for (no signing, no sealing, no key exchange ...):
    // whatever the client makes of it, it must not release credentials without the proof
    if s.chance(56) {
        for f in [ntlm::NEG_SIGN, ntlm::NEG_SEAL, ntlm::NEG_KEY_EXCH, ntlm::NEG_ALWAYS_SIGN, ntlm::NEG_ESS, ntlm::NEG_128, ntlm::NEG_NTLM, ntlm::NEG_TARGET_INFO] {
            if s.chance(72) {
                challenge.flags &= !f;
            }
        }
    }
    C17Case { cfg, identity, challenge, user_id: 1004, previous: None, select_ssl: false }
}

pub fn decode(s: &mut Src) -> Case {
    // the reply strategy is decoded first so that short choice strings still vary it
    let reply = match s.below(28) {
        26 => FinalReply::PlainTruncated(s.pick(&[0u16, 1, 2, 100, 0xFFFF, 0xFFFE, 7])),
        27 => FinalReply::NoCarryPlusOne,
        24 | 25 => {
            // the same mask at two positions a multiple of 1, 2, 4 or 8 bytes apart; or an arbitrary pair
            let a = s.u16();
            let mask = s.pick(&[1u8, 0x80, 0xFF, 0x10, 0x55]);
            let d = s.pick(&[1u16, 2, 4, 8, 16, 32, 64, 3]);
            if s.bool() {
                FinalReply::PlainXor(vec![(a, mask), (a.wrapping_add(d), mask)])
            } else {
                FinalReply::PlainXor(vec![(a, mask), (s.u16(), s.u8() | 1)])
            }
        }
        20 => {
            let n = 1 + s.below(4);
            let mut e = s.bytes(n);
            if s.chance(64) {
                e = vec![0; n];
            }
            FinalReply::PlainSuffix(e)
        }
        21 => {
            let n = 1 + s.below(4);
            FinalReply::PlainPrefix(s.bytes(n))
        }
        22 => FinalReply::ConstChecksum(s.pick(&[0u8, 0, 0, 0xFF, 1])),
        23 => FinalReply::RelayedXor,
        0 => FinalReply::Honest,
        1 | 2 | 3 => FinalReply::BitFlip(s.u16() as u32),
        4 => FinalReply::Offset(s.pick(&[0u32, 2, 3, 255, 256, 257, 65536, 0x0100_0000, 0xFFFF_FFFF])),
        5 => s.pick(&[FinalReply::MinusOne, FinalReply::BigEndianPlusOne, FinalReply::LastBytePlusOne]),
        6 => FinalReply::WrongSessionKey(s.bytes(16)),
        7 => FinalReply::WrongDirection,
        8 => FinalReply::WrongSignKey,
        9 => FinalReply::OtherCert,
        10 => FinalReply::Reflect,
        11 | 12 => FinalReply::Truncate(s.u16()),
        13 => {
            let n = 1 + s.below(4);
            FinalReply::ExtendToken(s.bytes(n))
        }
        14 => {
            let n = 1 + s.below(4);
            FinalReply::ExtendAfter(s.bytes(n))
        }
        15 => FinalReply::Reencode(s.u8()),
        16 => FinalReply::AdvancedRc4(s.u8()),
        17 => FinalReply::WrongSeq(s.b32()),
        18 => {
            let n = s.below(300);
            FinalReply::Garbage(s.fill(n))
        }
        _ => {
            let n = 16 + s.below(300);
            FinalReply::RandomToken(s.fill(n))
        }
    };
    let base = gen_base(s, None);
    Case { base, reply }
}

fn sweep(tier: Tier, part: usize, parts: usize) -> impl Iterator<Item = Case> {
    let mut v = Vec::new();
    let seed = [1u8, 2, 3, 4, 5, 6, 7, 8, 9, 10, 11, 12, 13, 14, 15, 16, 17, 18, 19, 20, 21, 22, 23, 24, 25, 26, 27, 28, 29, 30, 31, 32, 33, 34, 35, 36, 37, 38, 39, 40];
    // sizes of the honest TSRequest per identity: computed generously, indices are taken modulo the real length
    let ids: Vec<(u8, usize, usize)> = match tier {
        Tier::Quick => vec![(3, 130, 1), (1, 330, 3)],
        Tier::Thorough => vec![(0, 330, 1), (1, 330, 1), (2, 460, 1), (3, 130, 1)],
    };
    for (id, len, stride) in ids {
        let mut base = gen_base(&mut Src::new(&seed), Some(id));
        base.cfg.restricted_admin = false;
        base.cfg.blank_creds = false;
        for bit in (0..len * 8).step_by(stride) {
            v.push(Case { base: base.clone(), reply: FinalReply::BitFlip(bit as u32) });
        }
        for n in 0..len {
            v.push(Case { base: base.clone(), reply: FinalReply::Truncate(n as u16) });
        }
        for k in [0u32, 2, 3, 255, 256, 257, 65535, 65536, 0x0100_0000, 0xFFFF_FFFF] {
            v.push(Case { base: base.clone(), reply: FinalReply::Offset(k) });
        }
        // equal differences at two places (they cancel under xor-folding, under per-word sums ...), and single ones
        for d in [1u16, 2, 3, 4, 8, 12, 16, 32, 64, 128] {
            for mask in [0x01u8, 0x80, 0xFF] {
                for start in [0u16, 1, 5, 33] {
                    v.push(Case { base: base.clone(), reply: FinalReply::PlainXor(vec![(start, mask), (start + d, mask)]) });
                }
            }
        }
        for pos in 0..40u16 {
            v.push(Case { base: base.clone(), reply: FinalReply::PlainXor(vec![(pos * 7, 0x40)]) });
        }
        for n in [0u16, 1, 2, 3, 16, 100, 0xFFFF, 0xFFFE] {
            v.push(Case { base: base.clone(), reply: FinalReply::PlainTruncated(n) });
        }
        v.push(Case { base: base.clone(), reply: FinalReply::NoCarryPlusOne });
        for r in [FinalReply::PlainSuffix(vec![1]), FinalReply::PlainSuffix(vec![0, 1]), FinalReply::PlainSuffix(vec![0xFF; 4]), FinalReply::PlainSuffix(vec![0]), FinalReply::PlainPrefix(vec![0]), FinalReply::PlainPrefix(vec![1, 0]), FinalReply::ConstChecksum(0), FinalReply::ConstChecksum(0xFF), FinalReply::RelayedXor] {
            v.push(Case { base: base.clone(), reply: r.clone() });
            // the same replies after a CHALLENGE that lacks one of the requested flags
            for f in [ntlm::NEG_SIGN, ntlm::NEG_SEAL, ntlm::NEG_KEY_EXCH, ntlm::NEG_ALWAYS_SIGN, ntlm::NEG_ESS, ntlm::NEG_128, ntlm::NEG_SIGN | ntlm::NEG_SEAL | ntlm::NEG_ALWAYS_SIGN] {
                let mut b = base.clone();
                b.challenge.flags &= !f;
                v.push(Case { base: b, reply: r.clone() });
            }
        }
        for f in [ntlm::NEG_SIGN, ntlm::NEG_SEAL, ntlm::NEG_KEY_EXCH, ntlm::NEG_ALWAYS_SIGN, ntlm::NEG_ESS, ntlm::NEG_128] {
            for r in [FinalReply::Honest, FinalReply::OtherCert, FinalReply::WrongSignKey, FinalReply::Reflect, FinalReply::Offset(0)] {
                let mut b = base.clone();
                b.challenge.flags &= !f;
                v.push(Case { base: b, reply: r });
            }
        }
        // certificate checking on with the CA-signed identity: every kind of reply once
        if id != 0 {
            let mut b0 = gen_base(&mut Src::new(&seed), Some(0));
            b0.cfg.restricted_admin = false;
            b0.cfg.blank_creds = false;
            b0.cfg.check_certificate = true;
            for r in [FinalReply::Honest, FinalReply::Offset(0), FinalReply::Offset(2), FinalReply::Offset(256), FinalReply::MinusOne, FinalReply::BigEndianPlusOne, FinalReply::LastBytePlusOne, FinalReply::WrongDirection, FinalReply::WrongSignKey, FinalReply::OtherCert, FinalReply::Reflect, FinalReply::WrongSeq(1), FinalReply::AdvancedRc4(0), FinalReply::PlainSuffix(vec![1]), FinalReply::PlainPrefix(vec![0]), FinalReply::ConstChecksum(0), FinalReply::RelayedXor, FinalReply::WrongSessionKey(vec![7; 16]), FinalReply::Truncate(40), FinalReply::BitFlip(300)] {
                v.push(Case { base: b0.clone(), reply: r });
            }
        }
        for r in [FinalReply::Honest, FinalReply::MinusOne, FinalReply::BigEndianPlusOne, FinalReply::LastBytePlusOne, FinalReply::WrongDirection, FinalReply::WrongSignKey, FinalReply::OtherCert, FinalReply::Reflect, FinalReply::WrongSeq(1), FinalReply::AdvancedRc4(0)] {
            v.push(Case { base: base.clone(), reply: r });
        }
    }
    // raw-key certificates (Ed25519), among them keys that begin with 0xFF (the increment carries out of the first byte)
    let n_ids = tls::pki().ids.len();
    for id in [6usize, 10, 11] {
        if id >= n_ids || !tls::pki().ids[id].name.starts_with("ed25519") {
            continue;
        }
        let mut base = gen_base(&mut Src::new(&seed), Some(id as u8));
        base.cfg.restricted_admin = false;
        base.cfg.blank_creds = false;
        for r in [FinalReply::Honest, FinalReply::NoCarryPlusOne, FinalReply::Offset(0), FinalReply::Offset(2), FinalReply::Offset(256), FinalReply::MinusOne, FinalReply::BigEndianPlusOne, FinalReply::LastBytePlusOne, FinalReply::OtherCert, FinalReply::PlainTruncated(31), FinalReply::PlainSuffix(vec![1]), FinalReply::PlainXor(vec![(0, 0xFF)]), FinalReply::PlainXor(vec![(0, 1)]), FinalReply::PlainXor(vec![(0, 0xFF), (1, 1)]), FinalReply::WrongSignKey, FinalReply::Reflect] {
            v.push(Case { base: base.clone(), reply: r });
        }
        for bit in 0..(80 * 8) {
            v.push(Case { base: base.clone(), reply: FinalReply::BitFlip(bit as u32) });
        }
    }
    v.into_iter().enumerate().filter(move |(i, _)| i % parts == part).map(|(_, c)| c)
}

pub fn check(rep: &Report) {
    tls::pki();
    rep.assume("each TSRequest is written by the reference server with one SSL_write and stays below 1500 bytes (the client performs a single read per TSRequest)");
    rep.assume("a reply that the reference side itself accepts (lenient decode, valid signature, key + 1) is not required to be refused");
    let tier = rep.tier;
    rep.enumerate("bitflips-truncations", false, move |p, n| sweep(tier, p, n), run);
    let mut reuse = Vec::new();
    for id in 0..4u8 {
        for second in 0..5u8 {
            for k in 0..3u8 {
                let mut b = gen_base(&mut Src::new(&[id, second, k, 77, 1, 2, 3, 4, 5, 6, 7, 8, 9, 10, 11, 12, 13, 14, 15, 16, 17, 18, 19, 20]), Some(id));
                b.challenge.flags |= ntlm::MANDATORY | ntlm::NEG_UNICODE;
                reuse.push(ReuseCase { base: b, second });
            }
        }
    }
    rep.list("reused-authentication-object", reuse, run_reuse);
    rep.require("reused-authentication-object", "first-connection-ok", 20);
    rep.require("reused-authentication-object", "must-refuse", 20);
    rep.require("reused-authentication-object", "same-name-and-serial-other-key", 20);
    rep.random("replies", rep.tier.n(3_000, 60_000), 200, decode, run);
    rep.require("replies", "must-refuse", 800);
    rep.require("replies", "honest", 50);
    rep.require("replies", "credentials-after-honest-reply", 30);
    rep.require("replies", "certificate-checked", 100);
}
