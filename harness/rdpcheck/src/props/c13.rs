//! C13 — Inbound deframing is exact under arbitrary fragmentation.
use crate::io::ChunkReader;
use crate::util::{call, fail_panic, hexs, Res};
use engine::{Outcome, Report, Src, Tier};
use rdp::core::tpkt::{self, Payload};
use rdp::core::x224;
use rdp::model::link::{Link, Stream};
use serde::{Deserialize, Serialize};

pub const LEVEL: &str = "exploration";
pub const RULE: &str = "case = (sequence of TPKT / fast-path frames, read-chunk schedule, entry point tpkt::Client::read or x224::Client::read). A chunking Read serves the concatenated frames in pieces of the scheduled sizes and counts the bytes it handed out; after every read the payload/kind/security flags must equal the reference deframer's next frame and the consumed-byte count must equal that frame's end offset; a sentinel frame always follows. Frames whose declared length is shorter than their header must be rejected. Sweep section = every TPKT length (all 65536 in thorough; all < 1400 plus strata in quick) and every fast-path length in both forms. transport schedules may contain interruptions (ErrorKind::Interrupted between pieces: nothing consumed, the read is retried); payloads are noise or, for one frame in 32, protocol-looking content (another frame header, also one announcing exactly the payload's own length). bursts: runs of 1..40 frames of one form followed by each minimal frame; long-streams: more than 2^32 bytes of frames through one client (cycling transport). Non-trivial = >= 2 frames with a schedule that splits at least one header, or a zero-payload / undersized frame; distinct by hash of the case.";

#[derive(Serialize, Deserialize, Hash, Clone, Debug)]
pub enum Frame {
    /// TPKT: declared length (whole frame), reserved byte
    Tpkt { len: u16, reserved: u8 },
    /// TPKT frame whose X.224 data header carries a wrong end-of-TSDU byte (only meaningful through x224::Client::read):
    /// the frame itself may be rejected, but it must be consumed exactly and the frames after it must still come out right
    TpktBadX224 { len: u16, eot: u8 },
    /// fast-path: first byte, length form, declared length (whole frame)
    Fast { first: u8, long: bool, len: u16 },
}

#[derive(Serialize, Deserialize, Hash, Clone, Debug)]
pub struct Case {
    pub frames: Vec<Frame>,
    pub schedule: Vec<u16>,
    pub x224: bool,
    pub fill: u32,
}

struct Expect {
    end: usize,
    raw: bool,
    sec: u8,
    payload: Vec<u8>,
    reject: bool,
    must_hold: bool,
    /// the result of this read is free (Ok or Err); only exact consumption is asserted and the stream goes on
    free_result: bool,
}

/// payload bytes: noise for most frames, protocol-looking content (another frame header, a fast-path header ...) for some
fn payload_of(next: &mut impl FnMut() -> u8, n: usize) -> Vec<u8> {
    let seed = u32::from_le_bytes([next(), next(), next(), next()]);
    engine::src::expand(seed | 1, n)
}

/// Build the byte stream and the reference deframing.
fn build(c: &Case) -> (Vec<u8>, Vec<Expect>) {
    let mut bytes = Vec::new();
    let mut exp = Vec::new();
    let mut frames = c.frames.clone();
    // sentinel
    frames.push(Frame::Tpkt { len: 4 + 6, reserved: 0 });
    let mut ctr = c.fill;
    let mut next = || {
        ctr = ctr.wrapping_mul(1664525).wrapping_add(1013904223);
        (ctr >> 24) as u8
    };
    for f in &frames {
        match f {
            Frame::Tpkt { len, reserved } => {
                bytes.push(3);
                bytes.push(*reserved);
                bytes.push((len >> 8) as u8);
                bytes.push((len & 0xFF) as u8);
                if *len < 4 {
                    exp.push(Expect { end: bytes.len(), raw: true, sec: 0, payload: vec![], reject: true, must_hold: true, free_result: false });
                    break;
                }
                let n = *len as usize - 4;
                let mut p: Vec<u8> = payload_of(&mut next, n);
                if c.x224 && n >= 3 {
                    p[0] = 2;
                    p[1] = 0xF0;
                    p[2] = 0x80;
                }
                bytes.extend_from_slice(&p);
                let (payload, must) = if c.x224 {
                    if n >= 3 {
                        (p[3..].to_vec(), true)
                    } else {
                        (vec![], false)
                    }
                } else {
                    (p, true)
                };
                exp.push(Expect { end: bytes.len(), raw: true, sec: 0, payload, reject: false, must_hold: must, free_result: false });
            }
            Frame::TpktBadX224 { len, eot } => {
                let len = (*len).max(7);
                bytes.push(3);
                bytes.push(0);
                bytes.push((len >> 8) as u8);
                bytes.push((len & 0xFF) as u8);
                let n = len as usize - 4;
                let mut p: Vec<u8> = (0..n).map(|_| next()).collect();
                p[0] = 2;
                p[1] = 0xF0;
                p[2] = if c.x224 && *eot != 0x80 { *eot } else { 0x80 };
                bytes.extend_from_slice(&p);
                if c.x224 && p[2] != 0x80 {
                    exp.push(Expect { end: bytes.len(), raw: true, sec: 0, payload: vec![], reject: false, must_hold: true, free_result: true });
                } else {
                    let payload = if c.x224 { p[3..].to_vec() } else { p };
                    exp.push(Expect { end: bytes.len(), raw: true, sec: 0, payload, reject: false, must_hold: true, free_result: false });
                }
            }
            Frame::Fast { first, long, len } => {
                let first = if *first == 3 { 0 } else { *first };
                bytes.push(first);
                let hdr = if *long { 3 } else { 2 };
                if *long {
                    let l = len & 0x7FFF;
                    bytes.push(0x80 | (l >> 8) as u8);
                    bytes.push((l & 0xFF) as u8);
                } else {
                    bytes.push((len & 0x7F) as u8);
                }
                let l = if *long { (len & 0x7FFF) as usize } else { (len & 0x7F) as usize };
                // action bits 00 are fast-path for sure; other non-TPKT first bytes are only required not to panic
                let must = first & 3 == 0;
                if l < hdr {
                    exp.push(Expect { end: bytes.len(), raw: false, sec: first >> 6, payload: vec![], reject: true, must_hold: must, free_result: false });
                    break;
                }
                let n = l - hdr;
                let p: Vec<u8> = payload_of(&mut next, n);
                bytes.extend_from_slice(&p);
                exp.push(Expect { end: bytes.len(), raw: false, sec: first >> 6, payload: p, reject: false, must_hold: must, free_result: false });
            }
        }
    }
    (bytes, exp)
}

enum Cl {
    T(tpkt::Client<ChunkReader>),
    X(x224::Client<ChunkReader>),
}

pub fn run(c: &Case) -> Outcome {
    let mut out = Outcome::new();
    let (bytes, exp) = build(c);
    let total = bytes.len();
    // does the schedule split a header? (any chunk smaller than 4 does for sure; otherwise look at offsets)
    let splits_header = c.schedule.iter().any(|&k| k < 4);
    let special = exp.iter().any(|e| e.reject || (e.payload.is_empty() && !c.x224));
    out.nontrivial((exp.len() >= 3 && splits_header) || special);
    out.label(if c.x224 { "x224" } else { "tpkt" });
    if special {
        out.label("zero-or-undersized");
    }
    if splits_header {
        out.label("splits-header");
    }
    let (reader, handed, eof_reads) = ChunkReader::new(bytes.clone(), c.schedule.clone());
    let tp = tpkt::Client::new(Link::new(Stream::Raw(reader)));
    let mut cl = if c.x224 { Cl::X(x224::Client::from_transport(tp, x224::Protocols::ProtocolSSL)) } else { Cl::T(tp) };
    let mut still_must = true;
    for (i, e) in exp.iter().enumerate() {
        still_must = still_must && e.must_hold;
        let (r, st) = call(|| match &mut cl {
            Cl::T(t) => t.read(),
            Cl::X(x) => x.read(),
        });
        let consumed = *handed.borrow();
        if e.free_result {
            if let Res::Panic(p) = r {
                fail_panic(&mut out, "x224.read", &p);
                return out;
            }
            out.label("x224-bad-header-then-more");
            if still_must && consumed != e.end {
                out.fail("deframe:consumed:after-x224-error", format!("frame #{} (bad X.224 header): transport handed out {} bytes, frame ends at {}", i, consumed, e.end));
                return out;
            }
            continue;
        }
        match r {
            Res::Panic(p) => {
                fail_panic(&mut out, if c.x224 { "x224.read" } else { "tpkt.read" }, &p);
                return out;
            }
            Res::Err(err) => {
                if !still_must {
                    return out;
                }
                if e.reject {
                    out.label("rejected-as-required");
                    return out;
                }
                out.fail(
                    format!("deframe:unexpected-error:{}", if e.raw { "tpkt" } else { "fastpath" }),
                    format!("frame #{} of {} (payload {} bytes, ends at {}) gave Err({}) after consuming {} of {} bytes; stream {}", i, exp.len(), e.payload.len(), e.end, err, consumed, total, hexs(&bytes)),
                );
                return out;
            }
            Res::Ok(pl) => {
                if !still_must {
                    return out;
                }
                if e.reject {
                    out.fail(format!("deframe:undersized-accepted:{}", if e.raw { "tpkt" } else { "fastpath" }), format!("frame #{} declares a length shorter than its header but was accepted; stream {}", i, hexs(&bytes)));
                    return out;
                }
                let (raw, sec, data) = match pl {
                    Payload::Raw(cur) => {
                        let pos = cur.position() as usize;
                        let v = cur.into_inner();
                        (true, 0u8, v[pos.min(v.len())..].to_vec())
                    }
                    Payload::FastPath(s, cur) => {
                        let pos = cur.position() as usize;
                        let v = cur.into_inner();
                        (false, s, v[pos.min(v.len())..].to_vec())
                    }
                };
                if raw != e.raw || (!raw && sec != e.sec) {
                    out.fail("deframe:kind-or-flags", format!("frame #{}: got raw={} sec={}, want raw={} sec={}; stream {}", i, raw, sec, e.raw, e.sec, hexs(&bytes)));
                    return out;
                }
                if data != e.payload {
                    let zero = e.payload.is_empty();
                    out.fail(
                        format!("deframe:payload:{}{}", if e.raw { "tpkt" } else { "fastpath" }, if zero { ":zero-length" } else { "" }),
                        format!("frame #{}: payload {} bytes {}, want {} bytes {}; consumed {} want {}; stream {}", i, data.len(), hexs(&data), e.payload.len(), hexs(&e.payload), consumed, e.end, hexs(&bytes)),
                    );
                    return out;
                }
                if consumed != e.end {
                    out.fail(
                        format!("deframe:consumed:{}", if e.raw { "tpkt" } else { "fastpath" }),
                        format!("frame #{}: transport handed out {} bytes, frame ends at {}; stream {}", i, consumed, e.end, hexs(&bytes)),
                    );
                    return out;
                }
                // proportionate memory: payload-sized buffers only
                let bound = (1u64 << 20) + 64 * (e.payload.len() as u64 + 8);
                if st.max_single > bound {
                    out.fail("deframe:alloc", format!("single allocation {} for a frame of {} bytes", st.max_single, e.payload.len()));
                    return out;
                }
            }
        }
    }
    // after the last frame: one more read must fail cleanly (no panic, no spin)
    let (r, _) = call(|| match &mut cl {
        Cl::T(t) => t.read(),
        Cl::X(x) => x.read(),
    });
    if let Res::Panic(p) = r {
        fail_panic(&mut out, "tpkt.read@eof", &p);
    } else if *eof_reads.borrow() > 64 {
        out.fail("deframe:spin-at-eof", "more than 64 reads on a finished stream");
    }
    out
}

fn frame(s: &mut Src, small: bool) -> Frame {
    if s.chance(24) {
        return Frame::TpktBadX224 { len: 7 + s.below(40) as u16, eot: s.pick(&[0u8, 0x7F, 0x81, 0xFF, 0x00, 0x40]) };
    }
    if s.bool() {
        let len = match s.below(8) {
            0 => s.below(8) as u16,
            1 => 4,
            2 => 5 + s.below(8) as u16,
            3 if !small => s.b16(),
            _ => 4 + s.below(200) as u16,
        };
        Frame::Tpkt { len, reserved: if s.chance(200) { 0 } else { s.u8() } }
    } else {
        let first = if s.chance(64) { s.u8() } else { (s.u8() & 0xFC) as u8 };
        let long = s.bool();
        let len = match s.below(8) {
            0 => s.below(5) as u16,
            1 => if long { 3 } else { 2 },
            2 if !small && long => s.b16() & 0x7FFF,
            3 => 0x7F,
            _ => s.below(if long { 600 } else { 128 }) as u16,
        };
        Frame::Fast { first, long, len }
    }
}

pub fn decode(s: &mut Src) -> Case {
    let n = 1 + s.below(8);
    let x224 = s.chance(64);
    let big = s.chance(40);
    let mut frames: Vec<Frame> = (0..n).map(|i| frame(s, !(big && i == 0))).collect();
    // bursts: a run of frames of one form (state that builds up over consecutive frames), then the generated ones
    if s.chance(48) {
        let k = 2 + s.below(24);
        let template = match s.below(4) {
            0 => Frame::Fast { first: 0, long: true, len: 3 + s.below(40) as u16 },
            1 => Frame::Fast { first: 0x80, long: false, len: 2 + s.below(40) as u16 },
            2 => Frame::Tpkt { len: 4 + s.below(40) as u16, reserved: 0 },
            _ => Frame::Fast { first: 0, long: true, len: 3 },
        };
        let mut v = vec![template; k];
        // followed by the smallest frames of each form
        v.push(s.pick(&[Frame::Fast { first: 0, long: false, len: 2 }, Frame::Fast { first: 0, long: true, len: 3 }, Frame::Tpkt { len: 4, reserved: 0 }, Frame::Fast { first: 0x40, long: false, len: 3 }]));
        v.extend(frames);
        frames = v;
    }
    let schedule = match s.below(8) {
        6 => vec![0, 1 + s.below(7) as u16],
        7 => {
            let k = 2 + s.below(5);
            (0..k).map(|_| if s.chance(80) { 0 } else { 1 + s.small(40) as u16 }).collect()
        }
        0 => vec![1],
        1 => vec![1 + s.below(7) as u16],
        2 => vec![],
        3 => vec![2, 1, 3],
        _ => {
            let k = 1 + s.below(6);
            (0..k).map(|_| 1 + s.small(40) as u16).collect()
        }
    };
    Case { frames, schedule, x224, fill: s.u32() }
}

fn sweep(tier: Tier, part: usize, parts: usize) -> impl Iterator<Item = Case> {
    let mut cases = Vec::new();
    let scheds: Vec<Vec<u16>> = vec![vec![], vec![7], vec![1, 3, 1500], vec![4096], vec![0, 1000, 0, 3]];
    // every TPKT length
    let lens: Vec<u32> = match tier {
        Tier::Thorough => (0..65536u32).collect(),
        Tier::Quick => (0..65536u32).collect(),
    };
    for (i, l) in lens.iter().enumerate() {
        let sch = scheds[i % scheds.len()].clone();
        cases.push(Case { frames: vec![Frame::Fast { first: 0, long: false, len: 6 }, Frame::Tpkt { len: *l as u16, reserved: 0 }], schedule: sch, x224: false, fill: *l });
    }
    // every fast-path length in both forms, every first byte
    for l in 0..128u16 {
        for first in (0..256u16).step_by(4) {
            cases.push(Case { frames: vec![Frame::Fast { first: first as u8, long: false, len: l }, Frame::Fast { first: 0x40, long: true, len: l }], schedule: vec![1], x224: false, fill: l as u32 });
        }
    }
    let longs: Vec<u16> = match tier {
        Tier::Thorough => (0..0x8000u16).collect(),
        Tier::Quick => (0..700u16).chain((700..0x8000).step_by(97)).chain([0x7FFF]).collect(),
    };
    for (i, l) in longs.iter().enumerate() {
        cases.push(Case { frames: vec![Frame::Fast { first: 0x80, long: true, len: *l }], schedule: scheds[i % scheds.len()].clone(), x224: false, fill: *l as u32 });
    }
    // all first bytes with dribble: must not panic
    for first in 0..256u16 {
        cases.push(Case { frames: vec![Frame::Fast { first: first as u8, long: false, len: 5 }], schedule: vec![1], x224: false, fill: 1 });
    }
    cases.into_iter().enumerate().filter(move |(i, _)| i % parts == part).map(|(_, c)| c)
}

/// every burst length 1..=40 of each frame form, followed by each minimal frame, whole and dribbled
fn bursts() -> Vec<Case> {
    let mut v = Vec::new();
    let templates = [Frame::Fast { first: 0, long: true, len: 20 }, Frame::Fast { first: 0, long: true, len: 3 }, Frame::Fast { first: 0, long: false, len: 9 }, Frame::Fast { first: 0, long: false, len: 2 }, Frame::Tpkt { len: 30, reserved: 0 }, Frame::Tpkt { len: 4, reserved: 0 }];
    let tails = [Frame::Fast { first: 0, long: false, len: 2 }, Frame::Fast { first: 0xC0, long: false, len: 2 }, Frame::Fast { first: 0, long: true, len: 3 }, Frame::Tpkt { len: 4, reserved: 0 }, Frame::Fast { first: 0, long: false, len: 3 }];
    for (ti, t) in templates.iter().enumerate() {
        for k in 1..=40usize {
            for (ui, tail) in tails.iter().enumerate() {
                let mut frames = vec![t.clone(); k];
                frames.push(tail.clone());
                frames.push(Frame::Fast { first: 0, long: false, len: 5 });
                frames.push(tail.clone());
                for (sch, x224) in [(vec![], false), (vec![1u16], false), (vec![3u16, 2], ui % 2 == 0), (vec![0u16, 2, 0, 0, 5], ui % 2 == 1)] {
                    v.push(Case { frames: frames.clone(), schedule: sch, x224, fill: (ti * 1000 + k * 10 + ui) as u32 });
                }
            }
        }
    }
    v
}

/// more than 2^32 bytes through ONE client: frames are synthesized on the fly by a cycling transport
#[derive(Serialize, Deserialize, Hash, Clone, Debug)]
pub struct LongCase {
    /// declared TPKT lengths of the frames of the cycle
    pub cycle: Vec<u16>,
    pub x224: bool,
    /// at most this many bytes per transport read (0 = unlimited)
    pub chunk: u32,
    /// total number of bytes to push through, in MiB
    pub total_mib: u32,
}

struct CycleReader {
    cycle: Vec<u8>,
    pos: usize,
    chunk: usize,
    served: std::rc::Rc<std::cell::Cell<u64>>,
}

impl std::io::Read for CycleReader {
    fn read(&mut self, buf: &mut [u8]) -> std::io::Result<usize> {
        let mut n = buf.len();
        if self.chunk > 0 {
            n = n.min(self.chunk);
        }
        let mut done = 0;
        while done < n {
            let k = (n - done).min(self.cycle.len() - self.pos);
            buf[done..done + k].copy_from_slice(&self.cycle[self.pos..self.pos + k]);
            self.pos = (self.pos + k) % self.cycle.len();
            done += k;
        }
        self.served.set(self.served.get() + n as u64);
        Ok(n)
    }
}

impl std::io::Write for CycleReader {
    fn write(&mut self, b: &[u8]) -> std::io::Result<usize> {
        Ok(b.len())
    }
    fn flush(&mut self) -> std::io::Result<()> {
        Ok(())
    }
}

pub fn run_long(c: &LongCase) -> Outcome {
    let mut out = Outcome::new();
    out.nontrivial(true);
    let mut cycle = Vec::new();
    let mut payloads: Vec<Vec<u8>> = Vec::new();
    for (i, l) in c.cycle.iter().enumerate() {
        let l = (*l).max(7) as usize;
        cycle.extend_from_slice(&[3, 0, (l >> 8) as u8, l as u8]);
        let mut p: Vec<u8> = (0..l - 4).map(|j| (j as u8).wrapping_mul(31).wrapping_add(i as u8)).collect();
        p[0] = 2;
        p[1] = 0xF0;
        p[2] = 0x80;
        cycle.extend_from_slice(&p);
        payloads.push(if c.x224 { p[3..].to_vec() } else { p });
    }
    let served = std::rc::Rc::new(std::cell::Cell::new(0u64));
    let reader = CycleReader { cycle, pos: 0, chunk: c.chunk as usize, served: served.clone() };
    let link = rdp::model::link::Link::new(rdp::model::link::Stream::Raw(reader));
    let t = tpkt::Client::new(link);
    let target = c.total_mib as u64 * 1024 * 1024;
    let x224 = c.x224;
    let pl = payloads.clone();
    let sv = served.clone();
    let (r, _) = crate::util::call_plain(move || {
        let mut consumed: u64 = 0;
        let mut k = 0usize;
        let check = |k: usize, got: &[u8]| -> Result<(), String> {
            if got != &pl[k % pl.len()][..] {
                return Err(format!("frame #{} (after {} MiB): payload of {} bytes differs from the {} bytes sent", k, sv.get() >> 20, got.len(), pl[k % pl.len()].len()));
            }
            Ok(())
        };
        if x224 {
            let mut x = x224::Client::from_transport(t, x224::Protocols::ProtocolSSL);
            while consumed < target {
                match x.read() {
                    Ok(tpkt::Payload::Raw(mut c)) => {
                        let mut v = Vec::new();
                        std::io::Read::read_to_end(&mut c, &mut v).unwrap();
                        check(k, &v)?;
                        consumed += v.len() as u64 + 7;
                    }
                    Ok(_) => return Err(format!("frame #{}: slow-path frame returned as fast-path", k)),
                    Err(e) => return Err(format!("frame #{} (after {} MiB): valid frame rejected: {:?}", k, sv.get() >> 20, e)),
                }
                k += 1;
            }
        } else {
            let mut t = t;
            while consumed < target {
                match t.read() {
                    Ok(tpkt::Payload::Raw(mut c)) => {
                        let mut v = Vec::new();
                        std::io::Read::read_to_end(&mut c, &mut v).unwrap();
                        check(k, &v)?;
                        consumed += v.len() as u64 + 4;
                    }
                    Ok(_) => return Err(format!("frame #{}: slow-path frame returned as fast-path", k)),
                    Err(e) => return Err(format!("frame #{} (after {} MiB): valid frame rejected: {:?}", k, sv.get() >> 20, e)),
                }
                k += 1;
            }
        }
        if sv.get() != consumed {
            return Err(format!("{} bytes taken from the transport for {} bytes of frames", sv.get(), consumed));
        }
        Ok(())
    });
    match r {
        Res::Ok(Ok(())) => {}
        Res::Ok(Err(e)) => {
            out.fail("deframe:long-stream", e);
        }
        Res::Err(e) => {
            out.fail("deframe:long-stream", e);
        }
        Res::Panic(p) => fail_panic(&mut out, "tpkt.read(long stream)", &p),
    }
    out
}

/// splits at every offset of every header for a fixed three-frame stream
fn header_splits() -> Vec<Case> {
    let mut v = Vec::new();
    // a frame with a bad X.224 header between good ones, through x224::Client::read
    for eot in [0u8, 0x7F, 0x81, 0xFF] {
        for sch in [vec![], vec![1u16], vec![3, 2]] {
            v.push(Case {
                frames: vec![Frame::Tpkt { len: 12, reserved: 0 }, Frame::TpktBadX224 { len: 10, eot }, Frame::Tpkt { len: 9, reserved: 0 }, Frame::TpktBadX224 { len: 8, eot }, Frame::Fast { first: 0, long: false, len: 6 }, Frame::Tpkt { len: 11, reserved: 0 }],
                schedule: sch,
                x224: true,
                fill: eot as u32,
            });
        }
    }
    for a in 1..12u16 {
        for b in 1..6u16 {
            for x in [false, true] {
                v.push(Case {
                    frames: vec![Frame::Tpkt { len: 9, reserved: 0 }, Frame::Fast { first: 0x80, long: true, len: 8 }, Frame::Fast { first: 0, long: false, len: 4 }, Frame::Tpkt { len: 7, reserved: 0 }],
                    schedule: vec![a, b],
                    x224: x,
                    fill: 7,
                });
            }
        }
    }
    v
}

pub fn check(rep: &Report) {
    rep.assume("fast-path frames whose first byte has action bits other than 00 (and is not 0x03) are only required not to panic");
    rep.assume("after an undersized frame the stream is not examined further (the deframer cannot resynchronise)");
    let tier = rep.tier;
    rep.enumerate("length-sweep", true, move |p, n| sweep(tier, p, n), run);
    rep.list("header-splits", header_splits(), run);
    rep.list("bursts", bursts(), run);
    // > 2^32 bytes (and > 2^31) through one client
    let mut long = vec![
        LongCase { cycle: vec![65535, 65535, 9, 65535], x224: false, chunk: 0, total_mib: 4200 },
        LongCase { cycle: vec![65535, 7, 4000], x224: true, chunk: 1460, total_mib: 4200 },
    ];
    if rep.tier == Tier::Thorough {
        long.push(LongCase { cycle: vec![65535], x224: false, chunk: 65536, total_mib: 8400 });
        long.push(LongCase { cycle: vec![12, 65535, 300], x224: true, chunk: 0, total_mib: 17000 });
    }
    rep.list("long-streams", long, run_long);
    rep.random("streams", rep.tier.n(1_500_000, 20_000_000), 64, decode, run);
    rep.require("streams", "splits-header", 1000);
    rep.require("streams", "zero-or-undersized", 1000);
}
