pub mod c08;
pub mod c09;
pub mod c13;
pub mod c14;
pub mod c16;
pub mod c18;
pub mod c03;
pub mod c04;
