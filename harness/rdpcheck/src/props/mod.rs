pub mod c08;
pub mod c09;
