//! C07 — Hostile server bytes during NLA never crash the client.
use crate::props::c15::gen_challenge;
use crate::props::c17::{self, Case as C17Case};
use crate::props::hostile::values_for;
use crate::tls::{self, FinalReply};
use crate::util::{call, check_alloc, fail_panic, Res};
use engine::{Outcome, Report, Src, Tier};
use rdp::nla::cssp;
use rdp::nla::ntlm::{NTLMv2SecurityInterface, Ntlm};
use rdp::nla::rc4::Rc4;
use rdp::nla::sspi::{AuthenticationProtocol, GenericSecurityService};
use refimpl::der::{self, LenForm, Node};
use refimpl::ntlm::{self, Challenge};
use refimpl::server::{apply_fault, FaultKind};
use serde::{Deserialize, Serialize};

pub const LEVEL: &str = "fault_enumeration";
pub const RULE: &str = "faults injected into valid CredSSP / NTLM server messages; der-length-forms: every TLV header of honest TSRequests with its length in every long form of 1..8 octets (true value, all ones, 0x7F.., 0x80 00.., one too many), indefinite and reserved, at both TSRequest readers and through cssp_connect; cssp-stream: cssp_connect over a scripted raw stream whose first TSRequest has a size on and around the client's 1500-byte read size and its multiples with DER headers announcing less / exactly / more, served whole, in pieces or byte by byte, then end of stream (spin = more than 64 reads at end of stream); tsrequest-fields: TSRequests of versions 1..7 whose optional fields [1]..[6] hold INTEGERs (small values, boundaries, the NTSTATUS and SEC_E ranges for the errorCode field), OCTET STRINGs and nested sequences, at read_ts_server_challenge and read_ts_validate; sealed-sequences: several correctly sealed tokens with increasing / repeated / decreasing / wrapping sequence numbers on one context; accepted CHALLENGEs are followed by what cssp_connect does next (credential getters, build_security_interface, one wrap) under ASCII, Latin-1, CJK, supplementary-plane and empty identities; big-target-info: well-formed CHALLENGEs whose target information has every total length in 64936..=65535 (and a coarse sweep below) read with identities of four sizes. direct entries Ntlm::read_challenge_message, cssp::read_ts_server_challenge, cssp::read_ts_validate, gss_unwrapex: every scalar field of a CHALLENGE (all 16-bit lengths and 32-bit offsets at their boundaries, flags, every AvId 0..0x20 and 0xffff, AV lengths) swept over boundary values (field-sweep, enumerated over several challenge layouts incl. missing timestamp, missing EOL, zero-length target info), truncation at every byte, extensions, xor corruption and double faults (generated); TSRequest trees with empty / multiple / missing negoTokens, wrong tags, BER forms; all byte strings of length <= 2 (3 thorough) at each entry. tls section: whole NLA handshakes through Connector::connect where the server's CHALLENGE TSRequest or final reply is replaced by a faulty one. Oracle: Ok or Err, never a panic / spin / disproportionate allocation. Non-trivial = the message differs from a conforming one; distinct by hash of the case.";

#[derive(Serialize, Deserialize, Hash, Clone, Debug)]
pub enum Case {
    Challenge { challenge: Challenge, fault: Option<FaultKind>, fault2: Option<FaultKind> },
    /// 0 read_challenge_message, 1 read_ts_server_challenge, 2 read_ts_validate, 3 gss_unwrapex
    Raw { entry: u8, data: Vec<u8> },
    /// TSRequest-like DER tree to read_ts_server_challenge (entry 1) / read_ts_validate (entry 2)
    Tree { entry: u8, node: Node, long: u8 },
    Tls { base: C17Case, challenge_ts: Option<Vec<u8>>, final_reply: Option<FinalReply> },
    /// a token sealed by the reference peer (under the keys the gss_unwrapex entry uses), then faulted
    Sealed { msg_len: u16, fault: Option<FaultKind>, via_ts_validate: bool },
    /// a well-formed CHALLENGE whose target information is `total` bytes long (one big pair + timestamp + EOL), read with identities of different sizes
    BigInfo { total: u16, ident: u8, version: bool, unicode: bool },
    /// several correctly sealed server tokens on one security context, with these sequence numbers and lengths
    /// (increasing, repeated, decreasing, wrapping): none may panic
    SealedSeq { seqs: Vec<u32>, lens: Vec<u8> },
    /// cssp_connect over a raw scripted stream: the server's first TSRequest arrives as `data` cut by `schedule`, then end of stream
    Stream { data: Vec<u8>, schedule: Vec<u16> },
}

fn sealed_token(msg_len: usize) -> refimpl::rd::Built {
    let msg = engine::src::expand(msg_len as u32 + 3, msg_len);
    let tok = refimpl::crypto::SealCtx::new(&[2u8; 16], b"fedcba9876543210").seal(&msg);
    let mut b = refimpl::rd::Built::new();
    b.u32le("Version", u32::from_le_bytes([tok[0], tok[1], tok[2], tok[3]]));
    b.blob("Checksum", &tok[4..12]);
    b.u32le("SeqNum", u32::from_le_bytes([tok[12], tok[13], tok[14], tok[15]]));
    b.blob("Payload", &tok[16..]);
    b
}

fn guard_entry(out: &mut Outcome, name: &str, n: usize, f: impl FnOnce() -> rdp::model::error::RdpResult<()>) {
    let (r, st) = call(f);
    match r {
        Res::Panic(p) => fail_panic(out, name, &p),
        Res::Ok(()) => {
            out.label("ok");
        }
        Res::Err(_) => {
            out.label("err");
        }
    }
    check_alloc(out, name, &st, n);
}

fn entry_call(out: &mut Outcome, entry: u8, data: &[u8]) {
    match entry % 4 {
        0 => guard_entry(out, "read_challenge_message", data.len(), || {
            // the identity is a pure function of the message: ASCII, Latin-1, CJK, supplementary-plane and empty strings
            // (a CHALLENGE may select the OEM character set, in which wide characters have no encoding)
            let h = data.iter().fold(data.len() as u32, |a, b| a.wrapping_mul(31).wrapping_add(*b as u32));
            let (d, u, p) = match h % 8 {
                0 | 1 => ("dom", "user", "pass"),
                2 => ("dom", "\u{7528}\u{6237}", "pass"),
                3 => ("\u{57DF}\u{540D}", "user", "pass"),
                4 => ("dom", "user", "\u{5BC6}\u{7801}-\u{1F511}"),
                5 => ("d\u{F6}m", "\u{FC}ser", "p\u{E4}ss"),
                6 => ("", "", ""),
                _ => ("\u{10000}", "\u{FFFF}\u{100}", "\u{FF}\u{100}"),
            };
            let mut n = Ntlm::new(d.into(), u.into(), p.into());
            n.create_negotiate_message()?;
            n.read_challenge_message(data)?;
            // what cssp_connect does next with an accepted CHALLENGE
            let _ = n.get_domain_name();
            let _ = n.get_user_name();
            let _ = n.get_password();
            let mut si = n.build_security_interface();
            si.gss_wrapex(b"public key").map(|_| ())
        }),
        1 => guard_entry(out, "read_ts_server_challenge", data.len(), || cssp::read_ts_server_challenge(data).map(|_| ())),
        2 => guard_entry(out, "read_ts_validate", data.len(), || cssp::read_ts_validate(data).map(|_| ())),
        _ => guard_entry(out, "gss_unwrapex", data.len(), || {
            let mut si = NTLMv2SecurityInterface::new(Rc4::new(b"0123456789abcdef"), Rc4::new(b"fedcba9876543210"), vec![1; 16], vec![2; 16]);
            si.gss_unwrapex(data).map(|_| ())
        }),
    }
}

pub fn run(c: &Case) -> Outcome {
    let mut out = Outcome::new();
    match c {
        Case::Challenge { challenge, fault, fault2 } => {
            out.label("challenge");
            let b = ntlm::build_challenge(challenge);
            let mut bytes = b.bytes.clone();
            if let Some(k) = fault {
                bytes = apply_fault(&b, k).0;
                if let Some(k2) = fault2 {
                    let b2 = refimpl::rd::Built { bytes: bytes.clone(), fields: b.fields.iter().filter(|f| f.off + f.width as usize <= bytes.len()).cloned().collect() };
                    bytes = apply_fault(&b2, k2).0;
                }
            }
            let has_ts = challenge.target_info.iter().any(|(id, _)| *id == 7);
            out.nontrivial(bytes != b.bytes || !has_ts);
            if !has_ts {
                out.label("no-timestamp");
            }
            entry_call(&mut out, 0, &bytes);
            // the same token wrapped in a TSRequest through the CredSSP reader
            if !out.failed() {
                let ts = ntlm::build_ts_request(2, Some(&bytes), None, None, LenForm::Minimal);
                entry_call(&mut out, 1, &ts);
            }
        }
        Case::Raw { entry, data } => {
            out.label("raw");
            out.nontrivial(!data.is_empty());
            entry_call(&mut out, *entry, data);
        }
        Case::Tree { entry, node, long } => {
            out.label("tree");
            out.nontrivial(true);
            let form = if *long == 0 { LenForm::Minimal } else { LenForm::Long(*long) };
            let bytes = der::encode(node, form);
            entry_call(&mut out, 1 + (*entry % 2), &bytes);
        }
        Case::Sealed { msg_len, fault, via_ts_validate } => {
            out.label("sealed");
            let b = sealed_token(*msg_len as usize);
            let bytes = match fault {
                Some(k) => apply_fault(&b, k).0,
                None => b.bytes.clone(),
            };
            out.nontrivial(bytes != b.bytes);
            if *via_ts_validate {
                // the way cssp_connect uses it: TSRequest -> pubKeyAuth -> gss_unwrapex
                let ts = ntlm::build_ts_request(2, None, None, Some(&bytes), LenForm::Minimal);
                guard_entry(&mut out, "read_ts_validate+gss_unwrapex", ts.len(), || {
                    let tok = cssp::read_ts_validate(&ts)?;
                    let mut si = NTLMv2SecurityInterface::new(Rc4::new(b"0123456789abcdef"), Rc4::new(b"fedcba9876543210"), vec![1; 16], vec![2; 16]);
                    si.gss_unwrapex(&tok).map(|_| ())
                });
            } else {
                entry_call(&mut out, 3, &bytes);
            }
        }
        Case::SealedSeq { seqs, lens } => {
            out.label("sealed-sequence");
            out.nontrivial(seqs.len() >= 2);
            let mut server = refimpl::crypto::SealCtx::new(&[2u8; 16], b"fedcba9876543210");
            let tokens: Vec<Vec<u8>> = seqs
                .iter()
                .enumerate()
                .map(|(i, q)| {
                    server.seq = *q;
                    let l = lens.get(i).copied().unwrap_or(8) as usize;
                    server.seal(&engine::src::expand(i as u32 + 1, l))
                })
                .collect();
            let total: usize = tokens.iter().map(|t| t.len()).sum();
            guard_entry(&mut out, "gss_unwrapex(sequence)", total, move || {
                let mut si = NTLMv2SecurityInterface::new(Rc4::new(b"0123456789abcdef"), Rc4::new(b"fedcba9876543210"), vec![1; 16], vec![2; 16]);
                for t in &tokens {
                    // results are free (a context may refuse a replayed number); only panics count
                    let _ = si.gss_unwrapex(t);
                }
                Ok(())
            });
        }
        Case::BigInfo { total, ident, version, unicode } => {
            out.label("big-target-info");
            out.nontrivial(true);
            let total = (*total).max(20) as usize;
            let mut ch = base_challenges()[0].clone();
            ch.flags = ntlm::MANDATORY | if *version { ntlm::NEG_VERSION } else { 0 } | if *unicode { ntlm::NEG_UNICODE } else { ntlm::NEG_OEM };
            ch.target_name = Vec::new();
            ch.gap = 0;
            // timestamp pair (12) + big pair (4 + n) + EOL (4) = total
            ch.target_info = vec![(7, vec![1, 2, 3, 4, 5, 6, 7, 8]), (2, vec![0x41; total - 20])];
            let b = ntlm::build_challenge(&ch);
            let (d, u) = match ident % 4 {
                0 => (String::new(), String::new()),
                1 => ("domain".to_string(), "user".to_string()),
                2 => ("D".repeat(15), "U".repeat(20)),
                _ => ("d".repeat(64), "u".repeat(104)),
            };
            let bytes = b.bytes.clone();
            guard_entry(&mut out, "read_challenge_message", bytes.len(), move || {
                let mut n = Ntlm::new(d, u, "pass".into());
                n.create_negotiate_message()?;
                n.read_challenge_message(&bytes).map(|_| ())
            });
        }
        Case::Stream { data, schedule } => {
            out.label("cssp-stream");
            out.nontrivial(!data.is_empty());
            let (reader, _handed, eof) = crate::io::ChunkReader::new(data.clone(), schedule.clone());
            let n = data.len();
            let (r, st) = call(move || {
                let mut link = rdp::model::link::Link::new(rdp::model::link::Stream::Raw(reader));
                let mut ntlm = Ntlm::new("dom".into(), "user".into(), "pass".into());
                cssp::cssp_connect(&mut link, &mut ntlm, false)
            });
            match r {
                Res::Panic(p) => fail_panic(&mut out, "cssp_connect", &p),
                Res::Ok(()) => {
                    out.label("ok");
                }
                Res::Err(_) => {
                    out.label("err");
                }
            }
            check_alloc(&mut out, "cssp_connect", &st, n);
            if *eof.borrow() > 64 {
                out.fail("cssp_connect:spin", format!("more than 64 reads on a finished stream ({} bytes served)", n));
            }
        }
        Case::Tls { base, challenge_ts, final_reply } => {
            out.label("tls");
            out.nontrivial(true);
            let mut scfg = c17::server_cfg(base);
            if let Some(n) = scfg.nla.as_mut() {
                n.challenge_override = challenge_ts.clone();
                if let Some(f) = final_reply {
                    n.final_reply = f.clone();
                }
            }
            let run = tls::run_tls(&base.cfg, &scfg, 0, false, &mut |_| ());
            if run.client_timeout || run.report.timeout {
                out.fail("inconclusive:timeout", "a socket timeout hit; not counted as a violation");
                return out;
            }
            match &run.connect {
                Res::Panic(p) => fail_panic(&mut out, "Connector::connect(nla)", p),
                Res::Ok(()) => {
                    out.label("ok");
                }
                Res::Err(_) => {
                    out.label("err");
                }
            }
        }
    }
    out
}

/// honest handshake against an unusual certificate: must not panic, and since everything else is conforming it must succeed
pub fn run_cert(c: &Case) -> Outcome {
    let mut out = Outcome::new();
    out.nontrivial(true);
    if let Case::Tls { base, .. } = c {
        let scfg = c17::server_cfg_raw_identity(base);
        let name = tls::pki().ids[base.identity as usize].name;
        let run = tls::run_tls(&base.cfg, &scfg, 0, false, &mut |_| ());
        if run.client_timeout || run.report.timeout {
            out.fail("inconclusive:timeout", "a socket timeout hit; not counted as a violation");
            return out;
        }
        match &run.connect {
            Res::Panic(p) => fail_panic(&mut out, &format!("Connector::connect(certificate {})", name), p),
            Res::Ok(()) => {
                out.label("ok");
            }
            Res::Err(e) => {
                // an error is acceptable for C07 (never a panic); it is recorded for the reader
                out.label("err");
                let _ = e;
            }
        }
    }
    out
}

/// TSRequest-like byte strings whose size sits on the client's 1500-byte read size and its multiples, with DER
/// headers announcing less, exactly, or more than what follows; served whole, in pieces, or byte by byte
fn stream_cases() -> Vec<Case> {
    let mut v = Vec::new();
    let ch = ntlm::build_challenge(&base_challenges()[0]);
    let honest = ntlm::build_ts_request(2, Some(&ch.bytes), None, None, LenForm::Minimal);
    for schedule in [vec![], vec![1500u16], vec![1u16], vec![700u16, 800], vec![1499u16, 1]] {
        v.push(Case::Stream { data: honest.clone(), schedule: schedule.clone() });
        for size in [0usize, 1, 2, 3, 4, 5, 1498, 1499, 1500, 1501, 1502, 2999, 3000, 3001, 4500, 6000] {
            for announced in [0usize, 1, 100, size.saturating_sub(5), size.saturating_sub(4), size, size + 1, size + 1500, 3000, 65535, 0x10000, 0xFFFFFF, 0x7FFF_FFFF, 0xFFFF_FFFF] {
                for form in 0..3u8 {
                    let mut d = vec![0x30u8];
                    match form {
                        0 => d.extend_from_slice(&[0x82, (announced >> 8) as u8, announced as u8]),
                        1 => d.extend_from_slice(&[0x83, (announced >> 16) as u8, (announced >> 8) as u8, announced as u8]),
                        _ => d.extend_from_slice(&[0x84, (announced >> 24) as u8, (announced >> 16) as u8, (announced >> 8) as u8, announced as u8]),
                    }
                    // plausible content: the honest TSRequest body repeated
                    while d.len() < size {
                        let need = size - d.len();
                        d.extend_from_slice(&honest[4.min(honest.len())..][..need.min(honest.len() - 4)]);
                    }
                    d.truncate(size);
                    v.push(Case::Stream { data: d, schedule: schedule.clone() });
                }
            }
        }
    }
    v
}

fn big_info(part: usize, parts: usize) -> impl Iterator<Item = Case> {
    // every total length in the last 600 bytes of the 16-bit range, a coarse sweep below it
    let totals: Vec<u16> = (20u32..64936).step_by(487).chain(64936..=65535).map(|x| x as u16).collect();
    let mut v = Vec::new();
    for t in totals {
        for ident in 0..4u8 {
            for (version, unicode) in [(true, true), (false, true), (true, false)] {
                v.push(Case::BigInfo { total: t, ident, version, unicode });
            }
        }
    }
    v.into_iter().enumerate().filter(move |(i, _)| i % parts == part).map(|(_, c)| c)
}

pub fn gen_fault(s: &mut Src) -> FaultKind {
    match s.below(10) {
        0 | 1 | 2 | 3 => {
            let value = match s.below(4) {
                0 => s.pick(&crate::props::hostile::B16V),
                1 => s.pick(&crate::props::hostile::B32V),
                2 => s.u8() as u32,
                _ => s.u32(),
            };
            FaultKind::SetField { field: s.u16(), value }
        }
        4 | 5 => FaultKind::Truncate(s.u16()),
        6 => {
            let n = 1 + s.below(8);
            FaultKind::Extend(s.bytes(n))
        }
        _ => {
            let n = 1 + s.below(8);
            FaultKind::Xor((0..n).map(|_| (s.u16(), s.u8() | 1)).collect())
        }
    }
}

fn gen_hostile_challenge(s: &mut Src) -> Challenge {
    let uni = s.bool();
    let mut c = gen_challenge(s, uni);
    match s.below(8) {
        0 => c.target_info.retain(|(id, _)| *id != 7),
        1 => c.target_info.clear(),
        2 => {
            let id = s.pick(&[0u16, 0x0B, 0x0C, 0x10, 0x20, 0xFFFF, 7, 7]);
            let l = s.below(20);
            c.target_info.push((id, s.fill(l)));
        }
        3 => c.flags = s.u32(),
        _ => {}
    }
    c
}

fn gen_tree(s: &mut Src) -> Node {
    let tok = |s: &mut Src| {
        let l = s.below(40);
        Node::Octets(s.fill(l))
    };
    let nego_item = |s: &mut Src| Node::Seq(vec![Node::Explicit(0, Box::new(tok(s)))]);
    let ntok = s.below(4);
    let mut items = vec![Node::Explicit(0, Box::new(Node::Int(s.pick(&[2u32, 3, 5, 6, 0, 0xFFFF_FFFF]))))];
    match s.below(8) {
        0 => items.push(Node::Explicit(1, Box::new(Node::SeqOf(vec![])))),
        1 => items.push(Node::Explicit(1, Box::new(Node::SeqOf((0..ntok).map(|_| nego_item(s)).collect())))),
        2 => items.push(Node::Explicit(3, Box::new(tok(s)))),
        3 => {
            items.push(Node::Explicit(1, Box::new(Node::SeqOf(vec![Node::Seq(vec![])]))));
        }
        4 => items.push(Node::Explicit(1, Box::new(Node::SeqOf(vec![Node::Seq(vec![Node::Explicit(1, Box::new(tok(s)))])])))),
        5 => {
            items.push(Node::Explicit(1, Box::new(Node::SeqOf(vec![nego_item(s)]))));
            items.push(Node::Explicit(3, Box::new(tok(s))));
        }
        6 => items.push(Node::Explicit(2, Box::new(tok(s)))),
        _ => {
            items.clear();
        }
    }
    if s.chance(32) {
        items.reverse();
    }
    Node::Seq(items)
}

pub fn decode(s: &mut Src) -> Case {
    match s.below(14) {
        13 => {
            let n = 1 + s.below(6);
            let mut seqs = Vec::new();
            let mut cur = s.b32();
            for _ in 0..n {
                seqs.push(cur);
                cur = match s.below(5) {
                    0 => cur,
                    1 => cur.wrapping_sub(1 + s.below(5) as u32),
                    2 => s.b32(),
                    _ => cur.wrapping_add(1 + s.below(3) as u32),
                };
            }
            Case::SealedSeq { seqs, lens: (0..n).map(|_| s.below(40) as u8).collect() }
        }
        11 => Case::BigInfo { total: if s.bool() { 65535 - s.below(700) as u16 } else { s.u16() }, ident: s.u8(), version: s.bool(), unicode: s.chance(200) },
        12 => {
            // a stream whose length is near a multiple of the 1500-byte read size, DER-framed or free
            let size = match s.below(4) {
                0 => s.below(64),
                1 => 1500 * (1 + s.below(3)) + s.below(5) - 2,
                2 => 1500 * (1 + s.below(3)),
                _ => s.below(5000),
            };
            let mut d = s.fill(size);
            if s.chance(200) && size >= 5 {
                let announced = match s.below(4) {
                    0 => size as u32 - 4,
                    1 => size as u32 + s.below(3000) as u32,
                    2 => s.b32(),
                    _ => s.below(size + 1) as u32,
                };
                d[0] = 0x30;
                d[1] = 0x82;
                d[2] = (announced >> 8) as u8;
                d[3] = announced as u8;
            }
            let schedule = match s.below(4) {
                0 => vec![],
                1 => vec![1500],
                2 => vec![1 + s.below(1600) as u16],
                _ => vec![1 + s.below(1600) as u16, 1 + s.below(1600) as u16],
            };
            Case::Stream { data: d, schedule }
        }
        10 => Case::Sealed { msg_len: s.small(300) as u16, fault: if s.chance(16) { None } else { Some(gen_fault(s)) }, via_ts_validate: s.bool() },
        0 => {
            let n = s.below(64);
            Case::Raw { entry: s.u8(), data: s.bytes(n) }
        }
        1 | 2 => Case::Tree { entry: s.u8(), node: gen_tree(s), long: s.pick(&[0u8, 0, 1, 2]) },
        _ => {
            let fault = if s.chance(230) { Some(gen_fault(s)) } else { None };
            let fault2 = if fault.is_some() && s.chance(64) { Some(gen_fault(s)) } else { None };
            Case::Challenge { challenge: gen_hostile_challenge(s), fault, fault2 }
        }
    }
}

pub fn decode_tls(s: &mut Src) -> Case {
    let which = s.below(3);
    let bits = 1 | (s.u8() & 0x1E);
    let mut base = c17::gen_case(s, Some(bits));
    base.cfg.nla = true;
    let challenge_ts = if which != 0 {
        let c = gen_hostile_challenge(s);
        let b = ntlm::build_challenge(&c);
        let f = gen_fault(s);
        let token = apply_fault(&b, &f).0;
        Some(match s.below(4) {
            0 => der::encode(&gen_tree(s), LenForm::Minimal),
            1 => {
                // never empty: a server that sends nothing leaves both sides waiting (not a fault of interest)
                let n = 1 + s.below(40);
                s.bytes(n)
            }
            _ => ntlm::build_ts_request(2, Some(&token), None, None, LenForm::Minimal),
        })
    } else {
        None
    };
    let final_reply = if which == 0 {
        Some(match s.below(8) {
            0 => {
                let n = s.below(200);
                FinalReply::Garbage(s.fill(n))
            }
            1 => FinalReply::Truncate(s.u16()),
            // correctly sealed replies whose plaintext has an unexpected length or content: they pass the signature check and
            // reach the code that compares public keys
            3 => FinalReply::PlainTruncated(s.pick(&[0u16, 1, 2, 100, 0xFFFF, 0xFFFE, 7])),
            4 => {
                let n = 1 + s.below(300);
                FinalReply::PlainSuffix(s.fill(n))
            }
            5 => {
                let n = 1 + s.below(300);
                FinalReply::PlainPrefix(s.fill(n))
            }
            6 => FinalReply::PlainXor(vec![(s.u16(), s.u8() | 1)]),
            7 => s.pick(&[FinalReply::Offset(0), FinalReply::OtherCert, FinalReply::NoCarryPlusOne, FinalReply::MinusOne, FinalReply::WrongSeq(7)]),
            _ => {
                let n = s.below(64);
                FinalReply::RandomToken(s.fill(n))
            }
        })
    } else {
        None
    };
    Case::Tls { base, challenge_ts, final_reply }
}

fn base_challenges() -> Vec<Challenge> {
    let seeds: [&[u8]; 4] = [&[1, 2, 3, 4, 5, 6, 7, 8, 9, 10, 11, 12, 13, 14, 15, 16, 17, 18, 19, 20, 21, 22, 23, 24], &[200, 100, 50, 25, 12, 6, 3, 1, 255, 254, 253, 252, 251, 250, 249, 248, 1, 1, 1, 1, 77, 88, 99, 110, 120, 130], &[9; 40], &[0; 4]];
    let mut v: Vec<Challenge> = seeds.iter().map(|s| gen_challenge(&mut Src::new(s), true)).collect();
    // no version flag / other payload order
    let mut c = v[0].clone();
    c.flags &= !ntlm::NEG_VERSION;
    c.payload_order = 1;
    v.push(c);
    let mut c = v[1].clone();
    c.target_info.retain(|(id, _)| *id != 7);
    v.push(c);
    let mut c = v[0].clone();
    c.target_info.clear();
    v.push(c);
    v
}

fn sweep(tier: Tier, part: usize, parts: usize) -> impl Iterator<Item = Case> {
    let mut v = Vec::new();
    for ch in base_challenges() {
        let b = ntlm::build_challenge(&ch);
        let widths: Vec<u8> = b.fields.iter().filter(|f| f.width > 0).map(|f| f.width).collect();
        for (fi, w) in widths.iter().enumerate() {
            for val in values_for(*w) {
                v.push(Case::Challenge { challenge: ch.clone(), fault: Some(FaultKind::SetField { field: fi as u16, value: val }), fault2: None });
            }
            // lengths / offsets around the message size
            for d in [-2i64, -1, 0, 1, 2] {
                for base in [b.bytes.len() as i64, 48, 56] {
                    v.push(Case::Challenge { challenge: ch.clone(), fault: Some(FaultKind::SetField { field: fi as u16, value: (base + d).max(0) as u32 }), fault2: None });
                }
            }
        }
        for t in 0..b.bytes.len() {
            v.push(Case::Challenge { challenge: ch.clone(), fault: Some(FaultKind::Truncate(t as u16)), fault2: None });
        }
        // every AvId for the first pair
        for id in (0..=0x20u16).chain([0xFFFF, 0x8000]) {
            let mut c2 = ch.clone();
            if let Some(first) = c2.target_info.first_mut() {
                first.0 = id;
            } else {
                c2.target_info.push((id, vec![1, 2]));
            }
            v.push(Case::Challenge { challenge: c2, fault: None, fault2: None });
        }
    }
    // sealed tokens: every truncation length, every field value sweep, version prefix with short tails
    for msg_len in [0usize, 1, 7, 40] {
        let b = sealed_token(msg_len);
        for via in [false, true] {
            for t in 0..=b.bytes.len() {
                v.push(Case::Sealed { msg_len: msg_len as u16, fault: Some(FaultKind::Truncate(t as u16)), via_ts_validate: via });
            }
            for (fi, val) in [(0u16, 0u32), (0, 2), (0, 0x0100_0000), (1, 0), (1, 1), (1, 0xFFFF_FFFF)] {
                v.push(Case::Sealed { msg_len: msg_len as u16, fault: Some(FaultKind::SetField { field: fi, value: val }), via_ts_validate: via });
            }
            v.push(Case::Sealed { msg_len: msg_len as u16, fault: Some(FaultKind::Truncate(0)), via_ts_validate: via });
        }
    }
    for n in 0..24usize {
        for fill in [0u8, 0xFF] {
            let mut d = vec![1u8, 0, 0, 0];
            d.extend(std::iter::repeat(fill).take(n));
            v.push(Case::Raw { entry: 3, data: d });
        }
    }
    // every byte string up to length 2 (3 thorough) at each entry: generated lazily (tens of millions of cases must never
    // be materialised, let alone once per worker)
    let maxlen = if tier == Tier::Thorough { 3 } else { 2 };
    let nstr: usize = (0..=maxlen).map(|l| 256usize.pow(l as u32)).sum();
    let strings = (part..4 * nstr).step_by(parts).map(move |idx| {
        let e = (idx / nstr) as u8;
        let mut k = idx % nstr;
        let mut len = 0;
        while k >= 256usize.pow(len as u32) {
            k -= 256usize.pow(len as u32);
            len += 1;
        }
        Case::Raw { entry: e, data: (0..len).map(|j| ((k >> (8 * j)) & 0xFF) as u8).collect() }
    });
    v.into_iter().enumerate().filter(move |(i, _)| i % parts == part).map(|(_, c)| c).chain(strings)
}

pub fn check(rep: &Report) {
    tls::pki();
    rep.assume("error kinds are never asserted; only Ok/Err versus panic / spin / disproportionate allocation");
    rep.assume("adversarial X.509 certificates that OpenSSL accepts but the client's certificate parser rejects are not generated (DESIGN §8)");
    let tier = rep.tier;
    rep.enumerate("field-sweep", true, move |p, n| sweep(tier, p, n), run);
    rep.list("cssp-stream", stream_cases(), run);
    // every TLV header of honest TSRequests (challenge round, final round) with its length in every long form up to 8 octets
    // (true value, all ones, 0x7F.., 0x80 00.., one too many), the indefinite and the reserved form, at the two TSRequest
    // readers and through cssp_connect
    {
        let ch = ntlm::build_challenge(&base_challenges()[0]);
        let round2 = ntlm::build_ts_request(2, Some(&ch.bytes), None, None, LenForm::Minimal);
        let round4 = ntlm::build_ts_request(2, None, None, Some(&sealed_token(270).bytes), LenForm::Minimal);
        let mut dl = Vec::new();
        for m in refimpl::wire::der_length_mutations(&round2, 0) {
            dl.push(Case::Raw { entry: 1, data: m.clone() });
            dl.push(Case::Stream { data: m, schedule: vec![] });
        }
        for m in refimpl::wire::der_length_mutations(&round4, 0) {
            dl.push(Case::Raw { entry: 2, data: m.clone() });
            dl.push(Case::Raw { entry: 1, data: m });
        }
        // the same for TSRequests short enough that every enclosing element uses the short length form (a guard that only looks
        // below long-form parents is not exercised by the full-size messages above)
        let small2 = ntlm::build_ts_request(2, Some(&[0x4E, 0x54, 0x4C, 0x4D]), None, None, LenForm::Minimal);
        let small4 = ntlm::build_ts_request(2, None, None, Some(&[1, 0, 0, 0, 0, 0, 0, 0, 0, 0, 0, 0, 0, 0, 0, 0, 0xAA, 0xBB]), LenForm::Minimal);
        let small_both = ntlm::build_ts_request(3, Some(&[0x4E; 40]), None, Some(&[0x55; 40]), LenForm::Minimal);
        for base in [&small2, &small4, &small_both] {
            assert!(base.len() < 128 + 2, "small TSRequest bases must keep the short length form");
            for m in refimpl::wire::der_length_mutations(base, 0) {
                dl.push(Case::Raw { entry: 1, data: m.clone() });
                dl.push(Case::Raw { entry: 2, data: m.clone() });
                dl.push(Case::Stream { data: m, schedule: vec![] });
            }
        }
        rep.list("der-length-forms", dl, run);
    }
    // TSRequests of every protocol version with each optional field [1]..[6] present as INTEGER, OCTET STRING or nested
    // SEQUENCE, the integers swept over small values, boundaries and the NTSTATUS range (the errorCode of CredSSP v3+)
    let mut tsr = Vec::new();
    let ints: Vec<u32> = (0..40u32).chain(0xC000_0000..0xC000_0200).chain(0x8009_0300..0x8009_0330).chain([0x7F, 0x80, 0xFF, 0x100, 0x7FFF, 0x8000, 0xFFFF, 0x10000, 0x7FFF_FFFF, 0x8000_0000, 0xFFFF_FFFF]).collect();
    for version in [1u32, 2, 3, 4, 5, 6, 7, 0xFFFF] {
        for tag in 1..=6u8 {
            for (k, v) in ints.iter().enumerate() {
                // the full cross product is large: every value for the errorCode tag, a stride elsewhere
                if tag != 4 && k % 16 != 0 {
                    continue;
                }
                let node = Node::Seq(vec![Node::Explicit(0, Box::new(Node::Int(version))), Node::Explicit(tag, Box::new(Node::Int(*v)))]);
                for entry in [1u8, 2] {
                    tsr.push(Case::Tree { entry, node: node.clone(), long: 0 });
                }
            }
            for body in [Node::Octets(vec![]), Node::Octets(vec![1, 0, 0, 0, 0, 0, 0, 0, 0, 0, 0, 0, 0, 0, 0, 0]), Node::Seq(vec![]), Node::SeqOf(vec![Node::Seq(vec![Node::Explicit(0, Box::new(Node::Octets(vec![0x4E, 0x54])))])])] {
                let node = Node::Seq(vec![Node::Explicit(0, Box::new(Node::Int(version))), Node::Explicit(tag, Box::new(body.clone()))]);
                for entry in [1u8, 2] {
                    tsr.push(Case::Tree { entry, node: node.clone(), long: 0 });
                }
                // the same field behind a conforming pubKeyAuth / negoTokens field
                let node = Node::Seq(vec![Node::Explicit(0, Box::new(Node::Int(version))), Node::Explicit(3, Box::new(Node::Octets(vec![1, 0, 0, 0, 9, 9, 9, 9, 9, 9, 9, 9, 0, 0, 0, 0, 7]))), Node::Explicit(tag, Box::new(body))]);
                tsr.push(Case::Tree { entry: 2, node, long: 0 });
            }
        }
    }
    rep.list("tsrequest-fields", tsr, run);
    // every ordered pair and some triples of sequence numbers around 0, 1, 2^31, 2^32-1 on one context
    let mut sq = Vec::new();
    let vals = [0u32, 1, 2, 3, 7, 0x7FFF_FFFF, 0x8000_0000, 0xFFFF_FFFE, 0xFFFF_FFFF];
    for a in vals {
        for b in vals {
            sq.push(Case::SealedSeq { seqs: vec![a, b], lens: vec![5, 9] });
            sq.push(Case::SealedSeq { seqs: vec![a, b, a], lens: vec![0, 1, 2] });
            sq.push(Case::SealedSeq { seqs: vec![0, a, b, 0], lens: vec![3, 3, 3, 3] });
        }
    }
    rep.list("sealed-sequences", sq, run);
    rep.enumerate("big-target-info", true, big_info, run);
    rep.random("faults", rep.tier.n(400_000, 10_000_000), 160, decode, run);
    rep.random("tls", rep.tier.n(600, 20_000), 200, decode_tls, run);
    // unusual but valid server certificates through the client's certificate parser (honest handshakes)
    let n_ids = tls::pki().ids.len();
    let mut certs = Vec::new();
    for id in 4..n_ids {
        let mut base = c17::gen_case(&mut Src::new(&[id as u8, 9, 8, 7, 6, 5, 4, 3, 2, 1, 77, 66, 55, 44, 33, 22, 11, 200, 100, 50]), Some(1));
        base.identity = id as u8;
        certs.push(Case::Tls { base, challenge_ts: None, final_reply: None });
    }
    rep.list("tls-certificates", certs, run_cert);
    // correctly sealed final replies with plaintexts of every awkward length, for each key type
    let mut sealed_final = Vec::new();
    for identity in 0..4u8 {
        let mut base = crate::props::c17::gen_case(&mut Src::new(&[identity, 9, 9, 1, 2, 3, 4, 5, 6, 7, 8, 9, 10, 11, 12, 13, 14, 15, 16, 17, 18]), Some(1));
        base.cfg.nla = true;
        base.identity = identity;
        base.challenge.flags |= ntlm::NEG_UNICODE;
        for r in [FinalReply::PlainTruncated(0), FinalReply::PlainTruncated(1), FinalReply::PlainTruncated(100), FinalReply::PlainTruncated(0xFFFF), FinalReply::PlainSuffix(vec![0; 1]), FinalReply::PlainSuffix(vec![0xFF; 300]), FinalReply::PlainSuffix(vec![1; 70000]), FinalReply::PlainPrefix(vec![0xFF; 5]), FinalReply::NoCarryPlusOne, FinalReply::Offset(0)] {
            sealed_final.push(Case::Tls { base: base.clone(), challenge_ts: None, final_reply: Some(r) });
        }
    }
    rep.list("tls-sealed-final-replies", sealed_final, run);
    rep.require("faults", "challenge", 50_000);
    rep.require("faults", "tree", 5_000);
    rep.require("faults", "no-timestamp", 1_000);
}
