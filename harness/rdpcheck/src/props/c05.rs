//! C05 — Hostile server bytes during connection setup never crash the client.
pub use crate::props::hostile::{check05 as check, LEVEL, RULE_C05 as RULE};
