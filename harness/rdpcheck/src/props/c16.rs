//! C16 — NTLM session security seals per MS-NLMP, round-trips, and rejects tampering.
use crate::util::{call, fail_panic, hexs, Res};
use engine::{Outcome, Report, Src};
use rdp::nla::ntlm::NTLMv2SecurityInterface;
use rdp::nla::rc4::Rc4 as LibRc4;
use rdp::nla::sspi::{AuthenticationProtocol, GenericSecurityService};
use refimpl::crypto::{self, SealCtx};
use serde::{Deserialize, Serialize};

pub const LEVEL: &str = "exploration";
pub const RULE: &str = "case = (key material: exported session key or four independent keys; history of messages in both directions with lengths 0..300; optional tamper of one server-to-client message: bit flip, truncation, extension). Oracle: every gss_wrapex output is byte-identical to the independent MS-NLMP seal under the client keys with carried RC4 state and sequence numbers 0,1,2..; every message sealed by the reference server unseals to its plaintext; every tampered message yields Err, and so does every altered message presented after that rejection (the same one again, altered versions of the peer's following messages; whether genuine messages still unseal then is not asserted). Tampers: bit flips, truncations, extensions, constant overwrites of checksum / sequence number / whole header (a 'dummy signature'), forged messages. handshake-contexts: the context comes from Ntlm handshake(s) against the reference verifier (one or several CHALLENGEs answered by the same Ntlm object) followed by build_security_interface(), and is compared with the reference keyed by the session key recovered from the last AUTHENTICATE. bitflips section enumerates every single-bit flip, every truncation length and 1..4 byte extensions of every server message of a set of histories (fresh context, preceding messages replayed). Non-trivial = history with >= 2 messages in one direction (state continuity) or a tamper; distinct by hash of the case.";

#[derive(Serialize, Deserialize, Hash, Clone, Debug)]
pub enum Tamper {
    Flip { msg: u8, bit: u32 },
    Truncate { msg: u8, keep: u32 },
    Extend { msg: u8, extra: Vec<u8> },
    /// bytes start.. of the sealed message overwritten (zeroed checksum / sequence number, forged header ...)
    Overwrite { msg: u8, start: u8, bytes: Vec<u8> },
}

#[derive(Serialize, Deserialize, Hash, Clone, Debug)]
pub struct Case {
    /// Some = derive all four keys from this exported session key; None = use `keys`
    pub exported: Option<Vec<u8>>,
    /// client_sign, server_sign, client_seal, server_seal
    pub keys: Vec<Vec<u8>>,
    /// (to_server, plaintext)
    pub history: Vec<(bool, Vec<u8>)>,
    pub tamper: Option<Tamper>,
}

fn keys_of(c: &Case) -> [Vec<u8>; 4] {
    match &c.exported {
        Some(e) => {
            let k = crypto::session_keys(e);
            [k.client_sign, k.server_sign, k.client_seal, k.server_seal]
        }
        None => [c.keys[0].clone(), c.keys[1].clone(), c.keys[2].clone(), c.keys[3].clone()],
    }
}

pub fn run(c: &Case) -> Outcome {
    let mut out = Outcome::new();
    let k = keys_of(c);
    let n_c2s = c.history.iter().filter(|m| m.0).count();
    let n_s2c = c.history.len() - n_c2s;
    out.nontrivial(n_c2s >= 2 || n_s2c >= 2 || c.tamper.is_some());
    if n_c2s >= 2 {
        out.label("multi-wrap");
    }
    if n_s2c >= 2 {
        out.label("multi-unwrap");
    }
    if c.tamper.is_some() {
        out.label("tamper");
    }
    let mut lib = NTLMv2SecurityInterface::new(LibRc4::new(&k[2]), LibRc4::new(&k[3]), k[0].clone(), k[1].clone());
    let mut ref_client = SealCtx::new(&k[0], &k[2]);
    let mut ref_server = SealCtx::new(&k[1], &k[3]);
    let mut s2c_index = 0u8;
    for (i, (to_server, msg)) in c.history.iter().enumerate() {
        if *to_server {
            let want = ref_client.seal(msg);
            let (r, _) = call(|| lib.gss_wrapex(msg));
            match r {
                Res::Ok(got) => {
                    if got != want {
                        let part = if got.len() != want.len() {
                            "length"
                        } else if got[0..4] != want[0..4] {
                            "version"
                        } else if got[12..16] != want[12..16] {
                            "seqnum"
                        } else if got[16..] != want[16..] {
                            "ciphertext"
                        } else {
                            "checksum"
                        };
                        out.fail(format!("seal:differs:{}", part), format!("message #{} (len {}): gss_wrapex gave {} want {}", i, msg.len(), hexs(&got), hexs(&want)));
                        return out;
                    }
                }
                Res::Err(e) => {
                    out.fail("seal:error", format!("gss_wrapex failed on message #{}: {}", i, e));
                    return out;
                }
                Res::Panic(p) => {
                    fail_panic(&mut out, "gss_wrapex", &p);
                    return out;
                }
            }
        } else {
            let sealed = ref_server.seal(msg);
            let mut token = sealed.clone();
            let mut tampered = false;
            match &c.tamper {
                Some(Tamper::Flip { msg: m, bit }) if *m == s2c_index => {
                    let b = (*bit as usize) % (token.len() * 8);
                    token[b / 8] ^= 1 << (b % 8);
                    tampered = true;
                }
                Some(Tamper::Truncate { msg: m, keep }) if *m == s2c_index => {
                    let kk = (*keep as usize) % token.len();
                    token.truncate(kk);
                    tampered = true;
                }
                Some(Tamper::Extend { msg: m, extra }) if *m == s2c_index && !extra.is_empty() => {
                    token.extend_from_slice(extra);
                    tampered = true;
                }
                Some(Tamper::Overwrite { msg: m, start, bytes }) if *m == s2c_index => {
                    for (k, b) in bytes.iter().enumerate() {
                        let i = *start as usize + k;
                        if i < token.len() {
                            token[i] = *b;
                        }
                    }
                    tampered = token != sealed;
                }
                _ => {}
            }
            s2c_index = s2c_index.wrapping_add(1);
            let (r, _) = call(|| lib.gss_unwrapex(&token));
            match r {
                Res::Panic(p) => {
                    fail_panic(&mut out, "gss_unwrapex", &p);
                    return out;
                }
                Res::Ok(plain) => {
                    if tampered {
                        let region = match &c.tamper {
                            Some(Tamper::Flip { bit, .. }) => {
                                let b = (*bit as usize) % (sealed.len() * 8) / 8;
                                if b < 4 {
                                    "flip:version"
                                } else if b < 12 {
                                    "flip:checksum"
                                } else if b < 16 {
                                    "flip:seqnum"
                                } else {
                                    "flip:ciphertext"
                                }
                            }
                            Some(Tamper::Truncate { .. }) => "truncate",
                            Some(Tamper::Overwrite { .. }) => "overwrite",
                            _ => "extend",
                        };
                        out.fail(format!("unseal:tamper-accepted:{}", region), format!("altered message #{} accepted ({:?}); original {} altered {} plaintext returned {}", i, c.tamper, hexs(&sealed), hexs(&token), hexs(&plain)));
                        return out;
                    }
                    if &plain != msg {
                        out.fail("unseal:wrong-plaintext", format!("message #{}: got {} want {}", i, hexs(&plain), hexs(msg)));
                        return out;
                    }
                }
                Res::Err(e) => {
                    if !tampered {
                        out.fail("unseal:rejected-honest", format!("honest server message #{} (len {}) rejected: {}", i, msg.len(), e));
                    }
                    if !tampered {
                        return out;
                    }
                    // Whether genuine messages still unseal after a rejection is not asserted (the cipher state may or may not
                    // have advanced). But an altered message must be rejected however often and in whatever state it is
                    // presented: the same altered message again, and altered versions of the peer's following messages.
                    let mut again: Vec<Vec<u8>> = vec![token.clone(), token.clone()];
                    for (to_server2, msg2) in c.history.iter().skip(i + 1) {
                        if !*to_server2 {
                            let mut t = ref_server.seal(msg2);
                            let k = t.len() - 1;
                            t[k.min(5)] ^= 0x01;
                            again.push(t);
                        }
                    }
                    for (n, t) in again.iter().enumerate().take(6) {
                        let (r, _) = call(|| lib.gss_unwrapex(t));
                        match r {
                            Res::Panic(p) => {
                                fail_panic(&mut out, "gss_unwrapex", &p);
                                return out;
                            }
                            Res::Ok(plain) => {
                                out.fail("unseal:tamper-accepted:after-rejection", format!("altered message presented after a rejection (attempt #{}) was accepted and yielded {} bytes of plaintext; first alteration {:?}", n, plain.len(), c.tamper));
                                return out;
                            }
                            Res::Err(_) => {}
                        }
                    }
                    return out;
                }
            }
        }
    }
    out
}

/// a security context obtained the way the library's users obtain it: Ntlm handshake(s) against the reference
/// server, then build_security_interface(); its messages must interoperate with the keys derived from the
/// session key of the LAST handshake
#[derive(Serialize, Deserialize, Hash, Clone, Debug)]
pub struct HsCase {
    pub hs: crate::props::c15::Case,
    pub history: Vec<(bool, Vec<u8>)>,
}

pub fn run_handshake(c: &HsCase) -> Outcome {
    let mut out = Outcome::new();
    out.nontrivial(true);
    if !c.hs.earlier.is_empty() {
        out.label("re-authentication");
    }
    let (mut n, exported) = match crate::props::c15::handshake(&c.hs, &mut out) {
        Some(x) => x,
        None => return out,
    };
    let (r, _) = call(|| Ok(n.build_security_interface()));
    let mut lib = match r {
        Res::Ok(l) => l,
        Res::Err(e) => {
            out.fail("seal:build-error", e);
            return out;
        }
        Res::Panic(p) => {
            fail_panic(&mut out, "build_security_interface", &p);
            return out;
        }
    };
    let k = crypto::session_keys(&exported);
    let mut ref_client = SealCtx::new(&k.client_sign, &k.client_seal);
    let mut ref_server = SealCtx::new(&k.server_sign, &k.server_seal);
    for (i, (to_server, msg)) in c.history.iter().enumerate() {
        if *to_server {
            let want = ref_client.seal(msg);
            let (r, _) = call(|| lib.gss_wrapex(msg));
            match r {
                Res::Ok(got) if got[..] == want[..] => {}
                Res::Ok(got) => {
                    out.fail("seal:handshake-context:differs", format!("message #{} sealed by the context of the last handshake differs from MS-NLMP sealing under that handshake's session key: got {} want {}", i, hexs(&got), hexs(&want)));
                    return out;
                }
                Res::Err(e) => {
                    out.fail("seal:error", format!("gss_wrapex failed on message #{}: {}", i, e));
                    return out;
                }
                Res::Panic(p) => {
                    fail_panic(&mut out, "gss_wrapex", &p);
                    return out;
                }
            }
        } else {
            let token = ref_server.seal(msg);
            let (r, _) = call(|| lib.gss_unwrapex(&token));
            match r {
                Res::Ok(plain) if plain[..] == msg[..] => {}
                Res::Ok(plain) => {
                    out.fail("unseal:wrong-plaintext", format!("message #{}: got {} want {}", i, hexs(&plain), hexs(msg)));
                    return out;
                }
                Res::Err(e) => {
                    out.fail("unseal:handshake-context:rejected-honest", format!("honest server message #{} sealed under the last handshake's session key rejected: {}", i, e));
                    return out;
                }
                Res::Panic(p) => {
                    fail_panic(&mut out, "gss_unwrapex", &p);
                    return out;
                }
            }
        }
    }
    out
}

pub fn decode_handshake(s: &mut Src) -> HsCase {
    // re-authentication decided first (late choices are starved)
    let again = s.chance(110);
    let mut hs = crate::props::c15::decode(s);
    if again && hs.earlier.is_empty() {
        hs.earlier = vec![hs.challenge.clone()];
    }
    let n = 1 + s.below(8);
    let history = (0..n)
        .map(|_| {
            let l = s.below(40);
            (s.bool(), s.fill(l))
        })
        .collect();
    HsCase { hs, history }
}

fn gen_keys(s: &mut Src) -> (Option<Vec<u8>>, Vec<Vec<u8>>) {
    if s.bool() {
        (Some(s.bytes(16)), vec![])
    } else {
        (None, (0..4).map(|_| { let mut k = s.bytes(16); if k.iter().all(|b| *b == 0) { k[0] = 1 } k }).collect())
    }
}

pub fn decode(s: &mut Src) -> Case {
    let (exported, keys) = gen_keys(s);
    // three regimes: short histories of short messages, long histories (sequence numbers beyond one byte, several
    // kilobytes of keystream), and histories containing very long messages (cipher block boundaries)
    let regime = s.below(96);
    let n = match regime {
        0 => 250 + s.below(400),
        _ => 1 + s.below(12),
    };
    let mut history = Vec::new();
    for i in 0..n {
        let to_server = if regime == 0 { s.u8() & 3 != 0 } else { s.bool() };
        let len = if regime == 0 {
            (i * 7 + 3) % 11
        } else if regime <= 2 {
            s.pick(&[0usize, 255, 256, 257, 1023, 1024, 1025, 4095, 4096, 4097, 5000, 8191, 8192, 8193, 9000, 16385, 70_000])
        } else {
            match s.below(6) {
                0 => 0,
                1 => 1,
                2 => 300,
                _ => s.below(301),
            }
        };
        history.push((to_server, s.fill(len)));
    }
    let n_s2c = history.iter().filter(|m| !m.0).count();
    let tamper = if n_s2c > 0 && s.chance(128) {
        let msg = s.below(n_s2c) as u8;
        Some(match s.below(6) {
            4 => Tamper::Overwrite { msg, start: s.pick(&[0u8, 4, 4, 12, 4, 8]), bytes: vec![s.pick(&[0u8, 0, 0xFF, 1]); s.pick(&[4usize, 8, 12, 16])] },
            5 => Tamper::Overwrite { msg, start: s.below(20) as u8, bytes: { let k = 1 + s.below(8); s.bytes(k) } },
            0 => Tamper::Truncate { msg, keep: s.u16() as u32 },
            1 => Tamper::Extend { msg, extra: { let k = 1 + s.below(4); let mut e = s.bytes(k); if e.is_empty() { e.push(0) } e } },
            _ => Tamper::Flip { msg, bit: s.u16() as u32 },
        })
    } else {
        None
    };
    Case { exported, keys, history, tamper }
}

/// every single-bit flip, every truncation length, extensions 1..4 for each server message of a few histories
fn exhaustive_tamper(nhist: usize, part: usize, parts: usize) -> impl Iterator<Item = Case> {
    let mut v = Vec::new();
    for hidx in 0..nhist {
        let seed = 0x9E37u32.wrapping_mul(hidx as u32 + 1);
        let exported: Vec<u8> = engine::src::expand(seed | 1, 16);
        let lens = [[9usize, 0, 33], [1, 64, 5], [0, 0, 17], [120, 3, 40]][hidx % 4];
        let history: Vec<(bool, Vec<u8>)> = vec![
            (true, engine::src::expand(seed ^ 1, 20)),
            (false, engine::src::expand(seed ^ 2, lens[0])),
            (false, engine::src::expand(seed ^ 3, lens[1])),
            (true, engine::src::expand(seed ^ 4, 7)),
            (false, engine::src::expand(seed ^ 5, lens[2])),
        ];
        let base = Case { exported: if hidx % 2 == 0 { Some(exported.clone()) } else { None }, keys: if hidx % 2 == 0 { vec![] } else { (0..4).map(|i| engine::src::expand(seed ^ (10 + i), 16)).collect() }, history, tamper: None };
        v.push(base.clone());
        for m in 0..3u8 {
            let tlen = 16 + lens[m as usize];
            for bit in 0..(tlen * 8) as u32 {
                let mut c = base.clone();
                c.tamper = Some(Tamper::Flip { msg: m, bit });
                v.push(c);
            }
            for keep in 0..tlen as u32 {
                let mut c = base.clone();
                c.tamper = Some(Tamper::Truncate { msg: m, keep });
                v.push(c);
            }
            // constant overwrites of every header region and combination of regions
            for (start, len) in [(0u8, 4usize), (4, 8), (12, 4), (4, 12), (0, 16), (0, 12), (8, 8)] {
                for fillb in [0u8, 0xFF, 1] {
                    let mut c = base.clone();
                    c.tamper = Some(Tamper::Overwrite { msg: m, start, bytes: vec![fillb; len] });
                    v.push(c);
                }
            }
            // a forged message: version 1, zero checksum and sequence number, arbitrary ciphertext
            {
                let mut c = base.clone();
                let mut forged = vec![1u8, 0, 0, 0];
                forged.extend_from_slice(&[0; 12]);
                forged.extend_from_slice(&[0x41; 40]);
                c.tamper = Some(Tamper::Overwrite { msg: m, start: 0, bytes: forged });
                v.push(c);
            }
            for k in 1..=4usize {
                for fillb in [0u8, 0xFF, 0x5A] {
                    let mut c = base.clone();
                    c.tamper = Some(Tamper::Extend { msg: m, extra: vec![fillb; k] });
                    v.push(c);
                }
            }
        }
    }
    v.into_iter().enumerate().filter(move |(i, _)| i % parts == part).map(|(_, c)| c)
}

pub fn check(rep: &Report) {
    rep.assume("the peer is a conforming MS-NLMP implementation with extended session security, key exchange and 128-bit keys (the only mode the client negotiates)");
    let nh = rep.tier.n(24, 400) as usize;
    rep.enumerate("bitflips-exhaustive", true, move |p, n| exhaustive_tamper(nh, p, n), run);
    rep.random("histories", rep.tier.n(400_000, 8_000_000), 96, decode, run);
    // deterministic long histories and long messages (one context each)
    let mut long = Vec::new();
    for k in 0..4u32 {
        let exported = engine::src::expand(0xABCD + k, 16);
        long.push(Case { exported: Some(exported.clone()), keys: vec![], history: (0..700).map(|i| (i % 3 != 2, engine::src::expand(i as u32 + 1, (i % 5) as usize))).collect(), tamper: None });
        long.push(Case { exported: Some(exported), keys: vec![], history: [10usize, 4096, 4097, 3, 70_000, 0, 9000, 1].iter().enumerate().map(|(i, l)| ((i + k as usize) % 2 == 0, engine::src::expand(i as u32 + 9, *l))).collect(), tamper: None });
    }
    // more messages than a 16-bit counter holds, on one context (both directions)
    long.push(Case { exported: Some(engine::src::expand(0x5151, 16)), keys: vec![], history: (0..70_000u32).map(|i| (i % 2 == 0, vec![(i % 251) as u8; (i % 3) as usize])).collect(), tamper: None });
    rep.list("long-histories", long, run);
    rep.random("handshake-contexts", rep.tier.n(60_000, 1_000_000), 260, decode_handshake, run_handshake);
    rep.require("handshake-contexts", "re-authentication", 5000);
    rep.require("histories", "multi-wrap", 1000);
    rep.require("histories", "multi-unwrap", 1000);
    rep.require("histories", "tamper", 1000);
}
