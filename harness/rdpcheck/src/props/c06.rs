//! C06 — Hostile server bytes during an active session never crash the client.
pub use crate::props::hostile::{check06 as check, LEVEL, RULE_C06 as RULE};
