//! C11 — User input is transmitted exactly once, in order, with exact values.
use crate::mem::{self, ClientCfg};
use crate::util::{call, fail_panic, Res};
use engine::{Outcome, Report, Src};
use rdp::core::event::{BitmapEvent, KeyboardEvent, PointerButton, PointerEvent, RdpEvent};
use refimpl::server::{ClientEvent, ServerProfile};
use refimpl::wire::{self, DataBody, FpUpdate, InputEvent, Rect};
use serde::{Deserialize, Serialize};

pub const LEVEL: &str = "exploration";
pub const RULE: &str = "case = history of 1..40 steps over {pointer(x, y, button, down), key(code, down), unsendable event (RdpEvent::Bitmap), server traffic (fast-path bitmap, set-error-info)} submitted through write or try_write on an activated session with a generated user id / share id. Oracle: the reference server's strictly decoded list of slow-path input PDUs equals the submitted sendable events one to one and in order: one PDU per event, numEvents = 1, message type 0x8001 / 0x0004, exact x / y / scancode, button flags Left/Right/Middle = 0x1000/0x2000/0x4000 with DOWN (0x8000) iff down, no button = MOVE (0x0800) without button bits, RELEASE (0x8000) iff key up; MCS initiator / channel / share id as negotiated; unsendable kinds return Err and write zero bytes. button-matrix enumerates all 8 button x state combinations at boundary coordinates, and input before / after 1..3 reactivations with fresh share ids (the input PDUs must carry the share id of the latest demand-active) against 8 server variants (reported RDP version); all-values sends every scancode 0..=0xFFFF (press and release) and every value 0..=0xFFFF as x and as y coordinate (256 values per session, write and try_write mixed); neighbourhoods-and-hiccups: press / release / move pairs at every offset within +-3 pixels for every button, and transient transport errors of every kind between events (the event whose write fails is lost with its error, the events after it are transmitted exactly, one per PDU); after-server-updates sends every fast-path update code 0..15 (pointer position, hidden / default pointer, cached pointer ..., alone or batched after a bitmap) and then events that echo its contents (a move to exactly the position the server set, the same values as scancodes); generated histories do the same with probability; long-histories are sessions of 3000 events with exact repetitions, interleaved server traffic and refused events; generated histories repeat the previous event 1..3 times with probability 1/6. Non-trivial = history with >= 2 sendable events; distinct by hash of the case.";

#[derive(Serialize, Deserialize, Hash, Clone, Debug)]
pub enum Step {
    Pointer { x: u16, y: u16, button: u8, down: bool, lenient: bool },
    Key { code: u16, down: bool, lenient: bool },
    Unsendable { lenient: bool },
    ServerBitmap,
    ServerError(u32),
    /// a fast-path update other than a bitmap (pointer position / hidden / default / cached / new, palette, synchronize ...), possibly batched after a bitmap
    ServerUpdate { code: u8, body: Vec<u8>, with_bitmap: bool },
    /// the transport refuses the client's next write once (error kind index, 255 = WouldBlock): the event submitted next fails
    /// (or, if the client does not write for it, succeeds); later events must be transmitted exactly as submitted
    TransportHiccup { kind: u8 },
    /// deactivate-all, then a demand-active with this share id and the complete handshake: later input must carry the new id
    Reactivate { share_id: u32 },
}

#[derive(Serialize, Deserialize, Hash, Clone, Debug)]
pub struct Case {
    pub steps: Vec<Step>,
    pub user_id: u16,
    pub share_id: u32,
    /// server variant (reported RDP version), see c12::profile_of
    #[serde(default)]
    pub variant: u8,
}

fn button(b: u8) -> PointerButton {
    match b & 3 {
        1 => PointerButton::Left,
        2 => PointerButton::Right,
        3 => PointerButton::Middle,
        _ => PointerButton::None,
    }
}

pub fn run(c: &Case) -> Outcome {
    let mut out = Outcome::new();
    let sendable = c.steps.iter().filter(|s| matches!(s, Step::Pointer { .. } | Step::Key { .. })).count();
    out.nontrivial(sendable >= 2);
    if c.steps.iter().any(|s| matches!(s, Step::ServerBitmap | Step::ServerError(_) | Step::ServerUpdate { .. })) {
        out.label("interleaved-server-traffic");
    }
    if c.steps.iter().any(|s| matches!(s, Step::Unsendable { .. })) {
        out.label("unsendable");
    }
    let mut profile = ServerProfile::simple(c.user_id, c.share_id);
    if c.variant != 0 {
        out.label("other-server-profile");
        profile.ccrsp = crate::props::c12::profile_of(c.variant).ccrsp;
    }
    if c.steps.iter().any(|s| matches!(s, Step::Reactivate { .. })) {
        out.label("reactivation");
    }
    let (mut conn, h) = match mem::activated_session(&ClientCfg::simple(), profile) {
        Ok(x) => x,
        Err(e) => {
            out.fail("panic:HARNESS-FAULT c11 session setup", e);
            return out;
        }
    };
    let base_events = h.borrow().server.events.len();
    let mut want: Vec<&Step> = Vec::new();
    // share id expected in the input PDU of each accepted event
    let mut want_share: Vec<u32> = Vec::new();
    let mut share_now = c.share_id;
    for (i, st) in c.steps.iter().enumerate() {
        want_share.resize(want.len(), share_now);
        let hiccups_before = h.borrow().fail_writes.len();
        let before = h.borrow().transcript.len();
        match st {
            Step::TransportHiccup { kind } => {
                out.label("transport-hiccup");
                h.borrow_mut().fail_writes.push(*kind);
            }
            Step::Pointer { x, y, button: b, down, lenient } => {
                let ev = RdpEvent::Pointer(PointerEvent { x: *x, y: *y, button: button(*b), down: *down });
                let (r, _) = call(|| if *lenient { conn.client.try_write(ev) } else { conn.client.write(ev) });
                match r {
                    // the transport refused this write: the event is lost with the error, which is fine; it must not come back later
                    Res::Err(_) if h.borrow().fail_writes.len() < hiccups_before => {}
                    Res::Ok(()) => want.push(st),
                    Res::Err(e) => {
                        out.fail("input:write-error", format!("step #{} {:?} on an active session failed: {}", i, st, e));
                        return out;
                    }
                    Res::Panic(p) => {
                        fail_panic(&mut out, "RdpClient::write", &p);
                        return out;
                    }
                }
            }
            Step::Key { code, down, lenient } => {
                let ev = RdpEvent::Key(KeyboardEvent { code: *code, down: *down });
                let (r, _) = call(|| if *lenient { conn.client.try_write(ev) } else { conn.client.write(ev) });
                match r {
                    Res::Err(_) if h.borrow().fail_writes.len() < hiccups_before => {}
                    Res::Ok(()) => want.push(st),
                    Res::Err(e) => {
                        out.fail("input:write-error", format!("step #{} {:?} on an active session failed: {}", i, st, e));
                        return out;
                    }
                    Res::Panic(p) => {
                        fail_panic(&mut out, "RdpClient::write", &p);
                        return out;
                    }
                }
            }
            Step::Unsendable { lenient } => {
                let ev = RdpEvent::Bitmap(BitmapEvent { dest_left: 0, dest_top: 0, dest_right: 0, dest_bottom: 0, width: 1, height: 1, bpp: 32, is_compress: false, data: vec![0; 4] });
                let (r, _) = call(|| if *lenient { conn.client.try_write(ev) } else { conn.client.write(ev) });
                match r {
                    Res::Ok(()) => {
                        out.fail(if *lenient { "input:unsendable-accepted:try_write" } else { "input:unsendable-accepted:write" }, format!("step #{}: {}(RdpEvent::Bitmap) returned Ok on an active session", i, if *lenient { "try_write" } else { "write" }));
                        return out;
                    }
                    Res::Err(_) => {}
                    Res::Panic(p) => {
                        fail_panic(&mut out, "RdpClient::write", &p);
                        return out;
                    }
                }
                if h.borrow().transcript.len() != before {
                    out.fail("input:unsendable-wrote-bytes", format!("step #{}: refused event put {} bytes on the wire", i, h.borrow().transcript.len() - before));
                    return out;
                }
            }
            Step::Reactivate { share_id } => {
                {
                    let mut s = h.borrow_mut();
                    // (a pending transport error would hit the handshake instead of an input event: not this scenario)
                    s.fail_writes.clear();
                    // what the client wrote so far belongs to the old share: let the server read it first
                    s.pump();
                    let su = s.server.profile.server_user;
                    let dea = s.server.wrap(&wire::deactivate_all(share_now, su));
                    let d = refimpl::wire::DemandActive { share_id: *share_id, source: b"RDP\0".to_vec(), caps: wire::sample_server_caps(), session_id: 0 };
                    let da = s.server.pdu_demand_active(&d);
                    s.server.phase = refimpl::server::Phase::Activation(0);
                    s.push(&dea.bytes);
                    s.push(&da.bytes);
                }
                for _ in 0..16 {
                    let idle = {
                        let s = h.borrow();
                        s.to_client.is_empty() && s.pending.is_empty()
                    };
                    if idle {
                        break;
                    }
                    let (r, _) = call(|| conn.client.read(|_| ()));
                    match r {
                        Res::Ok(()) => {}
                        Res::Err(e) => {
                            out.fail("input:reactivation-read-error", format!("step #{}: read during the reactivation failed: {}", i, e));
                            return out;
                        }
                        Res::Panic(p) => {
                            fail_panic(&mut out, "RdpClient::read", &p);
                            return out;
                        }
                    }
                }
                if h.borrow().server.phase != refimpl::server::Phase::Active {
                    out.fail("input:reactivation-incomplete", format!("step #{}: the reactivation did not complete: server phase {:?}, notes {:?}", i, h.borrow().server.phase, h.borrow().server.violations));
                    return out;
                }
                share_now = *share_id;
            }
            Step::ServerBitmap | Step::ServerError(_) | Step::ServerUpdate { .. } => {
                let frame = match st {
                    Step::ServerUpdate { code, body, with_bitmap } => {
                        let mut ups = Vec::new();
                        if *with_bitmap {
                            ups.push(FpUpdate::Bitmap(vec![Rect { left: 0, top: 0, right: 0, bottom: 0, width: 1, height: 1, bpp: 32, flags: 0, cd_scan_width: 0, cd_uncompressed: 0, data: vec![0; 4] }]));
                        }
                        ups.push(FpUpdate::Other { code: *code & 0xF, body: body.clone() });
                        wire::fast_path_pdu(&ups, 0, false)
                    }
                    Step::ServerBitmap => wire::fast_path_pdu(&[FpUpdate::Bitmap(vec![Rect { left: 0, top: 0, right: 1, bottom: 1, width: 2, height: 2, bpp: 32, flags: 0, cd_scan_width: 0, cd_uncompressed: 0, data: vec![0; 16] }])], 0, false),
                    Step::ServerError(code) => {
                        let s = h.borrow();
                        s.server.wrap(&wire::set_error_info(c.share_id, 1002, *code))
                    }
                    _ => unreachable!(),
                };
                h.borrow_mut().push(&frame.bytes);
                let (r, _) = call(|| conn.client.read(|_| ()));
                match r {
                    Res::Ok(()) => {}
                    // an update the client cannot decode may be answered with an error (C06/C10 territory); it must still not disturb the input path
                    Res::Err(_) if matches!(st, Step::ServerUpdate { .. }) => {}
                    Res::Err(e) => {
                        out.fail("input:server-traffic-read-error", format!("step #{}: read failed: {}", i, e));
                        return out;
                    }
                    Res::Panic(p) => {
                        fail_panic(&mut out, "RdpClient::read", &p);
                        return out;
                    }
                }
                if h.borrow().transcript.len() != before {
                    out.fail("input:spurious-bytes", format!("step #{}: reading server traffic made the client write {} bytes", i, h.borrow().transcript.len() - before));
                    return out;
                }
            }
        }
    }
    h.borrow_mut().pump();
    let s = h.borrow();
    if let Some(v) = s.server.violations.first() {
        out.fail(format!("input:server-violation:{}", crate::props::c03::norm(v)), v.clone());
        return out;
    }
    want_share.resize(want.len(), share_now);
    // the finalization PDUs of reactivations are the activation's business (C03/C12); inputs are compared here
    let got: Vec<&ClientEvent> = s.server.events[base_events..].iter().map(|e| &e.0).filter(|e| !c.steps.iter().any(|s| matches!(s, Step::Reactivate { .. })) || matches!(e, ClientEvent::Data { body: DataBody::Input(_), .. })).collect();
    compare_inputs_shares(&mut out, &got, &want, &want_share);
    out
}

/// one-to-one comparison of the decoded input PDUs with the submitted sendable events
pub fn compare_inputs(out: &mut Outcome, got: &[&ClientEvent], want: &[&Step], share: u32) {
    compare_inputs_shares(out, got, want, &vec![share; want.len()])
}

pub fn compare_inputs_shares(out: &mut Outcome, got: &[&ClientEvent], want: &[&Step], shares: &[u32]) {
    struct C {
        share_id: u32,
    }
    let mut c = C { share_id: 0 };
    if got.len() != want.len() {
        out.fail(if got.len() < want.len() { "input:count:missing" } else { "input:count:extra" }, format!("{} input PDUs decoded for {} submitted events", got.len(), want.len()));
        return;
    }
    for (i, (g, w)) in got.iter().zip(want.iter()).enumerate() {
        c.share_id = shares.get(i).copied().unwrap_or(0);
        let evs = match g {
            ClientEvent::Data { body: DataBody::Input(evs), share_id, .. } => {
                if *share_id != c.share_id {
                    out.fail("input:share-id", format!("input PDU #{} carries share id {:#x}, negotiated {:#x}", i, share_id, c.share_id));
                    return;
                }
                evs
            }
            other => {
                out.fail("input:not-an-input-pdu", format!("client message #{} is {:?}", i, other.kind()));
                return;
            }
        };
        if evs.len() != 1 {
            out.fail("input:num-events", format!("input PDU #{} carries {} events", i, evs.len()));
            return;
        }
        match (w, &evs[0]) {
            (Step::Pointer { x, y, button: b, down, .. }, InputEvent::Mouse { flags, x: gx, y: gy, .. }) => {
                if gx != x || gy != y {
                    out.fail("input:pointer-coordinates", format!("event #{}: sent ({}, {}) decoded ({}, {})", i, x, y, gx, gy));
                    return;
                }
                let want_btn: u16 = match b & 3 {
                    1 => 0x1000,
                    2 => 0x2000,
                    3 => 0x4000,
                    _ => 0,
                };
                let ok = if want_btn != 0 { flags & 0x7000 == want_btn && (flags & 0x8000 != 0) == *down && flags & 0x0800 == 0 } else { flags & 0x7000 == 0 && flags & 0x0800 != 0 };
                if !ok || flags & 0x07FF != 0 {
                    out.fail(format!("input:pointer-flags:button{}", b & 3), format!("event #{}: button {} down {} encoded as pointerFlags {:#06x}", i, b & 3, down, flags));
                    return;
                }
            }
            (Step::Key { code, down, .. }, InputEvent::Scancode { flags, code: gc, .. }) => {
                if gc != code {
                    out.fail("input:key-code", format!("event #{}: sent scancode {} decoded {}", i, code, gc));
                    return;
                }
                if (flags & 0x8000 != 0) == *down || flags & 0x0300 != 0 {
                    out.fail("input:key-flags", format!("event #{}: key down {} encoded as keyboardFlags {:#06x}", i, down, flags));
                    return;
                }
            }
            (w, g) => {
                out.fail("input:kind", format!("event #{}: sent {:?} decoded {:?}", i, w, g));
                return;
            }
        }
    }
}

/// the same oracle through Connector::connect over TLS (write / try_write after the activation, then shutdown)
pub fn run_tls(c: &Case) -> Outcome {
    use crate::tls::{self, NlaCfg, TlsServerCfg};
    let mut out = Outcome::new();
    out.nontrivial(true);
    let profile = ServerProfile::simple(c.user_id, c.share_id);
    let cfg = ClientCfg { nla: false, ..ClientCfg::simple() };
    let scfg = TlsServerCfg { identity: 3, reply: refimpl::wire::NegReply::Response { flags: 0, selected: 1 }, nla: None::<NlaCfg>, profile, record_cut: 0 };
    let mut want: Vec<&Step> = Vec::new();
    let mut local_fail: Option<(String, String)> = None;
    let run = tls::run_tls(&cfg, &scfg, 5, true, &mut |client| {
        for (i, st) in c.steps.iter().enumerate() {
            let r = match st {
                Step::Pointer { x, y, button: b, down, lenient } => {
                    let ev = RdpEvent::Pointer(PointerEvent { x: *x, y: *y, button: button(*b), down: *down });
                    Some(if *lenient { client.try_write(ev) } else { client.write(ev) })
                }
                Step::Key { code, down, lenient } => {
                    let ev = RdpEvent::Key(KeyboardEvent { code: *code, down: *down });
                    Some(if *lenient { client.try_write(ev) } else { client.write(ev) })
                }
                _ => None,
            };
            match r {
                Some(Ok(())) => want.push(st),
                Some(Err(e)) => {
                    local_fail = Some(("input:tls:write-error".into(), format!("step #{} {:?} failed: {:?}", i, st, e)));
                    return;
                }
                None => {}
            }
        }
    });
    if run.client_timeout || run.report.timeout {
        out.fail("inconclusive:timeout", "a socket timeout hit; not counted as a violation");
        return out;
    }
    if let Some((s, d)) = local_fail {
        out.fail(s, d);
        return out;
    }
    match (&run.connect, &run.report.server) {
        (Res::Ok(()), Some(server)) => {
            if let Some(v) = server.violations.first() {
                out.fail(format!("input:tls:server-violation:{}", crate::props::c03::norm(v)), v.clone());
                return out;
            }
            let got: Vec<&ClientEvent> = server.events.iter().map(|e| &e.0).filter(|e| matches!(e, ClientEvent::Data { body: DataBody::Input(_), .. })).collect();
            compare_inputs(&mut out, &got, &want, c.share_id);
        }
        (Res::Panic(p), _) => fail_panic(&mut out, "Connector::connect", p),
        (other, _) => {
            out.fail("input:tls:connect-error", format!("{}", other.kind()));
        }
    }
    out
}

pub fn decode(s: &mut Src) -> Case {
    let reactivate = s.chance(48);
    let variant = if s.chance(64) { s.below(8) as u8 } else { 0 };
    let n = 1 + s.below(40);
    let mut steps: Vec<Step> = Vec::new();
    for _ in 0..n {
        // exact repetitions (the 2nd, 3rd ... occurrence of the same event must be sent like the first)
        if !steps.is_empty() && s.chance(40) {
            let k = 1 + s.below(3);
            let prev = steps[steps.len() - 1].clone();
            for _ in 0..k {
                steps.push(prev.clone());
            }
            continue;
        }
        // an event that echoes what the server said last (pointer position, cache index ...)
        if let Some(Step::ServerUpdate { body, .. }) = steps.iter().rev().find(|x| matches!(x, Step::ServerUpdate { .. })) {
            if body.len() >= 4 && s.chance(100) {
                let x = u16::from_le_bytes([body[0], body[1]]);
                let y = u16::from_le_bytes([body[2], body[3]]);
                steps.push(match s.below(4) {
                    0 => Step::Key { code: x, down: s.bool(), lenient: false },
                    1 => Step::Pointer { x, y, button: s.below(4) as u8, down: s.bool(), lenient: false },
                    _ => Step::Pointer { x, y, button: 0, down: false, lenient: s.chance(64) },
                });
                continue;
            }
        }
        // a release (or another event) within a few pixels of the previous pointer event, same button
        if let Some(Step::Pointer { x, y, button, down, .. }) = steps.last().cloned() {
            if s.chance(40) {
                let dx = s.below(7) as i32 - 3;
                let dy = s.below(7) as i32 - 3;
                let nx = (x as i32 + dx).clamp(0, 65535) as u16;
                let ny = (y as i32 + dy).clamp(0, 65535) as u16;
                steps.push(Step::Pointer { x: nx, y: ny, button: if s.chance(200) { button } else { s.below(4) as u8 }, down: if s.chance(200) { !down } else { down }, lenient: s.chance(32) });
                continue;
            }
        }
        if s.chance(6) {
            steps.push(Step::TransportHiccup { kind: s.pick(&[255u8, 0, 1, 2, 5]) });
            continue;
        }
        steps.push(match s.below(13) {
            0 => Step::Unsendable { lenient: s.bool() },
            1 => Step::ServerBitmap,
            2 => Step::ServerError(s.b32()),
            12 => {
                let code = s.pick(&[8u8, 8, 8, 3, 5, 6, 10, 2, 9, 11, 4, 7]);
                let body = match code {
                    8 => {
                        let mut b = s.b16().to_le_bytes().to_vec();
                        b.extend_from_slice(&s.b16().to_le_bytes());
                        b
                    }
                    10 => s.b16().to_le_bytes().to_vec(),
                    3 | 5 | 6 => Vec::new(),
                    _ => {
                        let n = s.below(12);
                        s.bytes(n)
                    }
                };
                Step::ServerUpdate { code, body, with_bitmap: s.chance(64) }
            }
            3 | 4 | 5 => Step::Key { code: s.b16(), down: s.bool(), lenient: s.chance(64) },
            _ => Step::Pointer { x: s.b16(), y: s.b16(), button: s.below(4) as u8, down: s.bool(), lenient: s.chance(64) },
        });
    }
    let mut steps = steps;
    let user_id = crate::gen::gen_user_id(s);
    let share_id = s.b32();
    if reactivate {
        // a reactivation somewhere in the middle, with a different share id
        let pos = s.below(steps.len() + 1);
        steps.insert(pos, Step::Reactivate { share_id: share_id ^ s.b32().max(1) });
    }
    Case { steps, user_id, share_id, variant }
}

/// every scancode 0..=0xFFFF pressed and released, every value 0..=0xFFFF as x and as y coordinate with every
/// button / state, 256 values per session
fn all_values(part: usize, parts: usize) -> impl Iterator<Item = Case> {
    (part..512).step_by(parts).map(|i| {
        let block = (i / 2) as u32 * 256;
        let mut steps = Vec::new();
        for k in 0..256u32 {
            let v = (block + k) as u16;
            if i % 2 == 0 {
                steps.push(Step::Key { code: v, down: true, lenient: k % 5 == 0 });
                steps.push(Step::Key { code: v, down: false, lenient: k % 7 == 0 });
            } else {
                steps.push(Step::Pointer { x: v, y: !v, button: (k % 4) as u8, down: (k / 4) % 2 == 0, lenient: k % 5 == 0 });
                steps.push(Step::Pointer { x: v.rotate_left(5), y: v, button: ((k / 8) % 4) as u8, down: (k / 2) % 2 == 0, lenient: k % 7 == 0 });
            }
        }
        Case { steps, user_id: 1004 + (i as u16 % 3), share_id: 0x000103EA ^ (i as u32) << 8, variant: (i % 8) as u8 }
    })
}

/// sessions with thousands of events (state carried from one write to the next: counters, buffers, coalescing)
/// every kind of server update followed by events that echo its contents
fn after_server_updates() -> Vec<Case> {
    let mut v = Vec::new();
    for code in 0..16u8 {
        for (x, y) in [(0u16, 0u16), (10, 20), (0x1234, 0x0080), (65535, 65535)] {
            for with_bitmap in [false, true] {
                let mut body = x.to_le_bytes().to_vec();
                body.extend_from_slice(&y.to_le_bytes());
                let probes = |lenient: bool| {
                    vec![
                        Step::Pointer { x, y, button: 0, down: false, lenient },
                        Step::Pointer { x, y, button: 0, down: true, lenient },
                        Step::Pointer { x, y, button: 1, down: true, lenient },
                        Step::Key { code: x, down: true, lenient },
                        Step::Key { code: y, down: false, lenient },
                        Step::Pointer { x: y, y: x, button: 0, down: false, lenient },
                        Step::Pointer { x, y, button: 0, down: false, lenient },
                    ]
                };
                for lenient in [false, true] {
                    let mut steps = vec![Step::Pointer { x: 1, y: 1, button: 0, down: false, lenient: false }, Step::ServerUpdate { code, body: body.clone(), with_bitmap }];
                    steps.extend(probes(lenient));
                    steps.push(Step::ServerUpdate { code, body: body[..2].to_vec(), with_bitmap });
                    steps.extend(probes(lenient));
                    v.push(Case { steps, user_id: 1004, share_id: 0x000103EA, variant: 0 });
                }
            }
        }
    }
    v
}

/// press / release (and move) pairs at every offset within +-3 pixels for every button; transport hiccups of every kind
/// between events
fn neighbourhoods() -> Vec<Case> {
    let mut v = Vec::new();
    for b in 0..4u8 {
        let mut steps = Vec::new();
        for dx in -3i32..=3 {
            for dy in -3i32..=3 {
                for (d1, d2) in [(true, false), (false, true), (true, true)] {
                    steps.push(Step::Pointer { x: 500, y: 400, button: b, down: d1, lenient: false });
                    if (dx + dy) % 3 == 0 {
                        steps.push(Step::Key { code: 42, down: true, lenient: false });
                    }
                    steps.push(Step::Pointer { x: (500 + dx) as u16, y: (400 + dy) as u16, button: b, down: d2, lenient: false });
                }
            }
        }
        v.push(Case { steps, user_id: 1004, share_id: 0x000103EA, variant: 0 });
    }
    for kind in [255u8, 0, 1, 2, 3, 4, 5, 6, 7, 8, 9] {
        let mut steps = Vec::new();
        for k in 0..6u16 {
            steps.push(Step::Key { code: 30 + k, down: true, lenient: false });
            steps.push(Step::TransportHiccup { kind });
            steps.push(if k % 2 == 0 { Step::Key { code: 50 + k, down: true, lenient: k % 4 == 0 } } else { Step::Pointer { x: k, y: k, button: 1, down: true, lenient: false } });
            steps.push(Step::Pointer { x: 10 * k, y: 7, button: 0, down: false, lenient: false });
            steps.push(Step::Key { code: 30 + k, down: false, lenient: false });
        }
        v.push(Case { steps, user_id: 1004, share_id: 0x000103EA, variant: 0 });
    }
    v
}

fn long_histories() -> Vec<Case> {
    let mut v = Vec::new();
    // more events than a 16-bit counter holds
    v.push(Case { steps: (0..70_000u32).map(|k| if k % 2 == 0 { Step::Key { code: (k % 200) as u16, down: k % 4 == 0, lenient: k % 9 == 0 } } else { Step::Pointer { x: (k % 1000) as u16, y: (k % 700) as u16, button: (k % 4) as u8, down: k % 3 == 0, lenient: false } }).collect(), user_id: 1004, share_id: 0x000103EA, variant: 0 });
    for variant in 0..4u32 {
        let mut steps = Vec::new();
        for k in 0..3000u32 {
            let st = match (k.wrapping_mul(2654435761).wrapping_add(variant) >> 13) % 9 {
                0 | 1 => Step::Key { code: (k % 128) as u16, down: k % 2 == 0, lenient: k % 11 == 0 },
                2 => Step::Key { code: 0x1D, down: true, lenient: false },
                3 | 4 => Step::Pointer { x: (k % 1920) as u16, y: (k % 1080) as u16, button: 0, down: false, lenient: k % 13 == 0 },
                5 => Step::Pointer { x: 100, y: 100, button: 1, down: k % 2 == 0, lenient: false },
                6 => Step::Pointer { x: 100, y: 100, button: 0, down: false, lenient: false },
                7 => {
                    if variant % 2 == 0 {
                        Step::ServerBitmap
                    } else {
                        Step::Unsendable { lenient: k % 2 == 0 }
                    }
                }
                _ => Step::Pointer { x: (k * 7 % 65536) as u16, y: (k * 13 % 65536) as u16, button: (k % 4) as u8, down: k % 3 == 0, lenient: false },
            };
            steps.push(st);
        }
        v.push(Case { steps, user_id: 1004, share_id: 0x000103EA, variant: 0 });
    }
    v
}

fn matrix() -> Vec<Case> {
    let mut v = Vec::new();
    // input before and after one, two and three reactivations with fresh share ids, against every server variant
    for variant in 0..8u8 {
        for rounds in 1..=3u32 {
            let mut steps = Vec::new();
            for r in 0..=rounds {
                steps.push(Step::Key { code: 30 + r as u16, down: true, lenient: false });
                steps.push(Step::Key { code: 30 + r as u16, down: false, lenient: r % 2 == 1 });
                steps.push(Step::Pointer { x: 5 * r as u16, y: 7, button: (r % 4) as u8, down: r % 2 == 0, lenient: false });
                if r < rounds {
                    steps.push(Step::Reactivate { share_id: 0x0002_03EA + 0x1_0000 * r + variant as u32 });
                }
            }
            v.push(Case { steps, user_id: 1004, share_id: 0x000103EA, variant });
        }
    }
    for b in 0..4u8 {
        for down in [false, true] {
            for (x, y) in [(0u16, 0u16), (65535, 65535), (1, 2), (0x8000, 0x7FFF)] {
                v.push(Case { steps: vec![Step::Pointer { x, y, button: b, down, lenient: false }, Step::Key { code: x, down, lenient: false }, Step::Pointer { x: y, y: x, button: b, down: !down, lenient: true }], user_id: 1004, share_id: 0x000103EA, variant: 0 });
            }
        }
    }
    v
}

pub fn check(rep: &Report) {
    rep.assume("for PointerButton::None the DOWN bit is unconstrained (a move carries no button)");
    rep.assume("keyboard flags other than RELEASE and the EXTENDED bits are unconstrained");
    rep.list("button-matrix", matrix(), run);
    rep.enumerate("all-values", true, all_values, run);
    rep.list("long-histories", long_histories(), run);
    rep.list("neighbourhoods-and-hiccups", neighbourhoods(), run);
    rep.list("after-server-updates", after_server_updates(), run);
    rep.random("histories", rep.tier.n(60_000, 3_000_000), 260, decode, run);
    crate::tls::pki();
    rep.random("tls", rep.tier.n(300, 10_000), 200, decode, run_tls);
    rep.require("histories", "interleaved-server-traffic", 1000);
    rep.require("histories", "unsendable", 1000);
    rep.require("histories", "reactivation", 1000);
    rep.require("histories", "transport-hiccup", 1000);
    rep.require("histories", "other-server-profile", 1000);
}
