//! C20 — GUI receive thread keeps up with the server and stops with the session.
use crate::mstsc;
use engine::{Outcome, Report, Src};
use openssl::ssl::SslStream;
use rdp::core::client::RdpClient;
use rdp::core::event::{BitmapEvent, PointerButton, PointerEvent, RdpEvent};
use rdpcheck::mem::ClientCfg;
use rdpcheck::tls;
use refimpl::server::{Phase, Server, ServerProfile};
use refimpl::wire::{self, FpUpdate, NegReply, Rect};
use serde::{Deserialize, Serialize};
use std::io::{self, Read, Write};
use std::os::unix::io::AsRawFd;
use std::os::unix::net::UnixStream;
use std::sync::atomic::{AtomicBool, Ordering};
use std::sync::mpsc::{channel, Receiver};
use std::sync::{Arc, Mutex};
use std::time::{Duration, Instant};

pub const LEVEL: &str = "exploration";
pub const RULE: &str = "case = scenario on a real connected client (Connector::connect over a socket pair and TLS) whose receive thread is the binary's launch_rdp_thread: 1..12 fast-path bitmap PDUs tagged with serial numbers; a packing of PDUs into TLS records (one per record, several per record, one PDU split over 2-3 records) and of records into socket writes (one write per record, all coalesced, 1..n-byte pieces) with seeded pauses (0 / 100 us / 5 ms / 40 ms / 250 ms; the long ones only between few pieces); an end mode (disconnect-provider ultimatum followed by the server's close, the ultimatum alone with the connection left open, TLS close_notify then close, abrupt close, undecodable PDU then close, connection reset (RST, on the loopback-TCP transport), none) placed before any PDU, between PDUs or inside a PDU; 0..2 concurrent writer threads doing lock + try_write. Oracle: with the server silent and open every PDU already sent arrives on the bitmap channel in serial order within 30 s (a miss is confirmed by a 'poke' PDU: if the missing events then arrive the thread was waiting for further server traffic); after the end event the thread's JoinHandle is finished within 30 s and the shared client is released (a live thread is classified as spinning or blocked by process CPU time); everything sent before the end was forwarded in order. A scenario may contain a reactivation (deactivate-all + demand-active in one TLS record, one record each, or behind a bitmap PDU): the client's finalization must arrive with the server silent, and bitmaps flow again afterwards; one matrix scenario pushes 66 000 bitmaps through the session first. Scenarios may start with 1-2 bitmap PDUs in the TLS record of the font-map (decrypted before the receive thread exists: they must be delivered with the server silent) and may use PDUs larger than one TLS record (64x64 raw rectangles), also cut in half by the end event. A scenario may send 1-5 bitmap PDUs IMMEDIATELY before the end event (in their own TLS records, or in the record that carries the ultimatum / undecodable PDU), so that the end reaches the socket while they are unread: they were received before the end and must all be forwarded, in order, before the thread stops (not with a connection reset, which may discard queued data). The matrix section covers every end mode at every protocol point and every packing (one / several / split PDUs per record) on a plain-TLS and on a CredSSP (PROTOCOL_HYBRID) session, plus scenarios that start with 6 s (thorough: 2, 6, 11, 31, 61 s) of complete server silence; one generated scenario in three runs on a CredSSP session. Scenarios run one at a time. Non-trivial = packing other than one-PDU-per-record-per-write, or an end mode other than none; distinct by hash of the scenario.";

// generous: a loaded machine must not turn into a violation; waiting costs nothing when things work (the collectors return
// as soon as everything has arrived), only failing scenarios take this long
const T_DELIVER: Duration = Duration::from_secs(30);
const T_STOP: Duration = Duration::from_secs(30);

#[derive(Serialize, Deserialize, Hash, Clone, Copy, Debug, PartialEq, Eq)]
pub enum RecordPacking {
    OnePerRecord,
    /// k PDUs concatenated into one TLS record
    ManyPerRecord(u8),
    /// every PDU cut into this many records
    SplitAcrossRecords(u8),
}

#[derive(Serialize, Deserialize, Hash, Clone, Copy, Debug, PartialEq, Eq)]
pub enum SocketPacking {
    /// each record is one socket write
    PerRecord,
    /// all records of a batch go out in one socket write
    Coalesced,
    /// the ciphertext goes out in pieces of n bytes
    Pieces(u16),
}

#[derive(Serialize, Deserialize, Hash, Clone, Copy, Debug, PartialEq, Eq)]
pub enum EndMode {
    None,
    DisconnectUltimatum,
    CloseNotify,
    AbruptClose,
    UndecodableThenClose,
    /// TCP only: the server's socket is closed with SO_LINGER 0, the client sees a connection reset (RST)
    Reset,
    /// the server sends its disconnect-provider ultimatum and leaves the connection open (it waits for the client to close): the
    /// ultimatum alone ends the session
    UltimatumNoClose,
}

#[derive(Serialize, Deserialize, Hash, Clone, Debug)]
pub struct Case {
    pub pdus: u8,
    pub records: RecordPacking,
    pub socket: SocketPacking,
    /// pause index (0 = none, 1 = 100 us, 2 = 5 ms) between socket pieces
    pub pause: u8,
    pub end: EndMode,
    /// number of PDUs sent before the end event; `end_inside` cuts the next PDU in half before ending
    pub end_after: u8,
    pub end_inside: bool,
    pub writers: u8,
    /// delay before the end event (pause index)
    pub end_delay: u8,
    /// the session negotiated CredSSP (PROTOCOL_HYBRID) instead of plain TLS
    #[serde(default)]
    pub nla: bool,
    /// seconds of complete server silence before the PDUs are sent (the receive thread sits in its wait call meanwhile)
    #[serde(default)]
    pub silence_s: u8,
    /// the transport is a TCP connection over the loopback interface instead of a unix socket pair
    #[serde(default)]
    pub tcp: bool,
    /// number of bitmap PDUs that travel in the same TLS record as the last PDU of the activation (they sit decrypted in
    /// the TLS buffer before the receive thread exists)
    #[serde(default)]
    pub early: u8,
    /// the PDUs carry 64x64 raw 32 bpp rectangles: bodies larger than one TLS record (16 KiB)
    #[serde(default)]
    pub big: bool,
    /// this many extra bitmap PDUs (256 per TLS record) go through the session first: counters that wrap
    #[serde(default)]
    pub bulk: u32,
    /// after the bitmaps the server reactivates the session: 1 = deactivate-all and demand-active in ONE TLS record, 2 = one
    /// record each, 3 = both behind a bitmap PDU in one record; the client's confirm-active must arrive with the server silent
    #[serde(default)]
    pub reactivate: u8,
    /// this many bitmap PDUs are sent IMMEDIATELY before the end event, without waiting for their delivery first: the end
    /// (ultimatum, close, undecodable PDU) reaches the socket while they are still unread. They were received before the
    /// end and must be forwarded. Not used with a connection reset (a reset may discard queued data).
    #[serde(default)]
    pub tail: u8,
    /// the tail travels in the same TLS record as the ultimatum / undecodable PDU / cut PDU (one write), else one record each
    #[serde(default)]
    pub tail_packed: bool,
}

/// the transport under the client and under the server's TLS: a unix socket pair or loopback TCP
#[derive(Debug)]
pub enum Sock {
    Unix(UnixStream),
    Tcp(std::net::TcpStream),
    Closed,
}

impl Sock {
    fn fd(&self) -> i32 {
        match self {
            Sock::Unix(s) => s.as_raw_fd(),
            Sock::Tcp(s) => s.as_raw_fd(),
            Sock::Closed => -1,
        }
    }
    fn shutdown(&self, how: std::net::Shutdown) -> io::Result<()> {
        match self {
            Sock::Unix(s) => s.shutdown(how),
            Sock::Tcp(s) => s.shutdown(how),
            Sock::Closed => Ok(()),
        }
    }
    fn set_timeouts(&self, d: Duration) {
        match self {
            Sock::Unix(s) => {
                s.set_read_timeout(Some(d)).ok();
            }
            Sock::Tcp(s) => {
                s.set_read_timeout(Some(d)).ok();
                s.set_nodelay(true).ok();
            }
            Sock::Closed => {}
        }
    }
    /// close so that the peer gets a reset instead of an orderly end of stream
    fn reset(&mut self) {
        if let Sock::Tcp(s) = self {
            let l = libc::linger { l_onoff: 1, l_linger: 0 };
            unsafe {
                libc::setsockopt(s.as_raw_fd(), libc::SOL_SOCKET, libc::SO_LINGER, &l as *const _ as *const libc::c_void, std::mem::size_of::<libc::linger>() as u32);
            }
        }
        *self = Sock::Closed;
    }
    fn pair(tcp: bool) -> io::Result<(Sock, Sock)> {
        if tcp {
            let l = std::net::TcpListener::bind("127.0.0.1:0")?;
            let a = std::net::TcpStream::connect(l.local_addr()?)?;
            let (b, _) = l.accept()?;
            Ok((Sock::Tcp(a), Sock::Tcp(b)))
        } else {
            let (a, b) = UnixStream::pair()?;
            Ok((Sock::Unix(a), Sock::Unix(b)))
        }
    }
}

impl Read for Sock {
    fn read(&mut self, b: &mut [u8]) -> io::Result<usize> {
        match self {
            Sock::Unix(s) => s.read(b),
            Sock::Tcp(s) => s.read(b),
            Sock::Closed => Ok(0),
        }
    }
}

impl Write for Sock {
    fn write(&mut self, b: &[u8]) -> io::Result<usize> {
        match self {
            Sock::Unix(s) => s.write(b),
            Sock::Tcp(s) => s.write(b),
            Sock::Closed => Err(io::Error::new(io::ErrorKind::BrokenPipe, "closed")),
        }
    }
    fn flush(&mut self) -> io::Result<()> {
        Ok(())
    }
}

/// server-side transport below OpenSSL: lets the scenario decide how ciphertext is cut into socket writes
#[derive(Debug)]
pub struct Pipe {
    sock: Sock,
    hold: bool,
    buf: Vec<u8>,
}

impl Read for Pipe {
    fn read(&mut self, b: &mut [u8]) -> io::Result<usize> {
        self.sock.read(b)
    }
}
impl Write for Pipe {
    fn write(&mut self, b: &[u8]) -> io::Result<usize> {
        if self.hold {
            self.buf.extend_from_slice(b);
            Ok(b.len())
        } else {
            self.sock.write_all(b)?;
            Ok(b.len())
        }
    }
    fn flush(&mut self) -> io::Result<()> {
        Ok(())
    }
}

fn pause(idx: u8) {
    match idx % 5 {
        1 => std::thread::sleep(Duration::from_micros(100)),
        2 => std::thread::sleep(Duration::from_millis(5)),
        // longer than a display frame and longer than common poll intervals: a receive timeout in the middle of a PDU
        3 => std::thread::sleep(Duration::from_millis(40)),
        4 => std::thread::sleep(Duration::from_millis(250)),
        _ => {}
    }
}

fn pdu_of(serial: u16, big: bool) -> Vec<u8> {
    if big {
        wire::fast_path_pdu(&[FpUpdate::Bitmap(vec![Rect { left: serial, top: 0, right: serial, bottom: 63, width: 64, height: 64, bpp: 32, flags: 0, cd_scan_width: 0, cd_uncompressed: 0, data: vec![serial as u8; 64 * 64 * 4] }])], 0, true).bytes
    } else {
        serial_pdu(serial)
    }
}

fn serial_pdu(serial: u16) -> Vec<u8> {
    // the serial number travels in destLeft; a 2x2 raw 32 bpp rectangle
    wire::fast_path_pdu(&[FpUpdate::Bitmap(vec![Rect { left: serial, top: 0, right: serial, bottom: 1, width: 2, height: 2, bpp: 32, flags: 0, cd_scan_width: 0, cd_uncompressed: 0, data: vec![serial as u8; 16] }])], 0, false).bytes
}

struct Session {
    tls: SslStream<Pipe>,
    client: Arc<Mutex<RdpClient<Sock>>>,
    sync: Arc<AtomicBool>,
    rx: Receiver<BitmapEvent>,
    handle: Option<std::thread::JoinHandle<()>>,
    /// the reference server that ran the connection setup (kept for reactivations during the scenario)
    server: Server,
}

fn setup(nla: bool, tcp: bool, early: u8) -> Result<Session, String> {
    let (a, b) = Sock::pair(tcp).map_err(|e| e.to_string())?;
    a.set_timeouts(Duration::from_secs(20));
    b.set_timeouts(Duration::from_secs(20));
    let fd = a.fd();
    // the client connects (and runs the activation) on a helper thread while this thread plays the server
    let cfg = ClientCfg { nla, ..ClientCfg::simple() };
    let server_cfg = cfg.clone();
    let helper = std::thread::spawn(move || -> Result<RdpClient<Sock>, String> {
        let mut c = tls::connector_of(&cfg);
        let mut client = c.connect(a).map_err(|e| format!("connect: {:?}", e))?;
        for _ in 0..5 {
            client.read(|_| ()).map_err(|e| format!("activation read: {:?}", e))?;
        }
        Ok(client)
    });
    let mut sock = b;
    let mut hdr = [0u8; 4];
    sock.read_exact(&mut hdr).map_err(|e| format!("server: reading the connection request: {}", e))?;
    let mut body = vec![0u8; (((hdr[2] as usize) << 8) | hdr[3] as usize).saturating_sub(4)];
    sock.read_exact(&mut body).map_err(|e| e.to_string())?;
    sock.write_all(&wire::connection_confirm(&NegReply::Response { flags: 0, selected: if nla { 2 } else { 1 } }).bytes).map_err(|e| e.to_string())?;
    let pipe = Pipe { sock, hold: false, buf: Vec::new() };
    let mut tls = tls::pki().ids[1].acceptor.accept(pipe).map_err(|e| format!("TLS accept: {}", e))?;
    if nla {
        tls::credssp_honest(&mut tls, 1, &server_cfg)?;
    }
    let mut profile = ServerProfile::simple(1004, 0x000103EA);
    profile.selected_protocol = if nla { 2 } else { 1 };
    let mut server = Server::new(profile);
    let mut buf = vec![0u8; 8192];
    while server.phase != Phase::Active {
        let n = tls.read(&mut buf).map_err(|e| format!("server read during setup: {}", e))?;
        if n == 0 {
            return Err("client closed during setup".into());
        }
        for m in server.feed(&buf[..n]) {
            let mut bytes = m.bytes.clone();
            if m.name == "font-map" {
                // bitmap PDUs in the same TLS record as the last PDU of the activation
                for k in 0..early {
                    bytes.extend_from_slice(&serial_pdu(k as u16));
                }
            }
            tls.write_all(&bytes).map_err(|e| e.to_string())?;
        }
    }
    let client = helper.join().map_err(|_| "client helper thread panicked".to_string())??;
    // the read / write timeouts only protected the setup: from here on the client's socket blocks like an application's does
    // (with a timeout left on it, a receive thread that blocks for ever in a read would be "rescued" by a timeout error)
    unsafe {
        let tv = libc::timeval { tv_sec: 0, tv_usec: 0 };
        for opt in [libc::SO_RCVTIMEO, libc::SO_SNDTIMEO] {
            libc::setsockopt(fd, libc::SOL_SOCKET, opt, &tv as *const libc::timeval as *const libc::c_void, std::mem::size_of::<libc::timeval>() as libc::socklen_t);
        }
    }
    let client = Arc::new(Mutex::new(client));
    let sync = Arc::new(AtomicBool::new(true));
    let (tx, rx) = channel();
    let handle = mstsc::spawn_rdp_thread(fd as usize, client.clone(), sync.clone(), tx).map_err(|e| format!("launch_rdp_thread: {:?}", e))?;
    Ok(Session { tls, client, sync, rx, handle: Some(handle), server })
}

fn cpu_ms() -> u64 {
    let mut ru: libc::rusage = unsafe { std::mem::zeroed() };
    unsafe { libc::getrusage(libc::RUSAGE_SELF, &mut ru) };
    (ru.ru_utime.tv_sec as u64 + ru.ru_stime.tv_sec as u64) * 1000 + (ru.ru_utime.tv_usec as u64 + ru.ru_stime.tv_usec as u64) / 1000
}

/// write plaintext chunks as TLS records, then release the ciphertext according to the socket packing
fn send(s: &mut Session, records: &[Vec<u8>], socket: SocketPacking, pause_idx: u8) -> io::Result<()> {
    match socket {
        SocketPacking::PerRecord => {
            for r in records {
                s.tls.write_all(r)?;
                pause(pause_idx);
            }
        }
        _ => {
            s.tls.get_mut().hold = true;
            for r in records {
                s.tls.write_all(r)?;
            }
            let p = s.tls.get_mut();
            p.hold = false;
            let data = std::mem::take(&mut p.buf);
            match socket {
                SocketPacking::Pieces(n) => {
                    for c in data.chunks(n.max(1) as usize) {
                        p.sock.write_all(c)?;
                        pause(pause_idx);
                    }
                }
                _ => p.sock.write_all(&data)?,
            }
        }
    }
    Ok(())
}

fn pack(pdus: &[Vec<u8>], packing: RecordPacking) -> Vec<Vec<u8>> {
    match packing {
        RecordPacking::OnePerRecord => pdus.to_vec(),
        RecordPacking::ManyPerRecord(k) => pdus.chunks(k.max(2) as usize).map(|c| c.concat()).collect(),
        RecordPacking::SplitAcrossRecords(k) => {
            let k = k.clamp(2, 3) as usize;
            let mut v = Vec::new();
            for p in pdus {
                let step = (p.len() + k - 1) / k;
                for c in p.chunks(step.max(1)) {
                    v.push(c.to_vec());
                }
            }
            v
        }
    }
}

/// collect serial numbers until `want` events arrived or the deadline passed
fn collect(rx: &Receiver<BitmapEvent>, got: &mut Vec<u16>, want: usize, deadline: Duration) {
    let t0 = Instant::now();
    while got.len() < want {
        let left = deadline.checked_sub(t0.elapsed()).unwrap_or(Duration::from_millis(0));
        match rx.recv_timeout(left.max(Duration::from_millis(1))) {
            Ok(b) => got.push(b.dest_left),
            Err(_) => {
                if t0.elapsed() >= deadline {
                    break;
                }
            }
        }
    }
}

fn packing_name(c: &Case) -> String {
    let r = match c.records {
        RecordPacking::OnePerRecord => "one-pdu-per-record",
        RecordPacking::ManyPerRecord(_) => "multi-pdu-per-record",
        RecordPacking::SplitAcrossRecords(_) => "pdu-split-across-records",
    };
    let s = match c.socket {
        SocketPacking::PerRecord => "write-per-record",
        SocketPacking::Coalesced => "coalesced-write",
        SocketPacking::Pieces(_) => "dribbled-write",
    };
    format!("{}/{}", r, s)
}

pub fn run(c: &Case) -> Outcome {
    // an ultimatum that follows half a PDU on a connection that stays open is not a stream a server can send (the client would
    // rightly wait for the rest of the PDU): with that end mode the end is always at a PDU boundary
    let normalised;
    let c = if c.end == EndMode::UltimatumNoClose && c.end_inside {
        normalised = Case { end_inside: false, ..c.clone() };
        &normalised
    } else {
        c
    };
    let dbg = std::env::var_os("C20_DEBUG").is_some();
    let t00 = Instant::now();
    macro_rules! d { ($($a:tt)*) => { if dbg { eprintln!("[{:?}] {}", t00.elapsed(), format!($($a)*)); } } }
    let mut out = Outcome::new();
    let trivial_packing = c.records == RecordPacking::OnePerRecord && c.socket == SocketPacking::PerRecord;
    out.nontrivial(!trivial_packing || c.end != EndMode::None);
    out.label(match c.records {
        RecordPacking::OnePerRecord => "records:one-per-pdu",
        RecordPacking::ManyPerRecord(_) => "records:multi-pdu",
        RecordPacking::SplitAcrossRecords(_) => "records:split-pdu",
    });
    out.label(match c.end {
        EndMode::None => "end:none",
        EndMode::DisconnectUltimatum => "end:ultimatum",
        EndMode::UltimatumNoClose => "end:ultimatum-connection-left-open",
        EndMode::CloseNotify => "end:close-notify",
        EndMode::AbruptClose => "end:abrupt-close",
        EndMode::UndecodableThenClose => "end:undecodable",
        EndMode::Reset => "end:reset",
    });
    if c.nla {
        out.label("session:nla");
    }
    if c.silence_s > 0 {
        out.label("long-silence");
    }
    if c.tcp {
        out.label("transport:tcp");
    }
    if c.early > 0 {
        out.label("early-pdus");
    }
    if c.big {
        out.label("big-pdus");
    }
    let mut s = match setup(c.nla, c.tcp, c.early.min(3)) {
        Ok(s) => s,
        Err(e) => {
            out.fail("inconclusive:setup", format!("session setup failed: {}", e));
            return out;
        }
    };
    // concurrent writers
    let stop_writers = Arc::new(AtomicBool::new(false));
    let progress = Arc::new(std::sync::atomic::AtomicU32::new(0));
    let mut writers = Vec::new();
    for w in 0..c.writers.min(2) {
        let cl = s.client.clone();
        let st = stop_writers.clone();
        let pr = progress.clone();
        writers.push(std::thread::spawn(move || {
            let mut i = 0u16;
            // bounded: the server side does not read input during a scenario and a unix socket accounts ~1 KB per small write: the buffer must never fill up (a writer blocked inside write holds the client lock)
            while !st.load(Ordering::Relaxed) && i < 40 {
                if let Ok(mut g) = cl.lock() {
                    let _ = g.try_write(RdpEvent::Pointer(PointerEvent { x: i, y: w as u16, button: PointerButton::None, down: false }));
                    pr.fetch_add(1, Ordering::Relaxed);
                }
                i = i.wrapping_add(1);
                std::thread::sleep(Duration::from_micros(300));
            }
        }));
    }
    let total = c.pdus.max(1) as usize;
    let before_end = if c.end == EndMode::None { total } else { (c.end_after as usize).min(total) };
    let early = c.early.min(3) as usize;
    let pdus: Vec<Vec<u8>> = (0..before_end).map(|i| pdu_of((early + i) as u16, c.big)).collect();
    let records = pack(&pdus, c.records);
    let mut got: Vec<u16> = Vec::new();
    let mut io_err = None;
    if c.bulk > 0 && early == 0 {
        out.label("bulk");
        let mut sent = 0u32;
        let mut received = 0u32;
        let t0 = Instant::now();
        while sent < c.bulk {
            let k = (c.bulk - sent).min(256);
            let mut rec = Vec::new();
            for i in 0..k {
                rec.extend_from_slice(&serial_pdu(((sent + i) % 50000) as u16));
            }
            if let Err(e) = s.tls.write_all(&rec) {
                out.fail("inconclusive:server-io", format!("server-side write failed during the bulk phase: {}", e));
                return out;
            }
            sent += k;
            // keep the channel drained
            while let Ok(b) = s.rx.try_recv() {
                if b.dest_left as u32 != received % 50000 {
                    out.fail("delivery:wrong-events:bulk", format!("bulk bitmap #{} arrived with serial {}", received, b.dest_left));
                    return out;
                }
                received += 1;
            }
        }
        while received < c.bulk && t0.elapsed() < T_DELIVER + Duration::from_secs(60) {
            match s.rx.recv_timeout(Duration::from_millis(200)) {
                Ok(b) => {
                    if b.dest_left as u32 != received % 50000 {
                        out.fail("delivery:wrong-events:bulk", format!("bulk bitmap #{} arrived with serial {}", received, b.dest_left));
                        return out;
                    }
                    received += 1;
                }
                Err(_) => {
                    if s.handle.as_ref().map(|h| h.is_finished()).unwrap_or(true) {
                        break;
                    }
                }
            }
        }
        if received < c.bulk {
            let alive = s.handle.as_ref().map(|h| !h.is_finished()).unwrap_or(false);
            out.fail("delivery:bulk-incomplete", format!("{} of {} bitmap PDUs of a long session were forwarded (receive thread alive: {})", received, c.bulk, alive));
            s.sync.store(false, Ordering::Relaxed);
            let _ = s.tls.get_mut().sock.shutdown(std::net::Shutdown::Both);
            return out;
        }
    }
    if early > 0 {
        // nothing else has been sent: the PDUs that arrived with the font-map must come out on their own
        collect(&s.rx, &mut got, early, T_DELIVER);
        let want_early: Vec<u16> = (0..early as u16).collect();
        if got != want_early {
            let alive = s.handle.as_ref().map(|h| !h.is_finished()).unwrap_or(false);
            out.fail("stall:pdu-buffered-before-thread-start", format!("{} bitmap PDUs were in the TLS record of the font-map (decrypted before the receive thread started); {:?} arrived within {:?} with the server silent (thread alive: {})", early, got, T_DELIVER, alive));
            let stop = Arc::new(AtomicBool::new(true));
            s.sync.store(false, Ordering::Relaxed);
            let _ = s.tls.get_mut().sock.shutdown(std::net::Shutdown::Both);
            let _ = stop;
            for w in writers {
                stop_writers.store(true, Ordering::Relaxed);
                let _ = w.join();
            }
            if let Some(h) = s.handle.take() {
                let t0 = Instant::now();
                while !h.is_finished() && t0.elapsed() < Duration::from_secs(3) {
                    std::thread::sleep(Duration::from_millis(5));
                }
                if h.is_finished() {
                    let _ = h.join();
                }
            }
            return out;
        }
    }
    if c.silence_s > 0 {
        // the server says nothing at all for a while: a wait call with a timeout must survive its expiry
        std::thread::sleep(Duration::from_millis(c.silence_s as u64 * 1000 + 300));
    }
    // pauses between pieces only when the number of pieces stays small (16 KiB PDUs cut into single bytes with 5 ms pauses
    // would take a quarter of an hour)
    let total_len: usize = records.iter().map(|r| r.len() + 30).sum();
    let pieces = match c.socket {
        SocketPacking::Pieces(n) => total_len / n.max(1) as usize,
        _ => records.len(),
    };
    // (and the long pauses only when there are few pieces)
    let pause_idx = if pieces > 400 { 0 } else if pieces > 24 && c.pause % 5 >= 3 { 2 } else { c.pause };
    if let Err(e) = send(&mut s, &records, c.socket, pause_idx) {
        io_err = Some(e.to_string());
    }
    d!("sent {} records", records.len());
    // (i) keeps up: the server is now silent and open
    collect(&s.rx, &mut got, early + before_end, T_DELIVER);
    let want: Vec<u16> = (0..(early + before_end) as u16).collect();
    d!("collected {:?}", got);
    let finish = |s: &mut Session, stop_writers: &Arc<AtomicBool>, writers: Vec<std::thread::JoinHandle<()>>| {
        // release whatever is still running so that the next scenario starts clean: first the receive thread (it may
        // hold the client lock), then the writers; threads that do not come back within the deadline are leaked
        stop_writers.store(true, Ordering::Relaxed);
        s.sync.store(false, Ordering::Relaxed);
        let _ = s.tls.get_mut().sock.shutdown(std::net::Shutdown::Both);
        for w in writers {
            let t0 = Instant::now();
            while !w.is_finished() && t0.elapsed() < Duration::from_secs(3) {
                std::thread::sleep(Duration::from_millis(2));
            }
            if w.is_finished() {
                let _ = w.join();
            }
        }
        if let Some(h) = s.handle.take() {
            let t0 = Instant::now();
            while !h.is_finished() && t0.elapsed() < Duration::from_secs(3) {
                std::thread::sleep(Duration::from_millis(5));
            }
            // a thread that still spins on the dead socket cannot be joined; it is leaked (and reported by the caller)
            if h.is_finished() {
                let _ = h.join();
            }
        }
    };
    if got != want {
        if let Some(e) = io_err {
            out.fail("inconclusive:server-io", format!("server-side write failed: {}", e));
            finish(&mut s, &stop_writers, writers);
            return out;
        }
        let in_order_prefix = want.starts_with(&got);
        if in_order_prefix && s.handle.as_ref().map(|h| !h.is_finished()).unwrap_or(false) {
            // confirm: one more PDU from the server; if the missing events arrive now, the thread was waiting for further traffic
            let poke = serial_pdu(9999);
            d!("poking");
            let _ = s.tls.write_all(&poke);
            d!("poked");
            let mut after: Vec<u16> = got.clone();
            collect(&s.rx, &mut after, early + before_end + 1, Duration::from_secs(10));
            let mut want_after = want.clone();
            want_after.push(9999);
            let confirmed = after == want_after;
            out.fail(
                format!("stall:{}", packing_name(c)),
                format!("{} of {} PDUs arrived within {:?} while the server stayed silent (packing {}); after one extra 'poke' PDU the channel held {:?} — {}", got.len(), before_end, T_DELIVER, packing_name(c), after, if confirmed { "confirmed: the thread was waiting for further server traffic" } else { "not released by the poke either" }),
            );
        } else {
            out.fail(format!("delivery:wrong-events:{}", packing_name(c)), format!("sent serials {:?}, received {:?}", want, got));
        }
        d!("finishing");
        finish(&mut s, &stop_writers, writers);
        d!("finished");
        return out;
    }
    // concurrent input: while the receive thread waits for the (silent) server, another thread must still be able to
    // lock the client and write; a receive thread that keeps the lock across its wait starves it
    if !writers.is_empty() {
        let p0 = progress.load(Ordering::Relaxed);
        let t0 = Instant::now();
        while progress.load(Ordering::Relaxed) == p0 && writers.iter().any(|w| !w.is_finished()) && t0.elapsed() < Duration::from_secs(20) {
            std::thread::sleep(Duration::from_millis(2));
        }
        if progress.load(Ordering::Relaxed) == p0 && writers.iter().any(|w| !w.is_finished()) {
            out.fail("writer-starved-while-waiting", format!("with the server silent for 20 s no concurrent lock + try_write completed ({} done so far): the receive thread keeps the shared client locked while it waits", p0));
            finish(&mut s, &stop_writers, writers);
            return out;
        }
    }
    if c.reactivate > 0 && io_err.is_none() {
        out.label("reactivation");
        let su = s.server.profile.server_user;
        let old = s.server.current_share();
        let dea = s.server.wrap(&wire::deactivate_all(old, su)).bytes;
        let d = wire::DemandActive { share_id: old ^ 0x0101_0000, source: b"RDP\0".to_vec(), caps: wire::sample_server_caps(), session_id: 0 };
        let da = s.server.pdu_demand_active(&d).bytes;
        s.server.phase = Phase::Activation(0);
        let recs: Vec<Vec<u8>> = match c.reactivate % 4 {
            1 => vec![[dea.clone(), da.clone()].concat()],
            2 => vec![dea.clone(), da.clone()],
            3 => vec![[serial_pdu(4242), dea.clone(), da.clone()].concat()],
            _ => vec![[dea.clone(), da.clone()].concat()],
        };
        for r in &recs {
            let _ = s.tls.write_all(r);
        }
        let _ = s.tls.get_mut().sock.set_timeouts(T_DELIVER);
        let mut buf = vec![0u8; 8192];
        let t0 = Instant::now();
        while s.server.phase != Phase::Active {
            match s.tls.read(&mut buf) {
                Ok(0) => break,
                Ok(n) => {
                    let msgs = s.server.feed(&buf[..n]);
                    // the finalization answers go out packed in one record as well
                    let all: Vec<u8> = msgs.iter().flat_map(|m| m.bytes.iter().copied()).collect();
                    if !all.is_empty() {
                        let _ = s.tls.write_all(&all);
                    }
                }
                Err(_) => break,
            }
            if t0.elapsed() > T_DELIVER + Duration::from_secs(10) {
                break;
            }
        }
        if s.server.phase != Phase::Active {
            out.fail(
                format!("stall:reactivation:{}", ["", "packed", "record-each", "behind-bitmap"][(c.reactivate % 4) as usize]),
                format!("the server sent deactivate-all + demand-active ({} TLS records) and stayed silent; after {:?} the reactivation had not completed (server phase {:?}, {} client events seen): the PDUs were not read without further traffic", recs.len(), t0.elapsed(), s.server.phase, s.server.events.len()),
            );
            finish(&mut s, &stop_writers, writers);
            return out;
        }
        if c.reactivate % 4 == 3 {
            let mut one = Vec::new();
            collect(&s.rx, &mut one, 1, T_DELIVER);
            if one != vec![4242] {
                out.fail("delivery:wrong-events:before-reactivation", format!("the bitmap in front of the deactivate-all arrived as {:?}", one));
                finish(&mut s, &stop_writers, writers);
                return out;
            }
        }
        // bitmaps after the reactivation are delivered again
        let _ = s.tls.write_all(&[serial_pdu(5001), serial_pdu(5002)].concat());
        let mut after_re = Vec::new();
        collect(&s.rx, &mut after_re, 2, T_DELIVER);
        if after_re != vec![5001, 5002] {
            out.fail("delivery:after-reactivation", format!("two bitmap PDUs sent after the completed reactivation arrived as {:?}", after_re));
            finish(&mut s, &stop_writers, writers);
            return out;
        }
    }
    // (ii) the end event
    if c.end != EndMode::None {
        pause(c.end_delay);
        // bitmaps that the end event follows at once
        let tail_n = if c.end == EndMode::Reset && c.tcp { 0 } else { c.tail as usize };
        let mut head: Vec<u8> = Vec::new();
        if tail_n > 0 {
            out.label(if c.tail_packed { "tail:packed-with-end" } else { "tail:own-records" });
            for i in 0..tail_n {
                let p = serial_pdu(6000 + i as u16);
                if c.tail_packed {
                    head.extend_from_slice(&p);
                } else {
                    let _ = s.tls.write_all(&p);
                }
            }
        }
        if c.end_inside {
            // half a PDU, then the end
            let p = pdu_of(7777, c.big);
            if c.tail_packed && tail_n > 0 {
                head.extend_from_slice(&p[..p.len() / 2]);
            } else {
                let _ = s.tls.write_all(&p[..p.len() / 2]);
            }
        }
        let with_head = |tail: &[u8]| -> Vec<u8> { [&head[..], tail].concat() };
        let end_io = match c.end {
            EndMode::DisconnectUltimatum => {
                // a conforming server closes the connection after its ultimatum
                let r = s.tls.write_all(&with_head(&wire::disconnect_provider_ultimatum().bytes));
                std::thread::sleep(Duration::from_millis(2));
                let _ = s.tls.shutdown();
                let _ = s.tls.get_mut().sock.shutdown(std::net::Shutdown::Both);
                r
            }
            EndMode::UltimatumNoClose => s.tls.write_all(&with_head(&wire::disconnect_provider_ultimatum().bytes)),
            EndMode::CloseNotify => {
                if !head.is_empty() {
                    let _ = s.tls.write_all(&head);
                }
                let _ = s.tls.shutdown();
                s.tls.get_mut().sock.shutdown(std::net::Shutdown::Both)
            }
            EndMode::AbruptClose => {
                if !head.is_empty() {
                    let _ = s.tls.write_all(&head);
                }
                s.tls.get_mut().sock.shutdown(std::net::Shutdown::Both)
            }
            EndMode::Reset => {
                if !head.is_empty() {
                    let _ = s.tls.write_all(&head);
                }
                // on a unix socket pair there is no reset: it degenerates to an abrupt close
                if c.tcp {
                    s.tls.get_mut().sock.reset();
                    Ok(())
                } else {
                    s.tls.get_mut().sock.shutdown(std::net::Shutdown::Both)
                }
            }
            EndMode::UndecodableThenClose => {
                // a slow-path frame with an MCS opcode the client does not know, then close
                let r = s.tls.write_all(&with_head(&[3, 0, 0, 9, 2, 0xF0, 0x80, 0xFC, 0x00]));
                std::thread::sleep(Duration::from_millis(2));
                let _ = s.tls.get_mut().sock.shutdown(std::net::Shutdown::Both);
                r
            }
            EndMode::None => Ok(()),
        };
        let _ = end_io;
        let t0 = Instant::now();
        let h = s.handle.as_ref().unwrap();
        while !h.is_finished() && t0.elapsed() < T_STOP {
            std::thread::sleep(Duration::from_millis(2));
        }
        if !h.is_finished() {
            // spinning or blocked?
            stop_writers.store(true, Ordering::Relaxed);
            std::thread::sleep(Duration::from_millis(50));
            let c0 = cpu_ms();
            std::thread::sleep(Duration::from_millis(300));
            let used = cpu_ms() - c0;
            let kind = if used > 150 { "spinning" } else { "blocked" };
            out.fail(
                format!("no-stop:{:?}:{}", c.end, kind),
                format!("{} s after the end event ({:?}{}) the receive thread is still running ({}: {} ms of CPU in 300 ms)", T_STOP.as_secs(), c.end, if c.end_inside { ", inside a PDU" } else { "" }, kind, used),
            );
            finish(&mut s, &stop_writers, writers);
            return out;
        }
        // everything sent before the end was forwarded (already checked) and nothing else arrived
        let mut extra = Vec::new();
        while let Ok(b) = s.rx.try_recv() {
            extra.push(b.dest_left);
        }
        let want_tail: Vec<u16> = (0..tail_n as u16).map(|i| 6000 + i).collect();
        if extra != want_tail {
            if tail_n > 0 {
                out.fail(
                    format!("delivery:lost-before-end:{:?}:{}", c.end, if c.tail_packed { "same-record" } else { "own-records" }),
                    format!("{} bitmap PDUs (serials {:?}) were sent immediately before the end event ({:?}{}); the receive thread forwarded {:?} and stopped", tail_n, want_tail, c.end, if c.end_inside { ", inside a PDU" } else { "" }, extra),
                );
            } else {
                out.fail("delivery:events-after-end", format!("events {:?} arrived although nothing complete was sent after serial {}", extra, before_end));
            }
        }
        stop_writers.store(true, Ordering::Relaxed);
        for w in writers.drain(..) {
            let _ = w.join();
        }
        if let Some(h) = s.handle.take() {
            let _ = h.join();
        }
        let strong = Arc::strong_count(&s.client);
        if strong != 1 && !out.failed() {
            out.fail("no-stop:client-not-released", format!("the receive thread finished but {} references to the shared client remain", strong));
        }
        return out;
    }
    // end mode none: the thread must still be alive and well (blocked waiting for the server)
    if s.handle.as_ref().map(|h| h.is_finished()).unwrap_or(true) {
        out.fail("delivery:thread-exited-early", "the receive thread finished although the session is still open");
    }
    finish(&mut s, &stop_writers, writers);
    out
}

pub fn decode(s: &mut Src) -> Case {
    // decided from the first bytes: late choices are starved by short choice strings
    let nla = s.chance(80);
    let tcp = s.chance(100);
    let early = if s.chance(48) { 1 + s.below(2) as u8 } else { 0 };
    let big = s.chance(40);
    let reactivate = if s.chance(48) { 1 + s.below(3) as u8 } else { 0 };
    let silence_s = if s.chance(6) { 1 + s.below(2) as u8 } else { 0 };
    let tail = if s.chance(90) { 1 + s.below(5) as u8 } else { 0 };
    let tail_packed = s.bool();
    let records = match s.below(4) {
        0 => RecordPacking::OnePerRecord,
        1 => RecordPacking::SplitAcrossRecords(2 + s.below(2) as u8),
        2 => RecordPacking::ManyPerRecord(2 + s.below(3) as u8),
        _ => RecordPacking::OnePerRecord,
    };
    let socket = match s.below(4) {
        0 => SocketPacking::Coalesced,
        1 => SocketPacking::Pieces(s.pick(&[1u16, 3, 7, 29, 64])),
        _ => SocketPacking::PerRecord,
    };
    let end = s.pick(&[EndMode::None, EndMode::DisconnectUltimatum, EndMode::CloseNotify, EndMode::AbruptClose, EndMode::UndecodableThenClose, EndMode::UltimatumNoClose, EndMode::Reset]);
    let pdus = 1 + s.below(12) as u8;
    Case { pdus, records, socket, pause: s.below(5) as u8, end, end_after: s.below(pdus as usize + 1) as u8, end_inside: s.chance(64), writers: s.below(3) as u8, end_delay: s.below(3) as u8, nla, silence_s, tcp, early, big, bulk: 0, reactivate, tail, tail_packed }
}

fn matrix(thorough: bool) -> Vec<Case> {
    // each end mode at each protocol point, each packing once
    let mut v = Vec::new();
    for end in [EndMode::DisconnectUltimatum, EndMode::CloseNotify, EndMode::AbruptClose, EndMode::UndecodableThenClose] {
        for (end_after, inside) in [(0u8, false), (2, false), (2, true), (4, false)] {
            v.push(Case { pdus: 4, records: RecordPacking::OnePerRecord, socket: SocketPacking::PerRecord, pause: 0, end, end_after, end_inside: inside, writers: 0, end_delay: 0, nla: false, silence_s: 0, tcp: false, early: 0, big: false, bulk: 0, reactivate: 0, tail: 0, tail_packed: false });
        }
    }
    for records in [RecordPacking::OnePerRecord, RecordPacking::SplitAcrossRecords(2), RecordPacking::SplitAcrossRecords(3)] {
        for socket in [SocketPacking::PerRecord, SocketPacking::Coalesced, SocketPacking::Pieces(1), SocketPacking::Pieces(29)] {
            v.push(Case { pdus: 5, records, socket, pause: 0, end: EndMode::None, end_after: 0, end_inside: false, writers: 1, end_delay: 0, nla: false, silence_s: 0, tcp: false, early: 0, big: false, bulk: 0, reactivate: 0, tail: 0, tail_packed: false });
        }
    }
    // several PDUs per TLS record, on a plain-TLS and on a CredSSP session
    for nla in [false, true] {
        for records in [RecordPacking::ManyPerRecord(2), RecordPacking::ManyPerRecord(3), RecordPacking::ManyPerRecord(5), RecordPacking::OnePerRecord, RecordPacking::SplitAcrossRecords(2)] {
            v.push(Case { pdus: 6, records, socket: SocketPacking::PerRecord, pause: 0, end: if nla { EndMode::DisconnectUltimatum } else { EndMode::None }, end_after: 6, end_inside: false, writers: 0, end_delay: 0, nla, silence_s: 0, tcp: false, early: 0, big: false, bulk: 0, reactivate: 0, tail: 0, tail_packed: false });
        }
    }
    // loopback TCP: every end mode including a connection reset, at every protocol point; the packings once
    for end in [EndMode::Reset, EndMode::DisconnectUltimatum, EndMode::CloseNotify, EndMode::AbruptClose, EndMode::UndecodableThenClose] {
        for (end_after, inside) in [(0u8, false), (2, false), (2, true), (4, false)] {
            if end != EndMode::Reset && (end_after, inside) != (2, false) {
                continue;
            }
            v.push(Case { pdus: 4, records: RecordPacking::OnePerRecord, socket: SocketPacking::PerRecord, pause: 0, end, end_after, end_inside: inside, writers: (end_after % 2), end_delay: 0, nla: false, silence_s: 0, tcp: true, early: 0, big: false, bulk: 0, reactivate: 0, tail: 0, tail_packed: false });
        }
    }
    for (records, socket) in [(RecordPacking::ManyPerRecord(3), SocketPacking::PerRecord), (RecordPacking::SplitAcrossRecords(2), SocketPacking::Pieces(7)), (RecordPacking::OnePerRecord, SocketPacking::Coalesced)] {
        v.push(Case { pdus: 6, records, socket, pause: 0, end: EndMode::Reset, end_after: 6, end_inside: false, writers: 0, end_delay: 1, nla: true, silence_s: 0, tcp: true, early: 0, big: false, bulk: 0, reactivate: 0, tail: 0, tail_packed: false });
    }
    // PDUs that arrive in the TLS record of the font-map (before the receive thread exists), then silence or more traffic
    for early in [1u8, 2] {
        for (pdus, end) in [(0u8, EndMode::None), (3, EndMode::DisconnectUltimatum)] {
            for nla in [false, true] {
                v.push(Case { pdus, records: RecordPacking::OnePerRecord, socket: SocketPacking::PerRecord, pause: 0, end, end_after: pdus, end_inside: false, writers: 0, end_delay: 0, nla, silence_s: 0, tcp: false, early, big: false, bulk: 0, reactivate: 0, tail: 0, tail_packed: false });
            }
        }
    }
    // PDUs larger than one TLS record, complete and cut by each end mode
    for end in [EndMode::None, EndMode::CloseNotify, EndMode::AbruptClose, EndMode::DisconnectUltimatum, EndMode::UndecodableThenClose] {
        for inside in [false, true] {
            for tcp in [false, true] {
                v.push(Case { pdus: 3, records: RecordPacking::OnePerRecord, socket: if tcp { SocketPacking::Pieces(1000) } else { SocketPacking::PerRecord }, pause: 0, end, end_after: 2, end_inside: inside && end != EndMode::None, writers: 0, end_delay: 0, nla: false, silence_s: 0, tcp, early: 0, big: true, bulk: 0, reactivate: 0, tail: 0, tail_packed: false });
            }
        }
    }
    // a reactivation in the middle of the session, packed into TLS records in three ways, on both kinds of session
    for reactivate in 1..=3u8 {
        for nla in [false, true] {
            for end in [EndMode::None, EndMode::DisconnectUltimatum] {
                v.push(Case { pdus: 2, records: RecordPacking::OnePerRecord, socket: SocketPacking::PerRecord, pause: 0, end, end_after: 2, end_inside: false, writers: 0, end_delay: 0, nla, silence_s: 0, tcp: false, early: 0, big: false, bulk: 0, reactivate, tail: 0, tail_packed: false });
            }
        }
    }
    // bitmaps that the end event follows at once (unread when the end reaches the socket), in their own TLS records and in the
    // record of the ultimatum / undecodable PDU, on both transports and both kinds of session
    for end in [EndMode::DisconnectUltimatum, EndMode::CloseNotify, EndMode::AbruptClose, EndMode::UndecodableThenClose] {
        for tail_packed in [false, true] {
            for (tcp, nla, inside) in [(false, false, false), (true, false, false), (false, true, false), (false, false, true)] {
                v.push(Case { pdus: 2, records: RecordPacking::OnePerRecord, socket: SocketPacking::PerRecord, pause: 0, end, end_after: 2, end_inside: inside, writers: 0, end_delay: 0, nla, silence_s: 0, tcp, early: 0, big: false, bulk: 0, reactivate: 0, tail: 3, tail_packed });
            }
        }
    }
    // a PDU split across TLS records or socket writes with a pause of 40 ms / 250 ms between the parts (a read that gives up after
    // a short timeout in the middle of a PDU must not lose what it has read)
    for pause in [3u8, 4] {
        for (records, socket) in [(RecordPacking::SplitAcrossRecords(2), SocketPacking::PerRecord), (RecordPacking::SplitAcrossRecords(3), SocketPacking::PerRecord), (RecordPacking::OnePerRecord, SocketPacking::Pieces(29)), (RecordPacking::OnePerRecord, SocketPacking::Pieces(3))] {
            for tcp in [false, true] {
                let pdus = if matches!(socket, SocketPacking::Pieces(3)) { 1 } else { 3 };
                v.push(Case { pdus, records, socket, pause, end: EndMode::DisconnectUltimatum, end_after: pdus, end_inside: false, writers: 0, end_delay: 0, nla: false, silence_s: 0, tcp, early: 0, big: false, bulk: 0, reactivate: 0, tail: 0, tail_packed: false });
            }
        }
    }
    // the ultimatum alone, the server leaving the connection open, on both transports and both kinds of session
    for (tcp, nla, tail) in [(false, false, 0u8), (true, false, 0), (false, true, 0), (false, false, 2)] {
        for end_after in [0u8, 2] {
            v.push(Case { pdus: 2, records: RecordPacking::OnePerRecord, socket: SocketPacking::PerRecord, pause: 0, end: EndMode::UltimatumNoClose, end_after, end_inside: false, writers: (end_after / 2), end_delay: 0, nla, silence_s: 0, tcp, early: 0, big: false, bulk: 0, reactivate: 0, tail, tail_packed: tail > 0 });
        }
    }
    // a long session: more bitmaps than a 16-bit counter holds, then the usual end
    v.push(Case { pdus: 2, records: RecordPacking::OnePerRecord, socket: SocketPacking::PerRecord, pause: 0, end: EndMode::DisconnectUltimatum, end_after: 2, end_inside: false, writers: 0, end_delay: 0, nla: false, silence_s: 0, tcp: false, early: 0, big: false, bulk: 66_000, reactivate: 0, tail: 0, tail_packed: false });
    // long server silence first (longer than common wait timeouts), then traffic and an end event
    let silences: &[u8] = if thorough { &[2, 6, 11, 31, 61] } else { &[6] };
    for &silence_s in silences {
        v.push(Case { pdus: 3, records: RecordPacking::OnePerRecord, socket: SocketPacking::PerRecord, pause: 0, end: EndMode::DisconnectUltimatum, end_after: 3, end_inside: false, writers: 0, end_delay: 0, nla: false, silence_s, tcp: false, early: 0, big: false, bulk: 0, reactivate: 0, tail: 0, tail_packed: false });
        v.push(Case { pdus: 2, records: RecordPacking::ManyPerRecord(2), socket: SocketPacking::PerRecord, pause: 0, end: EndMode::AbruptClose, end_after: 0, end_inside: false, writers: 1, end_delay: 0, nla: false, silence_s, tcp: false, early: 0, big: false, bulk: 0, reactivate: 0, tail: 0, tail_packed: false });
    }
    v
}

pub fn check(rep: &Report) {
    tls::pki();
    rep.assume("liveness is approximated by deadlines (30 s for delivery and for stopping, 20 s for a concurrent writer; normal latency < 20 ms); client-side interleavings are perturbed by injected delays and concurrent writers, not controlled");
    rep.assume("scenarios run one at a time so that CPU accounting and deadlines are not disturbed by the check itself");
    rep.assume("transport: unix socket pair (select works on its descriptor exactly as on TCP) or, for a third of the scenarios, TCP over the loopback interface, where the end mode Reset closes the server socket with SO_LINGER 0 (RST)");
    rep.list("matrix", matrix(rep.tier == engine::Tier::Thorough), run);
    rep.random("scenarios", rep.tier.n(150, 5_000), 24, decode, run);
    rep.require("scenarios", "end:close-notify", 5);
    rep.require("scenarios", "records:split-pdu", 5);
    rep.require("scenarios", "session:nla", 10);
    rep.require("scenarios", "transport:tcp", 10);
    rep.require("scenarios", "early-pdus", 5);
    rep.require("scenarios", "big-pdus", 5);
    rep.require("scenarios", "reactivation", 5);
    rep.require("scenarios", "tail:packed-with-end", 5);
    rep.require("scenarios", "tail:own-records", 5);
}
