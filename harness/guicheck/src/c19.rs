//! C19 — Painting a bitmap into the window buffer is memory-safe and exact.
use crate::mstsc;
use engine::{guarded, Guarded, Outcome, Report, Src};
use rdp::core::event::BitmapEvent;
use refimpl::{planar, rle16};
use serde::{Deserialize, Serialize};

pub const LEVEL: &str = "exploration";
pub const RULE: &str = "case = (window W x H, destination rectangle left/top/right/bottom drawn from in-range, edge, out-of-range and inverted values, image width/height equal to, smaller or larger than the rectangle, depth 16/32/other, raw or compressed (valid reference encoding or corrupt), data length matching or not). Every event is painted twice, with other bitmaps (one of the same geometry) going through the decoder in between: two successful paintings must agree pixel for pixel (the decoded image is a function of the event alone). large: images and windows whose row offsets pass 65535. small-exhaustive enumerates every rectangle over coordinates 0..5 (plus 65535) for windows up to 4x4 with raw 32 bpp images of several sizes. Oracle: never a panic; the window buffer's spare capacity (canary region directly behind the buffer) is untouched; under the AddressSanitizer build any out-of-bounds read or write aborts the run; if the call returns Ok and the rectangle lies inside the window, every pixel outside the rectangle is unchanged and, when the decoded image covers the rectangle, the rectangle equals image rows 0..=bottom-top, columns 0..=right-left. Err is always acceptable. Non-trivial = an inside-window rectangle that was copied, or an out-of-window / inverted / mismatched geometry; distinct by hash of the case.";

#[derive(Serialize, Deserialize, Hash, Clone, Debug)]
pub struct Case {
    pub win_w: u16,
    pub win_h: u16,
    pub left: u16,
    pub top: u16,
    pub right: u16,
    pub bottom: u16,
    pub img_w: u16,
    pub img_h: u16,
    pub bpp: u16,
    pub compress: bool,
    pub data: Vec<u8>,
    /// top-down BGRA of the image the data encodes, when it is a valid encoding
    pub image: Option<Vec<u8>>,
    /// a second acceptable image where the wire format can be read in two ways (uncompressed 16 bpp rows of odd
    /// width: packed, as every deployed client reads them, or padded to 32 bits as MS-RDPBCGR words it)
    #[serde(default)]
    pub alt_image: Option<Vec<u8>>,
}

const CANARY: u32 = 0xDEAD_BEEF;
// under AddressSanitizer the buffer is allocated exactly so that the redzones sit directly at both ends
#[cfg(not(verif_asan))]
const GUARD: usize = 64;
#[cfg(verif_asan)]
const GUARD: usize = 0;

pub fn run(c: &Case) -> Outcome {
    let mut out = Outcome::new();
    let (ww, wh) = (c.win_w as usize, c.win_h as usize);
    let n = ww * wh;
    let mut buffer: Vec<u32> = Vec::with_capacity(n + GUARD);
    for i in 0..n {
        buffer.push(0x1000_0000u32.wrapping_add(i as u32));
    }
    // canary behind the buffer (spare capacity belongs to the allocation but not to the buffer)
    unsafe {
        let p = buffer.as_mut_ptr().add(n);
        for i in 0..GUARD {
            p.add(i).write(CANARY);
        }
    }
    let before = buffer.clone();
    let inside = c.left <= c.right && c.top <= c.bottom && (c.right as usize) < ww && (c.bottom as usize) < wh;
    let inverted = c.left > c.right || c.top > c.bottom;
    out.label(if inside { "inside-window" } else if inverted { "inverted" } else { "out-of-window" });
    let ev = BitmapEvent { dest_left: c.left, dest_top: c.top, dest_right: c.right, dest_bottom: c.bottom, width: c.img_w, height: c.img_h, bpp: c.bpp, is_compress: c.compress, data: c.data.clone() };
    let r = guarded(|| mstsc::blit(&mut buffer, ww, ev));
    let res = match r {
        Guarded::Panicked(p) => {
            let kind = if inverted { "inverted-rectangle" } else { "other" };
            out.fail(format!("blit:{}:{}", kind, p.signature()), format!("fast_bitmap_transfer panicked: '{}' at {}:{} for window {}x{} rect ({},{})-({},{}) image {}x{}", p.message, p.file, p.line, ww, wh, c.left, c.top, c.right, c.bottom, c.img_w, c.img_h));
            out.nontrivial(true);
            return out;
        }
        Guarded::Done(r, _) => r,
    };
    // canary
    let damaged = unsafe {
        let p = buffer.as_ptr().add(buffer.len());
        (0..GUARD).filter(|i| p.add(*i).read() != CANARY).count()
    };
    if buffer.len() != n || damaged > 0 {
        out.fail("blit:wrote-behind-buffer", format!("{} canary words behind the window buffer were overwritten (buffer len {} expected {})", damaged, buffer.len(), n));
        return out;
    }
    // the decoded image is a function of the event alone: painting the same event again, after some other bitmap went through
    // the decoder, must give the same result and the same pixels
    {
        let mut scratch: Vec<u32> = vec![0x0BAD_F00Du32; 64 * 64];
        let w16 = 4 + (c.img_w % 5);
        let other = BitmapEvent { dest_left: 0, dest_top: 0, dest_right: w16 - 1, dest_bottom: 3, width: w16, height: 4, bpp: 16, is_compress: true, data: vec![0x70 | 0x0F, 0x1F, 0xF8, 0x60 | 0x1F, 0xE0, 0x07, 0x60 | 0x10, 0xFF, 0xFF] };
        let _ = guarded(|| mstsc::blit(&mut scratch, 64, other));
        // same geometry as the case, other contents
        let mut d2 = c.data.clone();
        for b in d2.iter_mut() {
            *b = !*b;
        }
        let other2 = BitmapEvent { dest_left: 0, dest_top: 0, dest_right: c.img_w.min(63).saturating_sub(1), dest_bottom: c.img_h.min(63).saturating_sub(1), width: c.img_w, height: c.img_h, bpp: c.bpp, is_compress: c.compress, data: d2 };
        if (c.img_w as usize) * (c.img_h as usize) <= 64 * 64 {
            let _ = guarded(|| mstsc::blit(&mut scratch, 64, other2));
        }
        let mut again = before.clone();
        let ev2 = BitmapEvent { dest_left: c.left, dest_top: c.top, dest_right: c.right, dest_bottom: c.bottom, width: c.img_w, height: c.img_h, bpp: c.bpp, is_compress: c.compress, data: c.data.clone() };
        match guarded(|| mstsc::blit(&mut again, ww, ev2)) {
            Guarded::Panicked(p) => {
                out.fail(format!("blit:other:{}", p.signature()), format!("the second painting of the same event panicked: '{}' at {}:{}", p.message, p.file, p.line));
                return out;
            }
            Guarded::Done(r2, _) => {
                // after an error the window content is unspecified; two successful paintings must agree pixel for pixel
                if r2.is_ok() != res.is_ok() || (res.is_ok() && again[..] != buffer[..n]) {
                    let diff = again.iter().zip(buffer.iter()).position(|(a, b)| a != b);
                    out.fail("blit:depends-on-earlier-bitmaps", format!("the same bitmap event painted twice (another bitmap decoded in between) gave Ok={} / Ok={} and differs at window pixel {:?}; window {}x{} rect ({},{})-({},{}) image {}x{} bpp {} compressed {}", res.is_ok(), r2.is_ok(), diff, ww, wh, c.left, c.top, c.right, c.bottom, c.img_w, c.img_h, c.bpp, c.compress));
                    return out;
                }
            }
        }
    }
    match res {
        Err(_) => {
            out.label("err");
            out.nontrivial(!inside);
        }
        Ok(()) => {
            out.label("ok");
            out.nontrivial(true);
            if inside {
                let (l, t, r, b) = (c.left as usize, c.top as usize, c.right as usize, c.bottom as usize);
                for y in 0..wh {
                    for x in 0..ww {
                        let in_rect = x >= l && x <= r && y >= t && y <= b;
                        if !in_rect && buffer[y * ww + x] != before[y * ww + x] {
                            out.fail("blit:pixel-outside-rectangle-changed", format!("pixel ({}, {}) outside the rectangle ({},{})-({},{}) changed", x, y, l, t, r, b));
                            return out;
                        }
                    }
                }
                // an image with fewer columns or rows than the rectangle does not contain "the rectangle's rows": the only
                // outcome the property leaves is an error
                {
                    let (iw, ih) = (c.img_w as usize, c.img_h as usize);
                    if iw < r - l + 1 || ih < b - t + 1 {
                        out.fail(
                            "blit:ok-although-image-smaller-than-rectangle",
                            format!("fast_bitmap_transfer returned Ok for the in-window rectangle ({},{})-({},{}) ({} x {} pixels) with an image of {} x {} pixels (bpp {}, compressed {}): the rectangle's rows are not in the image; window {}x{}", l, t, r, b, r - l + 1, b - t + 1, iw, ih, c.bpp, c.compress, ww, wh),
                        );
                        return out;
                    }
                }
                if let Some(img) = &c.image {
                    let (iw, ih) = (c.img_w as usize, c.img_h as usize);
                    if iw >= r - l + 1 && ih >= b - t + 1 && img.len() == iw * ih * 4 {
                        out.label("exact-copy-checked");
                        let mismatch = |img: &Vec<u8>| -> Option<String> {
                            for y in t..=b {
                                for x in l..=r {
                                    let s = ((y - t) * iw + (x - l)) * 4;
                                    let want = u32::from_le_bytes([img[s], img[s + 1], img[s + 2], img[s + 3]]);
                                    if buffer[y * ww + x] != want {
                                        return Some(format!("window pixel ({}, {}) = {:#010x}, image pixel ({}, {}) = {:#010x}; window {}x{} rect ({},{})-({},{}) image {}x{}", x, y, buffer[y * ww + x], x - l, y - t, want, ww, wh, l, t, r, b, iw, ih));
                                    }
                                }
                            }
                            None
                        };
                        if let Some(m) = mismatch(img) {
                            let alt_ok = c.alt_image.as_ref().map(|a| a.len() == img.len() && mismatch(a).is_none()).unwrap_or(false);
                            if alt_ok {
                                out.label("alternative-reading");
                            } else {
                                out.fail("blit:wrong-pixel", m);
                                return out;
                            }
                        }
                    }
                }
            }
        }
    }
    out
}

fn coord(s: &mut Src, limit: usize) -> u16 {
    match s.below(8) {
        0 => 0,
        1 => limit.saturating_sub(1) as u16,
        2 => limit as u16,
        3 => (limit + 1 + s.below(4)) as u16,
        4 => 65535,
        _ => s.below(limit.max(1)) as u16,
    }
}

pub fn decode(s: &mut Src) -> Case {
    let win_w = 1 + s.small(63) as u16;
    let win_h = 1 + s.small(63) as u16;
    let mut left = coord(s, win_w as usize);
    let mut right = coord(s, win_w as usize);
    let mut top = coord(s, win_h as usize);
    let mut bottom = coord(s, win_h as usize);
    // half of the cases: a rectangle well inside the window (the exactness oracle applies to these)
    if s.bool() {
        left = s.below(win_w as usize) as u16;
        right = left + s.below(win_w as usize - left as usize) as u16;
        top = s.below(win_h as usize) as u16;
        bottom = top + s.below(win_h as usize - top as usize) as u16;
    }
    // mostly ordered rectangles, sometimes inverted
    if !s.chance(48) {
        if left > right {
            std::mem::swap(&mut left, &mut right);
        }
        if top > bottom {
            std::mem::swap(&mut top, &mut bottom);
        }
    }
    let rw = (right as i64 - left as i64 + 1).clamp(0, 80) as usize;
    let rh = (bottom as i64 - top as i64 + 1).clamp(0, 80) as usize;
    let img_w = match s.below(6) {
        0 => rw.saturating_sub(1),
        1 => rw + 1 + s.below(4),
        2 => s.below(8),
        _ => rw,
    }
    .min(96);
    let img_h = match s.below(6) {
        0 => rh.saturating_sub(1),
        1 => rh + 1 + s.below(4),
        2 => s.below(8),
        _ => rh,
    }
    .min(96);
    let mode = s.below(8);
    let seed = s.u32() as u64 | 1;
    let mut st = seed;
    let mut ch = move |n: usize| {
        st ^= st << 13;
        st ^= st >> 7;
        st ^= st << 17;
        (st % n.max(1) as u64) as usize
    };
    let mut alt: Option<Vec<u8>> = None;
    let (bpp, compress, mut data, mut image): (u16, bool, Vec<u8>, Option<Vec<u8>>) = match mode {
        0 | 1 | 2 => {
            // raw 32 bpp, bottom-up on the wire
            let img = s.fill(img_w * img_h * 4);
            let mut wire = Vec::with_capacity(img.len());
            for r in (0..img_h).rev() {
                wire.extend_from_slice(&img[r * img_w * 4..(r + 1) * img_w * 4]);
            }
            (32, false, wire, Some(img))
        }
        3 => {
            let img = s.fill(img_w * img_h * 4);
            if img_w > 0 && img_h > 0 {
                (32, true, planar::encode(&img, img_w, img_h, &mut ch).0, Some(img))
            } else {
                (32, true, vec![0x10], None)
            }
        }
        4 | 5 => {
            let px: Vec<u16> = (0..img_w * img_h).map(|i| if ch(3) == 0 { 0xFFFF } else { (i as u16).wrapping_mul(2113) }).collect();
            if img_w > 0 && img_h > 0 {
                let enc = rle16::encode_random(&px, img_w, &mut ch).0;
                (16, true, enc, Some(rle16::to_bgra(&rle16::flip(&px, img_w, img_h))))
            } else {
                (16, true, vec![], None)
            }
        }
        6 => {
            // raw 16 bpp. Even widths: one reading. Odd widths: rows packed (what every deployed client does, and the only
            // reading when the data has exactly w*h*2 bytes) or, when the data is long enough, padded to 32 bits (the
            // specification's wording); both readings are accepted (see C09 / DESIGN 4.5)
            let px: Vec<u16> = (0..img_w * img_h).map(|i| (i as u16).wrapping_mul(40503)).collect();
            let mut wire = Vec::new();
            for v in &px {
                wire.extend_from_slice(&v.to_le_bytes());
            }
            if img_w % 2 == 1 && img_w > 0 && img_h > 0 && ch(2) == 0 {
                // trailing bytes up to the padded size: now the padded reading applies as well
                let padded = (img_w * 2 + 2) * img_h;
                let mut k = 0u16;
                while wire.len() < padded {
                    k = k.wrapping_add(0x3571);
                    wire.push((k >> 3) as u8);
                }
                let row = img_w * 2 + 2;
                let alt_px: Vec<u16> = (0..img_h).flat_map(|r| (0..img_w).map(move |x| (r, x))).map(|(r, x)| u16::from_le_bytes([wire[r * row + 2 * x], wire[r * row + 2 * x + 1]])).collect();
                alt = Some(rle16::to_bgra(&rle16::flip(&alt_px, img_w, img_h)));
            }
            (16, false, wire, Some(rle16::to_bgra(&rle16::flip(&px, img_w, img_h))))
        }
        _ => {
            let l = s.below(64);
            (s.pick(&[24u16, 8, 15, 0, 32, 16]), s.bool(), s.fill(l), None)
        }
    };
    // corrupt or mis-size the data sometimes: the expected image is then unknown
    match s.below(10) {
        0 => {
            let k = s.below(data.len() + 1);
            data.truncate(k);
            image = None;
        }
        1 => {
            let k = 1 + s.below(8);
            data.extend(s.bytes(k));
            if compress {
                image = None
            } else if bpp == 32 {
                image = None
            }
            alt = None;
            if bpp == 16 && !compress && img_w % 2 == 1 {
                // extra bytes may complete the padded size: two readings again, keep it simple and assert nothing
                image = None;
            }
        }
        2 if !data.is_empty() => {
            let i = s.below(data.len());
            data[i] ^= 1 << s.below(8);
            image = None;
        }
        _ => {}
    }
    Case { win_w, win_h, left, top, right, bottom, img_w: img_w as u16, img_h: img_h as u16, bpp, compress, data, alt_image: if image.is_some() { alt } else { None }, image }
}

fn small(part: usize, parts: usize) -> impl Iterator<Item = Case> {
    let coords: Vec<u16> = vec![0, 1, 2, 3, 4, 5, 65535];
    let mut v = Vec::new();
    for (ww, wh) in [(1u16, 1u16), (2, 3), (4, 4), (3, 1)] {
        for (iw, ih) in [(1u16, 1u16), (2, 2), (4, 4), (3, 5), (0, 0)] {
            let img: Vec<u8> = (0..iw as usize * ih as usize * 4).map(|i| (i * 7 + 3) as u8).collect();
            let mut wire = Vec::new();
            for r in (0..ih as usize).rev() {
                wire.extend_from_slice(&img[r * iw as usize * 4..(r + 1) * iw as usize * 4]);
            }
            for &l in &coords {
                for &t in &coords {
                    for &r in &coords {
                        for &b in &coords {
                            v.push(Case { win_w: ww, win_h: wh, left: l, top: t, right: r, bottom: b, img_w: iw, img_h: ih, bpp: 32, compress: false, data: wire.clone(), image: Some(img.clone()), alt_image: None });
                        }
                    }
                }
            }
        }
    }
    v.into_iter().enumerate().filter(move |(i, _)| i % parts == part).map(|(_, c)| c)
}

/// images and windows large enough that row offsets pass 65535 / 65536 (16-bit arithmetic), raw 32 bpp
fn large() -> Vec<Case> {
    let mut v = Vec::new();
    let mk = |ww: u16, wh: u16, l: u16, t: u16, r: u16, b: u16, iw: u16, ih: u16| {
        let n = iw as usize * ih as usize;
        let img: Vec<u8> = (0..n * 4).map(|i| (i as u32).wrapping_mul(2654435761).to_le_bytes()[3]).collect();
        let mut wire = Vec::with_capacity(img.len());
        for row in (0..ih as usize).rev() {
            wire.extend_from_slice(&img[row * iw as usize * 4..(row + 1) * iw as usize * 4]);
        }
        Case { win_w: ww, win_h: wh, left: l, top: t, right: r, bottom: b, img_w: iw, img_h: ih, bpp: 32, compress: false, data: wire, image: Some(img), alt_image: None }
    };
    // matched rectangle and image, well inside the window
    v.push(mk(300, 300, 5, 5, 284, 284, 280, 280));
    v.push(mk(300, 300, 0, 0, 255, 256, 256, 257));
    v.push(mk(260, 260, 2, 1, 257, 258, 256, 258));
    v.push(mk(1024, 70, 0, 0, 1023, 69, 1024, 70));
    v.push(mk(2000, 40, 7, 3, 1999, 36, 1993, 34));
    // very wide image, narrow rectangle: the source offset of row 2 is already beyond 65535
    v.push(mk(64, 8, 0, 0, 63, 3, 40000, 4));
    v.push(mk(64, 8, 1, 1, 60, 5, 32768, 5));
    v.push(mk(64, 8, 1, 1, 60, 5, 65535, 5));
    // a window with more than 65536 pixels and rectangles at its far end
    v.push(mk(400, 400, 390, 390, 399, 399, 10, 10));
    v.push(mk(400, 400, 0, 163, 399, 164, 400, 2));
    v.push(mk(65535, 2, 65000, 0, 65534, 1, 535, 2));
    // the same geometries with an image one row / column short (must be an error or leave the window intact, never a panic)
    v.push(mk(300, 300, 5, 5, 284, 284, 280, 279));
    v.push(mk(300, 300, 5, 5, 284, 284, 279, 280));
    v
}

pub fn check(rep: &Report) {
    rep.assume("exact copy is asserted only when the rectangle is inside the window and the decoded image is at least as large as the rectangle; Err is always acceptable");
    rep.assume("out-of-bounds reads and writes in front of the buffers are only observable in the AddressSanitizer build of this check (run by the same command when that binary is present)");
    rep.extra("address_sanitizer", serde_json::json!(cfg!(verif_asan)));
    rep.enumerate("small-exhaustive", true, small, run);
    rep.list("large", large(), run);
    rep.random("geometry", rep.tier.n(600_000, 20_000_000), 120, decode, run);
    rep.require("geometry", "exact-copy-checked", 20_000);
    rep.require("geometry", "out-of-window", 5_000);
}
