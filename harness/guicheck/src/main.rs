//! GUI lane: the private functions of src/bin/mstsc-rs.rs are reached by including the binary's
//! source into a module of this crate (always the current working tree of /repo, no repository change).
#![allow(dead_code, unused_imports, clippy::all)]

use engine::{CountingAlloc, Report, Tier};

#[global_allocator]
static ALLOC: CountingAlloc = CountingAlloc;

#[allow(warnings)]
pub mod mstsc {
    include!(env!("VERIF_MSTSC_SRC"));

    pub fn blit(buffer: &mut Vec<u32>, width: usize, bitmap: BitmapEvent) -> RdpResult<()> {
        fast_bitmap_transfer(buffer, width, bitmap)
    }

    pub fn spawn_rdp_thread<S: 'static + Read + Write + Send>(handle: usize, client: Arc<Mutex<RdpClient<S>>>, sync: Arc<AtomicBool>, tx: Sender<BitmapEvent>) -> RdpResult<JoinHandle<()>> {
        launch_rdp_thread(handle, client, sync, tx)
    }
}

mod c19;
mod c20;

fn usage() -> ! {
    eprintln!("usage: guicheck <C19|C20> [--tier quick|thorough] | guicheck replay <file>");
    std::process::exit(2)
}

fn run(id: &str, tier: Tier, replay: Option<(String, serde_json::Value)>) -> i32 {
    match id {
        "C19" => {
            let rep = Report::with_replay("C19", tier, c19::LEVEL, c19::RULE, replay);
            c19::check(&rep);
            rep.finish()
        }
        "C20" => {
            // scenarios run one at a time (deadlines and CPU accounting must not be disturbed), and a failing scenario
            // costs seconds, so shrinking is kept short
            std::env::set_var("VERIF_THREADS", "1");
            std::env::set_var("VERIF_MAX_SHRINK", "6");
        // a failing scenario waits out every deadline (silence + delivery + poke + stop): well above the default watchdog
        if std::env::var_os("VERIF_CASE_TIMEOUT_S").is_none() {
            std::env::set_var("VERIF_CASE_TIMEOUT_S", "400");
        }
            let rep = Report::with_replay("C20", tier, c20::LEVEL, c20::RULE, replay);
            c20::check(&rep);
            rep.finish()
        }
        _ => {
            eprintln!("unknown property {}", id);
            2
        }
    }
}

fn main() {
    std::env::set_var("SSL_CERT_FILE", "/dev/null");
    std::env::set_var("SSL_CERT_DIR", "/nonexistent");
    if std::env::var_os("VERIF_LIB_STDOUT").is_none() {
        engine::report::silence_library_stdout();
    }
    let args: Vec<String> = std::env::args().skip(1).collect();
    if args.is_empty() {
        usage();
    }
    if args[0] == "replay" {
        let path = args.get(1).unwrap_or_else(|| usage());
        let v: serde_json::Value = serde_json::from_str(&std::fs::read_to_string(path).unwrap_or_else(|_| usage())).unwrap_or_else(|_| usage());
        let id = v["property"].as_str().unwrap_or("").to_string();
        let section = v["section"].as_str().unwrap_or("").to_string();
        let case = if v["case"].is_null() && v["bytes_hex"].is_string() {
            serde_json::json!({"__bytes": v["bytes_hex"]})
        } else if v["case"].is_null() && v["enum"].is_object() {
            serde_json::json!({"__enum": v["enum"]})
        } else {
            v["case"].clone()
        };
        std::process::exit(run(&id, Tier::Quick, Some((section, case))));
    }
    let mut tier = match std::env::var("VERIF_TIER").as_deref() {
        Ok("thorough") => Tier::Thorough,
        _ => Tier::Quick,
    };
    let mut i = 1;
    while i < args.len() {
        if args[i] == "--tier" {
            i += 1;
            tier = match args.get(i).map(|s| s.as_str()) {
                Some("quick") => Tier::Quick,
                Some("thorough") => Tier::Thorough,
                _ => usage(),
            };
        }
        i += 1;
    }
    std::process::exit(run(&args[0], tier, None));
}
