// The GUI checks include the binary's source from the repository under test: /repo by default, or the copy named by
// VERIF_REPO (used only to run the checks against seeded changes without touching /repo).
fn main() {
    let repo = std::env::var("VERIF_REPO").unwrap_or_else(|_| "/repo".to_string());
    let src = format!("{}/src/bin/mstsc-rs.rs", repo);
    println!("cargo:rustc-env=VERIF_MSTSC_SRC={}", src);
    println!("cargo:rerun-if-env-changed=VERIF_REPO");
    println!("cargo:rerun-if-changed={}", src);
}
