//! Crypto models for MS-NLMP: RC4 (own implementation, RFC 6229 vectors), MD4/MD5/HMAC-MD5 via
//! the RustCrypto crates (pinned by RFC 1320/1321/2202 vectors), key derivation, seal/sign.

use hmac::{Hmac, Mac};
use md4::{Digest, Md4};
use md5::Md5;

#[derive(Clone)]
pub struct Rc4 {
    s: [u8; 256],
    i: u8,
    j: u8,
}

impl Rc4 {
    pub fn new(key: &[u8]) -> Rc4 {
        assert!(!key.is_empty());
        let mut s = [0u8; 256];
        for (i, x) in s.iter_mut().enumerate() {
            *x = i as u8;
        }
        let mut j: u8 = 0;
        for i in 0..256usize {
            j = j.wrapping_add(s[i]).wrapping_add(key[i % key.len()]);
            s.swap(i, j as usize);
        }
        Rc4 { s, i: 0, j: 0 }
    }
    pub fn apply(&mut self, data: &[u8]) -> Vec<u8> {
        data.iter()
            .map(|b| {
                self.i = self.i.wrapping_add(1);
                self.j = self.j.wrapping_add(self.s[self.i as usize]);
                self.s.swap(self.i as usize, self.j as usize);
                let k = self.s[(self.s[self.i as usize].wrapping_add(self.s[self.j as usize])) as usize];
                b ^ k
            })
            .collect()
    }
}

pub fn md4(data: &[u8]) -> Vec<u8> {
    let mut h = Md4::new();
    h.input(data);
    h.result().to_vec()
}

pub fn md5(data: &[u8]) -> Vec<u8> {
    let mut h = Md5::new();
    h.input(data);
    h.result().to_vec()
}

pub fn hmac_md5(key: &[u8], data: &[u8]) -> Vec<u8> {
    let mut m = Hmac::<Md5>::new_varkey(key).unwrap();
    m.input(data);
    m.result().code().to_vec()
}

pub fn utf16le(s: &str) -> Vec<u8> {
    let mut out = Vec::new();
    for u in s.encode_utf16() {
        out.push((u & 0xFF) as u8);
        out.push((u >> 8) as u8);
    }
    out
}

pub fn nt_hash(password: &str) -> Vec<u8> {
    md4(&utf16le(password))
}

/// NTOWFv2 from the NT hash: HMAC_MD5(NT hash, UTF16LE(Upper(user) ‖ domain))
pub fn ntowfv2(nt_hash: &[u8], user: &str, domain: &str) -> Vec<u8> {
    let ident = format!("{}{}", user.to_uppercase(), domain);
    hmac_md5(nt_hash, &utf16le(&ident))
}

pub const CLIENT_SIGN_MAGIC: &[u8] = b"session key to client-to-server signing key magic constant\0";
pub const SERVER_SIGN_MAGIC: &[u8] = b"session key to server-to-client signing key magic constant\0";
pub const CLIENT_SEAL_MAGIC: &[u8] = b"session key to client-to-server sealing key magic constant\0";
pub const SERVER_SEAL_MAGIC: &[u8] = b"session key to server-to-client sealing key magic constant\0";

pub fn derive(exported: &[u8], magic: &[u8]) -> Vec<u8> {
    let mut v = exported.to_vec();
    v.extend_from_slice(magic);
    md5(&v)
}

/// One direction of an NTLMv2 extended-session-security context with key exchange:
/// sealing and signing share one RC4 handle, sequence numbers start at 0.
#[derive(Clone)]
pub struct SealCtx {
    pub sign_key: Vec<u8>,
    pub rc4: Rc4,
    pub seq: u32,
}

impl SealCtx {
    pub fn new(sign_key: &[u8], seal_key: &[u8]) -> Self {
        SealCtx { sign_key: sign_key.to_vec(), rc4: Rc4::new(seal_key), seq: 0 }
    }
    /// MS-NLMP §3.4.3 + §3.4.4.2: Version(1) ‖ RC4(HMAC_MD5(SignKey, Seq ‖ Msg)[0..8]) ‖ Seq ‖ RC4(Msg); RC4(Msg) first
    pub fn seal(&mut self, msg: &[u8]) -> Vec<u8> {
        let seq = self.seq.to_le_bytes();
        let enc = self.rc4.apply(msg);
        let mut d = seq.to_vec();
        d.extend_from_slice(msg);
        let mac = hmac_md5(&self.sign_key, &d);
        let chk = self.rc4.apply(&mac[0..8]);
        let mut out = vec![1, 0, 0, 0];
        out.extend_from_slice(&chk);
        out.extend_from_slice(&seq);
        out.extend_from_slice(&enc);
        self.seq = self.seq.wrapping_add(1);
        out
    }
    /// MS-NLMP §3.4.2-3.4.4 as NEGOTIATED: without NTLMSSP_NEGOTIATE_SEAL the message travels in clear behind its signature,
    /// without NTLMSSP_NEGOTIATE_KEY_EXCH the checksum is not encrypted
    pub fn seal_mode(&mut self, msg: &[u8], seal: bool, kx: bool) -> Vec<u8> {
        let seq = self.seq.to_le_bytes();
        let enc = if seal { self.rc4.apply(msg) } else { msg.to_vec() };
        let mut d = seq.to_vec();
        d.extend_from_slice(msg);
        let mac = hmac_md5(&self.sign_key, &d);
        let chk = if kx { self.rc4.apply(&mac[0..8]) } else { mac[0..8].to_vec() };
        let mut out = vec![1, 0, 0, 0];
        out.extend_from_slice(&chk);
        out.extend_from_slice(&seq);
        out.extend_from_slice(&enc);
        self.seq = self.seq.wrapping_add(1);
        out
    }
    pub fn unseal_mode(&mut self, token: &[u8], seal: bool, kx: bool) -> Option<Vec<u8>> {
        if token.len() < 16 || token[0..4] != [1, 0, 0, 0] {
            return None;
        }
        let plain = if seal { self.rc4.apply(&token[16..]) } else { token[16..].to_vec() };
        let chk = if kx { self.rc4.apply(&token[4..12]) } else { token[4..12].to_vec() };
        let seq = &token[12..16];
        if seq != self.seq.to_le_bytes() {
            return None;
        }
        let mut d = seq.to_vec();
        d.extend_from_slice(&plain);
        let mac = hmac_md5(&self.sign_key, &d);
        if chk != mac[0..8] {
            return None;
        }
        self.seq = self.seq.wrapping_add(1);
        Some(plain)
    }
    /// like `unseal` but accepts whatever sequence number the message carries (the signature must still verify)
    pub fn unseal_any_seq(&mut self, token: &[u8]) -> Option<Vec<u8>> {
        if token.len() < 16 {
            return None;
        }
        self.seq = u32::from_le_bytes([token[12], token[13], token[14], token[15]]);
        self.unseal(token)
    }

    /// verify + decrypt a sealed message from the peer; None if malformed or the signature does not verify
    pub fn unseal(&mut self, token: &[u8]) -> Option<Vec<u8>> {
        if token.len() < 16 || token[0..4] != [1, 0, 0, 0] {
            return None;
        }
        let plain = self.rc4.apply(&token[16..]);
        let chk = self.rc4.apply(&token[4..12]);
        let seq = &token[12..16];
        if seq != self.seq.to_le_bytes() {
            return None;
        }
        let mut d = seq.to_vec();
        d.extend_from_slice(&plain);
        let mac = hmac_md5(&self.sign_key, &d);
        if chk != mac[0..8] {
            return None;
        }
        self.seq = self.seq.wrapping_add(1);
        Some(plain)
    }
}

/// The four keys of a session derived from the exported session key.
pub struct SessionKeys {
    pub client_sign: Vec<u8>,
    pub server_sign: Vec<u8>,
    pub client_seal: Vec<u8>,
    pub server_seal: Vec<u8>,
}

pub fn session_keys(exported: &[u8]) -> SessionKeys {
    SessionKeys {
        client_sign: derive(exported, CLIENT_SIGN_MAGIC),
        server_sign: derive(exported, SERVER_SIGN_MAGIC),
        client_seal: derive(exported, CLIENT_SEAL_MAGIC),
        server_seal: derive(exported, SERVER_SEAL_MAGIC),
    }
}

/// the keys of a session whose sealing keys were weakened as MS-NLMP 3.4.5.3 prescribes when NTLMSSP_NEGOTIATE_128 was not
/// negotiated: only the first `seal_bytes` (7 with NEGOTIATE_56, else 5) bytes of the exported session key enter the seal keys
pub fn session_keys_weakened(exported: &[u8], seal_bytes: usize) -> SessionKeys {
    let n = seal_bytes.min(exported.len());
    SessionKeys {
        client_sign: derive(exported, CLIENT_SIGN_MAGIC),
        server_sign: derive(exported, SERVER_SIGN_MAGIC),
        client_seal: derive(&exported[..n], CLIENT_SEAL_MAGIC),
        server_seal: derive(&exported[..n], SERVER_SEAL_MAGIC),
    }
}

#[cfg(test)]
mod test {
    use super::*;
    fn hx(s: &str) -> Vec<u8> {
        let s: Vec<u8> = s.bytes().filter(|c| c.is_ascii_hexdigit()).collect();
        s.chunks(2).map(|c| u8::from_str_radix(std::str::from_utf8(c).unwrap(), 16).unwrap()).collect()
    }
    #[test]
    fn rc4_rfc6229() {
        // key 0102030405, first 16 bytes of keystream
        let mut r = Rc4::new(&[1, 2, 3, 4, 5]);
        assert_eq!(r.apply(&[0u8; 16]), hx("b2396305f03dc027ccc3524a0a1118a8"));
        let mut r = Rc4::new(&hx("0102030405060708090a0b0c0d0e0f10"));
        assert_eq!(r.apply(&[0u8; 16]), hx("9ac7cc9a609d1ef7b2932899cde41b97"));
    }
    #[test]
    fn md4_rfc1320() {
        assert_eq!(md4(b""), hx("31d6cfe0d16ae931b73c59d7e0c089c0"));
        assert_eq!(md4(b"abc"), hx("a448017aaf21d8525fc10ae87aa6729d"));
    }
    #[test]
    fn md5_rfc1321() {
        assert_eq!(md5(b"abc"), hx("900150983cd24fb0d6963f7d28e17f72"));
    }
    #[test]
    fn hmac_rfc2202() {
        assert_eq!(hmac_md5(&[0x0b; 16], b"Hi There"), hx("9294727a3638bb1c13f48ef8158bfc9d"));
        assert_eq!(hmac_md5(b"Jefe", b"what do ya want for nothing?"), hx("750c783e6ab0b503eaa86e310a5db738"));
    }
    #[test]
    fn nlmp_4_2_4_vectors() {
        // MS-NLMP §4.2.4: User "User", Domain "Domain", Password "Password"
        let nth = nt_hash("Password");
        assert_eq!(nth, hx("a4f49c406510bdcab6824ee7c30fd852"));
        let key = ntowfv2(&nth, "User", "Domain");
        assert_eq!(key, hx("0c868a403bfd7a93a3001ef22ef02e3f"));
        // §4.2.4.4: SealKey / SignKey from RandomSessionKey 55*16
        let exported = [0x55u8; 16];
        assert_eq!(derive(&exported, CLIENT_SEAL_MAGIC), hx("59f600973cc4960a25480a7c196e4c58"));
        assert_eq!(derive(&exported, CLIENT_SIGN_MAGIC), hx("4788dc861b4782f35d43fd98fe1a2d39"));
        // GSS_WrapEx of "Plaintext" (UTF-16) with seq 0
        let mut ctx = SealCtx::new(&derive(&exported, CLIENT_SIGN_MAGIC), &derive(&exported, CLIENT_SEAL_MAGIC));
        let sealed = ctx.seal(&utf16le("Plaintext"));
        assert_eq!(&sealed[16..], &hx("54e50165bf1936dc996020c1811b0f06fb5f")[..]);
        assert_eq!(&sealed[0..16], &hx("010000007fb38ec5c55d497600000000")[..]);
    }
}
