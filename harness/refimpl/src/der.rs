//! BER/DER TLV reference codec (definite lengths).
use crate::rd::{perr, PResult, Rd};

#[derive(Debug, Clone, PartialEq, Eq, Hash, serde::Serialize, serde::Deserialize)]
pub enum Node {
    Bool(bool),
    /// INTEGER holding an unsigned 32-bit value
    Int(u32),
    Enum(i64),
    Octets(Vec<u8>),
    Seq(Vec<Node>),
    SeqOf(Vec<Node>),
    /// [n] EXPLICIT (context class, constructed)
    Explicit(u8, Box<Node>),
    /// [APPLICATION n] IMPLICIT over a SEQUENCE
    AppSeq(u32, Vec<Node>),
}

#[derive(Clone, Copy, PartialEq, Eq, Debug)]
pub enum LenForm {
    /// DER: shortest form
    Minimal,
    /// BER: always long form with this many length octets (1..=4), even for small values
    Long(u8),
}

pub fn put_len(out: &mut Vec<u8>, n: usize, form: LenForm) {
    match form {
        LenForm::Minimal => {
            if n < 0x80 {
                out.push(n as u8);
            } else if n <= 0xFF {
                out.push(0x81);
                out.push(n as u8);
            } else if n <= 0xFFFF {
                out.push(0x82);
                out.push((n >> 8) as u8);
                out.push(n as u8);
            } else {
                out.push(0x83);
                out.push((n >> 16) as u8);
                out.push((n >> 8) as u8);
                out.push(n as u8);
            }
        }
        LenForm::Long(k) => {
            let mut k = k.clamp(1, 4) as usize;
            while n >> (8 * k) != 0 {
                k += 1;
            }
            out.push(0x80 | k as u8);
            for i in (0..k).rev() {
                out.push((n >> (8 * i)) as u8);
            }
        }
    }
}

fn tlv(out: &mut Vec<u8>, tag: &[u8], content: &[u8], form: LenForm) {
    out.extend_from_slice(tag);
    put_len(out, content.len(), form);
    out.extend_from_slice(content);
}

fn int_content(v: i64) -> Vec<u8> {
    // minimal two's complement
    let b = v.to_be_bytes();
    let mut i = 0;
    while i < 7 {
        let redundant = (b[i] == 0x00 && b[i + 1] & 0x80 == 0) || (b[i] == 0xFF && b[i + 1] & 0x80 != 0);
        if !redundant {
            break;
        }
        i += 1;
    }
    b[i..].to_vec()
}

pub fn app_tag(n: u32) -> Vec<u8> {
    // APPLICATION, constructed
    if n < 31 {
        vec![0x60 | n as u8]
    } else {
        let mut t = vec![0x7F];
        let mut parts = vec![(n & 0x7F) as u8];
        let mut m = n >> 7;
        while m > 0 {
            parts.push(0x80 | (m & 0x7F) as u8);
            m >>= 7;
        }
        parts.reverse();
        t.extend(parts);
        t
    }
}

pub fn encode(node: &Node, form: LenForm) -> Vec<u8> {
    let mut out = Vec::new();
    encode_into(node, form, &mut out);
    out
}

pub fn encode_into(node: &Node, form: LenForm, out: &mut Vec<u8>) {
    match node {
        Node::Bool(b) => tlv(out, &[0x01], &[if *b { 0xFF } else { 0x00 }], form),
        Node::Int(v) => tlv(out, &[0x02], &int_content(*v as i64), form),
        Node::Enum(v) => tlv(out, &[0x0A], &int_content(*v), form),
        Node::Octets(b) => tlv(out, &[0x04], b, form),
        Node::Seq(ch) | Node::SeqOf(ch) => {
            let mut c = Vec::new();
            for n in ch {
                encode_into(n, form, &mut c);
            }
            tlv(out, &[0x30], &c, form)
        }
        Node::Explicit(n, inner) => {
            let c = encode(inner, form);
            tlv(out, &[0xA0 | (*n & 0x1F)], &c, form)
        }
        Node::AppSeq(n, ch) => {
            let mut c = Vec::new();
            for x in ch {
                encode_into(x, form, &mut c);
            }
            tlv(out, &app_tag(*n), &c, form)
        }
    }
}

/// generic TLV element
#[derive(Debug, Clone, PartialEq, Eq)]
pub struct Tlv<'a> {
    pub tag: Vec<u8>,
    pub content: &'a [u8],
    pub minimal_len: bool,
}

pub fn read_tlv<'a>(r: &mut Rd<'a>) -> PResult<Tlv<'a>> {
    let t0 = r.u8()?;
    let mut tag = vec![t0];
    if t0 & 0x1F == 0x1F {
        loop {
            let b = r.u8()?;
            tag.push(b);
            if b & 0x80 == 0 {
                break;
            }
            if tag.len() > 6 {
                return perr("tag too long");
            }
        }
    }
    let l0 = r.u8()?;
    let (len, minimal) = if l0 < 0x80 {
        (l0 as usize, true)
    } else {
        let k = (l0 & 0x7F) as usize;
        if k == 0 || k > 4 {
            return perr(format!("unsupported length form 0x{:02x}", l0));
        }
        let mut n = 0usize;
        for _ in 0..k {
            n = (n << 8) | r.u8()? as usize;
        }
        let min_k = if n < 0x80 { 0 } else if n <= 0xFF { 1 } else if n <= 0xFFFF { 2 } else if n <= 0xFF_FFFF { 3 } else { 4 };
        (n, k == min_k)
    };
    let content = r.take(len)?;
    Ok(Tlv { tag, content, minimal_len: minimal })
}

/// Parse helpers over one element: each returns the value and enforces tag; `strict` demands DER-minimal lengths and integers.
pub struct Der {
    pub strict: bool,
}

impl Der {
    fn el<'a>(&self, r: &mut Rd<'a>, tag: &[u8], what: &str) -> PResult<&'a [u8]> {
        let t = read_tlv(r)?;
        if t.tag != tag {
            return perr(format!("{}: tag {:02x?}, expected {:02x?}", what, t.tag, tag));
        }
        if self.strict && !t.minimal_len {
            return perr(format!("{}: non-minimal length", what));
        }
        Ok(t.content)
    }
    pub fn int(&self, r: &mut Rd, what: &str) -> PResult<i64> {
        let c = self.el(r, &[0x02], what)?;
        self.int_content(c, what)
    }
    pub fn enumerated(&self, r: &mut Rd, what: &str) -> PResult<i64> {
        let c = self.el(r, &[0x0A], what)?;
        self.int_content(c, what)
    }
    fn int_content(&self, c: &[u8], what: &str) -> PResult<i64> {
        if c.is_empty() || c.len() > 8 {
            return perr(format!("{}: integer of {} octets", what, c.len()));
        }
        if self.strict && c.len() > 1 && ((c[0] == 0 && c[1] & 0x80 == 0) || (c[0] == 0xFF && c[1] & 0x80 != 0)) {
            return perr(format!("{}: non-minimal integer", what));
        }
        let mut v: i64 = if c[0] & 0x80 != 0 { -1 } else { 0 };
        for b in c {
            v = (v << 8) | *b as i64;
        }
        Ok(v)
    }
    pub fn boolean(&self, r: &mut Rd, what: &str) -> PResult<bool> {
        let c = self.el(r, &[0x01], what)?;
        if c.len() != 1 {
            return perr(format!("{}: boolean of {} octets", what, c.len()));
        }
        if self.strict && c[0] != 0 && c[0] != 0xFF {
            return perr(format!("{}: boolean 0x{:02x}", what, c[0]));
        }
        Ok(c[0] != 0)
    }
    pub fn octets<'a>(&self, r: &mut Rd<'a>, what: &str) -> PResult<&'a [u8]> {
        self.el(r, &[0x04], what)
    }
    pub fn seq<'a>(&self, r: &mut Rd<'a>, what: &str) -> PResult<Rd<'a>> {
        Ok(Rd::new(self.el(r, &[0x30], what)?))
    }
    pub fn explicit<'a>(&self, r: &mut Rd<'a>, n: u8, what: &str) -> PResult<Rd<'a>> {
        Ok(Rd::new(self.el(r, &[0xA0 | n], what)?))
    }
    pub fn app<'a>(&self, r: &mut Rd<'a>, n: u32, what: &str) -> PResult<Rd<'a>> {
        Ok(Rd::new(self.el(r, &app_tag(n), what)?))
    }
    /// peek the next tag octet (0 when at end)
    pub fn peek(&self, r: &Rd) -> u8 {
        r.data.get(r.pos).copied().unwrap_or(0)
    }
}

#[cfg(test)]
mod test {
    use super::*;
    #[test]
    fn vectors() {
        // from the repository's own fixed vector for TSRequest authInfo (test_create_ts_authinfo)
        let n = Node::Seq(vec![Node::Explicit(0, Box::new(Node::Int(2))), Node::Explicit(2, Box::new(Node::Octets(b"foo".to_vec())))]);
        assert_eq!(encode(&n, LenForm::Minimal), vec![48, 12, 160, 3, 2, 1, 2, 162, 5, 4, 3, 102, 111, 111]);
        assert_eq!(app_tag(101), vec![0x7F, 0x65]);
        assert_eq!(int_content(128), vec![0, 128]);
        assert_eq!(int_content(-1), vec![0xFF]);
        assert_eq!(int_content(0xFFFF), vec![0, 0xFF, 0xFF]);
        assert_eq!(int_content(-129), vec![0xFF, 0x7F]);
        let mut v = vec![];
        put_len(&mut v, 300, LenForm::Minimal);
        assert_eq!(v, vec![0x82, 1, 44]);
    }
}
