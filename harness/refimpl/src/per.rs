//! PER primitives, RDP profile (T.124 / T.125 as used by RDP: FreeRDP/rdpy conventions).
use crate::rd::{perr, PResult, Rd};

pub fn write_length(out: &mut Vec<u8>, n: usize) {
    assert!(n <= 0x7FFF);
    if n > 0x7F {
        out.push(0x80 | (n >> 8) as u8);
        out.push((n & 0xFF) as u8);
    } else {
        out.push(n as u8);
    }
}

/// long form even for small values (accepted by lenient readers, not canonical)
pub fn write_length_long(out: &mut Vec<u8>, n: usize) {
    assert!(n <= 0x7FFF);
    out.push(0x80 | (n >> 8) as u8);
    out.push((n & 0xFF) as u8);
}

pub fn read_length(r: &mut Rd) -> PResult<usize> {
    let b = r.u8()?;
    if b & 0x80 != 0 {
        let lo = r.u8()?;
        Ok((((b & 0x7F) as usize) << 8) | lo as usize)
    } else {
        Ok(b as usize)
    }
}

/// canonical: one octet iff < 128
pub fn read_length_strict(r: &mut Rd) -> PResult<usize> {
    let b = r.u8()?;
    if b & 0x80 != 0 {
        let lo = r.u8()?;
        let v = (((b & 0x7F) as usize) << 8) | lo as usize;
        if v < 0x80 {
            return perr(format!("PER length {} in two-octet form", v));
        }
        Ok(v)
    } else {
        Ok(b as usize)
    }
}

pub fn write_integer(out: &mut Vec<u8>, v: u32) {
    if v <= 0xFF {
        out.push(1);
        out.push(v as u8);
    } else if v <= 0xFFFF {
        out.push(2);
        out.push((v >> 8) as u8);
        out.push(v as u8);
    } else {
        out.push(4);
        out.extend_from_slice(&v.to_be_bytes());
    }
}

pub fn read_integer(r: &mut Rd) -> PResult<u32> {
    let n = read_length(r)?;
    match n {
        1 => Ok(r.u8()? as u32),
        2 => Ok(r.u16be()? as u32),
        4 => r.u32be(),
        _ => perr(format!("PER integer of {} octets", n)),
    }
}

pub fn write_integer16(out: &mut Vec<u8>, v: u16, min: u16) {
    let d = v - min;
    out.push((d >> 8) as u8);
    out.push(d as u8);
}

pub fn read_integer16(r: &mut Rd, min: u16) -> PResult<u16> {
    let d = r.u16be()?;
    match d.checked_add(min) {
        Some(v) => Ok(v),
        None => perr("PER integer16 out of range"),
    }
}

pub fn write_oid6(out: &mut Vec<u8>, oid: &[u8; 6]) {
    out.push(5);
    out.push((oid[0] << 4) | (oid[1] & 0x0F));
    out.extend_from_slice(&oid[2..6]);
}

pub fn read_oid6(r: &mut Rd) -> PResult<[u8; 6]> {
    let n = read_length(r)?;
    if n != 5 {
        return perr(format!("OID length {}", n));
    }
    let t = r.u8()?;
    let rest = r.take(4)?;
    Ok([t >> 4, t & 0x0F, rest[0], rest[1], rest[2], rest[3]])
}

pub fn write_octets(out: &mut Vec<u8>, data: &[u8], min: usize) {
    write_length(out, data.len() - min);
    out.extend_from_slice(data);
}

pub fn read_octets<'a>(r: &mut Rd<'a>, min: usize) -> PResult<&'a [u8]> {
    let n = read_length(r)? + min;
    r.take(n)
}
