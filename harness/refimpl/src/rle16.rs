//! Interleaved RLE, 16 bpp — reference decoder written from the MS-RDPBCGR §3.1.9
//! pseudo-code and a nondeterministic reference encoder (DESIGN Appendix A.1).
//! Pixels are handled in *wire order*: index 0 is the first pixel of the bottom scanline.

#[derive(Debug, Clone, PartialEq, Eq)]
pub enum DecodeError {
    Truncated,
    Overrun,
    InvalidCode(u8),
}

fn rd8(src: &[u8], p: &mut usize) -> Result<u8, DecodeError> {
    let v = *src.get(*p).ok_or(DecodeError::Truncated)?;
    *p += 1;
    Ok(v)
}
fn rd16(src: &[u8], p: &mut usize) -> Result<u16, DecodeError> {
    let lo = rd8(src, p)? as u16;
    let hi = rd8(src, p)? as u16;
    Ok(lo | (hi << 8))
}

#[derive(Clone, Copy, PartialEq, Eq, Debug)]
enum Code {
    BgRun,
    FgRun,
    FgBgImage,
    ColorRun,
    ColorImage,
    SetFgFgRun,
    SetFgFgBgImage,
    DitheredRun,
    Special1,
    Special2,
    White,
    Black,
}

/// (code, run length) — consumes the header and length bytes
fn header(src: &[u8], p: &mut usize) -> Result<(Code, usize), DecodeError> {
    let c = rd8(src, p)?;
    // MEGA_MEGA and specials
    if c >= 0xF0 {
        let code = match c {
            0xF0 => Code::BgRun,
            0xF1 => Code::FgRun,
            0xF2 => Code::FgBgImage,
            0xF3 => Code::ColorRun,
            0xF4 => Code::ColorImage,
            0xF6 => Code::SetFgFgRun,
            0xF7 => Code::SetFgFgBgImage,
            0xF8 => Code::DitheredRun,
            0xF9 => return Ok((Code::Special1, 8)),
            0xFA => return Ok((Code::Special2, 8)),
            0xFD => return Ok((Code::White, 1)),
            0xFE => return Ok((Code::Black, 1)),
            _ => return Err(DecodeError::InvalidCode(c)),
        };
        let n = rd16(src, p)? as usize;
        return Ok((code, n));
    }
    if c & 0xF0 >= 0xC0 {
        // lite
        let code = match c & 0xF0 {
            0xC0 => Code::SetFgFgRun,
            0xD0 => Code::SetFgFgBgImage,
            _ => Code::DitheredRun, // 0xE0
        };
        let n = (c & 0x0F) as usize;
        let len = if code == Code::SetFgFgBgImage {
            if n == 0 {
                rd8(src, p)? as usize + 1
            } else {
                n * 8
            }
        } else if n == 0 {
            rd8(src, p)? as usize + 16
        } else {
            n
        };
        return Ok((code, len));
    }
    let code = match c & 0xE0 {
        0x00 => Code::BgRun,
        0x20 => Code::FgRun,
        0x40 => Code::FgBgImage,
        0x60 => Code::ColorRun,
        0x80 => Code::ColorImage,
        _ => return Err(DecodeError::InvalidCode(c)), // 0xA0..0xBF
    };
    let n = (c & 0x1F) as usize;
    let len = if code == Code::FgBgImage {
        if n == 0 {
            rd8(src, p)? as usize + 1
        } else {
            n * 8
        }
    } else if n == 0 {
        rd8(src, p)? as usize + 32
    } else {
        n
    };
    Ok((code, len))
}

/// Decode to `width*height` pixels in wire order. Decoding stops at the end of the source;
/// pixels not covered stay 0. Writing past the destination is an error.
pub fn decode(src: &[u8], width: usize, height: usize) -> Result<Vec<u16>, DecodeError> {
    let n = width * height;
    let mut dst = vec![0u16; n];
    let mut d = 0usize; // destination position
    let mut p = 0usize;
    let mut fg: u16 = 0xFFFF;
    let mut insert_fg = false;
    let mut first_line = true;
    macro_rules! put {
        ($v:expr) => {{
            if d >= n {
                return Err(DecodeError::Overrun);
            }
            dst[d] = $v;
            d += 1;
        }};
    }
    while p < src.len() {
        if first_line && d >= width {
            first_line = false;
            insert_fg = false;
        }
        let (code, mut run) = header(src, &mut p)?;
        if code == Code::BgRun {
            if first_line {
                if insert_fg && run > 0 {
                    put!(fg);
                    run -= 1;
                }
                while run > 0 {
                    put!(0);
                    run -= 1;
                }
            } else {
                if insert_fg && run > 0 {
                    if d >= n {
                        return Err(DecodeError::Overrun);
                    }
                    let v = dst[d - width] ^ fg;
                    put!(v);
                    run -= 1;
                }
                while run > 0 {
                    if d >= n {
                        return Err(DecodeError::Overrun);
                    }
                    let v = dst[d - width];
                    put!(v);
                    run -= 1;
                }
            }
            insert_fg = true;
            continue;
        }
        insert_fg = false;
        match code {
            Code::FgRun | Code::SetFgFgRun => {
                if code == Code::SetFgFgRun {
                    fg = rd16(src, &mut p)?;
                }
                while run > 0 {
                    if d >= n {
                        return Err(DecodeError::Overrun);
                    }
                    let v = if first_line { fg } else { dst[d - width] ^ fg };
                    put!(v);
                    run -= 1;
                }
            }
            Code::DitheredRun => {
                let a = rd16(src, &mut p)?;
                let b = rd16(src, &mut p)?;
                while run > 0 {
                    put!(a);
                    put!(b);
                    run -= 1;
                }
            }
            Code::ColorRun => {
                let a = rd16(src, &mut p)?;
                while run > 0 {
                    put!(a);
                    run -= 1;
                }
            }
            Code::FgBgImage | Code::SetFgFgBgImage | Code::Special1 | Code::Special2 => {
                if code == Code::SetFgFgBgImage {
                    fg = rd16(src, &mut p)?;
                }
                let fixed = match code {
                    Code::Special1 => Some(0x03u8),
                    Code::Special2 => Some(0x05u8),
                    _ => None,
                };
                while run > 0 {
                    let mask = match fixed {
                        Some(m) => m,
                        None => rd8(src, &mut p)?,
                    };
                    let k = run.min(8);
                    for bit in 0..k {
                        if d >= n {
                            return Err(DecodeError::Overrun);
                        }
                        let base = if first_line { 0 } else { dst[d - width] };
                        let v = if mask & (1 << bit) != 0 { base ^ fg } else { base };
                        put!(v);
                    }
                    run -= k;
                }
            }
            Code::ColorImage => {
                while run > 0 {
                    let v = rd16(src, &mut p)?;
                    put!(v);
                    run -= 1;
                }
            }
            Code::White => put!(0xFFFF),
            Code::Black => put!(0),
            Code::BgRun => unreachable!(),
        }
    }
    Ok(dst)
}

/// flip wire order (bottom-up) into top-down rows
pub fn flip(wire: &[u16], width: usize, height: usize) -> Vec<u16> {
    let mut out = vec![0u16; width * height];
    for r in 0..height {
        let s = (height - 1 - r) * width;
        out[r * width..(r + 1) * width].copy_from_slice(&wire[s..s + width]);
    }
    out
}

/// exact-rounding widening of RGB565 to B,G,R,A bytes
pub fn widen565(v: u16) -> [u8; 4] {
    let r5 = ((v >> 11) & 0x1f) as u32;
    let g6 = ((v >> 5) & 0x3f) as u32;
    let b5 = (v & 0x1f) as u32;
    // round(c*255/max) in integer arithmetic: (2*c*255 + max) / (2*max)
    let r = (2 * r5 * 255 + 31) / 62;
    let g = (2 * g6 * 255 + 63) / 126;
    let b = (2 * b5 * 255 + 31) / 62;
    [b as u8, g as u8, r as u8, 0xFF]
}

pub fn to_bgra(top_down: &[u16]) -> Vec<u8> {
    let mut out = Vec::with_capacity(top_down.len() * 4);
    for &v in top_down {
        out.extend_from_slice(&widen565(v));
    }
    out
}

// ---------------------------------------------------------------------------------------------
// Nondeterministic encoder
// ---------------------------------------------------------------------------------------------

#[derive(Clone, Copy, Debug, PartialEq, Eq, Hash)]
pub enum Kind {
    Bg,
    Fg,
    SetFg,
    FgBg,
    SetFgBg,
    ColorRun,
    ColorImage,
    Dithered,
    Special1,
    Special2,
    White,
    Black,
}

#[derive(Clone, Copy, Debug, PartialEq, Eq, Hash)]
pub enum Form {
    Short,    // length in the header byte
    Extended, // header byte with zero length + one length byte
    Mega,     // MEGA_MEGA 16-bit length
    Fixed,    // specials
}

#[derive(Clone, Debug)]
pub struct Opt {
    pub kind: Kind,
    /// maximal run length applicable at this position (pairs for Dithered)
    pub max: usize,
    /// foreground colour the order would set (SetFg / SetFgBg)
    pub new_fg: u16,
}

#[derive(Clone)]
pub struct EncState {
    pub pos: usize,
    pub fg: u16,
    pub last_bg: bool,
}

impl EncState {
    pub fn new() -> Self {
        EncState { pos: 0, fg: 0xFFFF, last_bg: false }
    }
}

/// All order kinds applicable at the current position with their maximal lengths.
/// BG / FG / FGBG orders are never allowed to straddle the first/second scanline boundary (DESIGN §4.5).
pub fn options(px: &[u16], width: usize, st: &EncState) -> Vec<Opt> {
    let n = px.len();
    let p = st.pos;
    let mut out = Vec::new();
    if p >= n {
        return out;
    }
    let first = p < width;
    // limit for orders depending on the previous line
    let lim = if first { width - p } else { n - p };
    let base = |i: usize| -> u16 {
        if i < width {
            0
        } else {
            px[i - width]
        }
    };
    // does the decoder insert a foreground pixel at the start of a BG run here?
    let insert = st.last_bg && p != width;
    // BG run
    {
        let mut k = 0;
        while k < lim {
            let want = if k == 0 && insert { base(p) ^ st.fg } else { base(p + k) };
            if px[p + k] != want {
                break;
            }
            k += 1;
        }
        if k > 0 {
            out.push(Opt { kind: Kind::Bg, max: k, new_fg: st.fg });
        }
    }
    // FG run with current fg
    {
        let mut k = 0;
        while k < lim && px[p + k] == base(p + k) ^ st.fg {
            k += 1;
        }
        if k > 0 {
            out.push(Opt { kind: Kind::Fg, max: k, new_fg: st.fg });
        }
    }
    // SET FG run
    {
        let nf = px[p] ^ base(p);
        let mut k = 0;
        while k < lim && px[p + k] == base(p + k) ^ nf {
            k += 1;
        }
        out.push(Opt { kind: Kind::SetFg, max: k, new_fg: nf });
    }
    // FGBG with current fg
    {
        let mut k = 0;
        while k < lim {
            let d = px[p + k] ^ base(p + k);
            if d != 0 && d != st.fg {
                break;
            }
            k += 1;
        }
        if k > 0 {
            out.push(Opt { kind: Kind::FgBg, max: k, new_fg: st.fg });
        }
        if k >= 8 && st.fg != 0 {
            let m = |mask: u8| {
                (0..8).all(|i| {
                    let d = px[p + i] ^ base(p + i);
                    if mask & (1 << i) != 0 {
                        d == st.fg
                    } else {
                        d == 0
                    }
                })
            };
            if m(0x03) {
                out.push(Opt { kind: Kind::Special1, max: 8, new_fg: st.fg });
            }
            if m(0x05) {
                out.push(Opt { kind: Kind::Special2, max: 8, new_fg: st.fg });
            }
        }
    }
    // SET FGBG: the new fg is the first non-zero difference in the run
    {
        let mut nf: Option<u16> = None;
        let mut k = 0;
        while k < lim {
            let d = px[p + k] ^ base(p + k);
            if d != 0 {
                match nf {
                    None => nf = Some(d),
                    Some(f) if f == d => {}
                    _ => break,
                }
            }
            k += 1;
        }
        if k > 0 {
            out.push(Opt { kind: Kind::SetFgBg, max: k, new_fg: nf.unwrap_or(0xFFFF) });
        }
    }
    // colour run
    {
        let mut k = 0;
        while p + k < n && px[p + k] == px[p] {
            k += 1;
        }
        out.push(Opt { kind: Kind::ColorRun, max: k, new_fg: st.fg });
    }
    // colour image
    out.push(Opt { kind: Kind::ColorImage, max: n - p, new_fg: st.fg });
    // dithered run
    if p + 1 < n {
        let (a, b) = (px[p], px[p + 1]);
        let mut k = 0;
        while p + 2 * k + 1 < n && px[p + 2 * k] == a && px[p + 2 * k + 1] == b {
            k += 1;
        }
        if k > 0 {
            out.push(Opt { kind: Kind::Dithered, max: k, new_fg: st.fg });
        }
    }
    if px[p] == 0xFFFF {
        out.push(Opt { kind: Kind::White, max: 1, new_fg: st.fg });
    }
    if px[p] == 0 {
        out.push(Opt { kind: Kind::Black, max: 1, new_fg: st.fg });
    }
    out
}

/// forms in which a run of `len` can be written for `kind`
pub fn forms(kind: Kind, len: usize) -> Vec<Form> {
    let mut f = Vec::new();
    match kind {
        Kind::Special1 | Kind::Special2 | Kind::White | Kind::Black => f.push(Form::Fixed),
        Kind::Bg | Kind::Fg | Kind::ColorRun | Kind::ColorImage => {
            if (1..=31).contains(&len) {
                f.push(Form::Short);
            }
            if (32..=287).contains(&len) {
                f.push(Form::Extended);
            }
            if len <= 0xFFFF {
                f.push(Form::Mega);
            }
        }
        Kind::FgBg => {
            if len % 8 == 0 && (1..=31).contains(&(len / 8)) {
                f.push(Form::Short);
            }
            if (1..=256).contains(&len) {
                f.push(Form::Extended);
            }
            if len <= 0xFFFF {
                f.push(Form::Mega);
            }
        }
        Kind::SetFgBg => {
            if len % 8 == 0 && (1..=15).contains(&(len / 8)) {
                f.push(Form::Short);
            }
            if (1..=256).contains(&len) {
                f.push(Form::Extended);
            }
            if len <= 0xFFFF {
                f.push(Form::Mega);
            }
        }
        Kind::SetFg | Kind::Dithered => {
            if (1..=15).contains(&len) {
                f.push(Form::Short);
            }
            if (16..=271).contains(&len) {
                f.push(Form::Extended);
            }
            if len <= 0xFFFF {
                f.push(Form::Mega);
            }
        }
    }
    f
}

/// Emit one order; `pad_bits` fills the unused high bits of the last FGBG mask byte.
pub fn emit(px: &[u16], width: usize, st: &mut EncState, kind: Kind, len: usize, form: Form, new_fg: u16, pad_bits: u8, out: &mut Vec<u8>) {
    let p = st.pos;
    let base = |i: usize| -> u16 {
        if i < width {
            0
        } else {
            px[i - width]
        }
    };
    let (reg, lite, mega): (u8, u8, u8) = match kind {
        Kind::Bg => (0x00, 0, 0xF0),
        Kind::Fg => (0x20, 0, 0xF1),
        Kind::FgBg => (0x40, 0, 0xF2),
        Kind::ColorRun => (0x60, 0, 0xF3),
        Kind::ColorImage => (0x80, 0, 0xF4),
        Kind::SetFg => (0, 0xC0, 0xF6),
        Kind::SetFgBg => (0, 0xD0, 0xF7),
        Kind::Dithered => (0, 0xE0, 0xF8),
        Kind::Special1 => (0, 0, 0xF9),
        Kind::Special2 => (0, 0, 0xFA),
        Kind::White => (0, 0, 0xFD),
        Kind::Black => (0, 0, 0xFE),
    };
    let is_lite = matches!(kind, Kind::SetFg | Kind::SetFgBg | Kind::Dithered);
    let is_fgbg = matches!(kind, Kind::FgBg | Kind::SetFgBg);
    match form {
        Form::Fixed => out.push(mega),
        Form::Mega => {
            out.push(mega);
            out.push((len & 0xFF) as u8);
            out.push((len >> 8) as u8);
        }
        Form::Short => {
            let field = if is_fgbg { len / 8 } else { len } as u8;
            out.push(if is_lite { lite | field } else { reg | field });
        }
        Form::Extended => {
            out.push(if is_lite { lite } else { reg });
            let v = if is_fgbg {
                len - 1
            } else if is_lite {
                len - 16
            } else {
                len - 32
            };
            out.push(v as u8);
        }
    }
    let mut fg = st.fg;
    if matches!(kind, Kind::SetFg | Kind::SetFgBg) {
        fg = new_fg;
        out.push((fg & 0xFF) as u8);
        out.push((fg >> 8) as u8);
    }
    let mut pixels = len;
    match kind {
        Kind::ColorRun => {
            out.push((px[p] & 0xFF) as u8);
            out.push((px[p] >> 8) as u8);
        }
        Kind::Dithered => {
            out.push((px[p] & 0xFF) as u8);
            out.push((px[p] >> 8) as u8);
            out.push((px[p + 1] & 0xFF) as u8);
            out.push((px[p + 1] >> 8) as u8);
            pixels = len * 2;
        }
        Kind::ColorImage => {
            for i in 0..len {
                out.push((px[p + i] & 0xFF) as u8);
                out.push((px[p + i] >> 8) as u8);
            }
        }
        Kind::FgBg | Kind::SetFgBg => {
            let mut i = 0;
            while i < len {
                let k = (len - i).min(8);
                let mut m = 0u8;
                for b in 0..k {
                    let d = px[p + i + b] ^ base(p + i + b);
                    // when fg == 0 the bit is free; take it from pad_bits
                    let set = if fg == 0 { pad_bits & (1 << b) != 0 } else { d == fg };
                    if set {
                        m |= 1 << b;
                    }
                }
                if k < 8 {
                    m |= pad_bits & !((1u16 << k) as u8).wrapping_sub(1);
                }
                out.push(m);
                i += k;
            }
        }
        _ => {}
    }
    st.fg = fg;
    st.last_bg = kind == Kind::Bg;
    st.pos += pixels;
}

/// One random conformant encoding; `choose(n)` returns an index below n.
/// Returns the bytes and the list of order kinds used.
pub fn encode_random(px: &[u16], width: usize, choose: &mut dyn FnMut(usize) -> usize) -> (Vec<u8>, Vec<(Kind, usize, Form)>) {
    let mut st = EncState::new();
    let mut out = Vec::new();
    let mut orders = Vec::new();
    while st.pos < px.len() {
        let opts = options(px, width, &st);
        // style: 0 = uniform over kinds, 1 = prefer the longest-covering order
        let o = if choose(4) == 0 {
            let best = opts.iter().map(|o| if o.kind == Kind::Dithered { o.max * 2 } else { o.max }).max().unwrap();
            let cands: Vec<&Opt> = opts.iter().filter(|o| (if o.kind == Kind::Dithered { o.max * 2 } else { o.max }) == best).collect();
            (*cands[choose(cands.len())]).clone()
        } else {
            opts[choose(opts.len())].clone()
        };
        let maxlen = o.max.min(0xFFFF);
        // length: usually the maximum, sometimes shorter
        let len = match choose(4) {
            0 => 1 + choose(maxlen),
            1 => (maxlen).min(1 + choose(9)),
            _ => maxlen,
        };
        let len = if matches!(o.kind, Kind::Special1 | Kind::Special2) { 8 } else { len.max(1) };
        let fs = forms(o.kind, len);
        let form = fs[choose(fs.len())];
        let pad = [0u8, 0xFF, 0xAA][choose(3)];
        emit(px, width, &mut st, o.kind, len, form, o.new_fg, pad, &mut out);
        orders.push((o.kind, len, form));
    }
    (out, orders)
}

/// Enumerate every conformant encoding of a (tiny) image; `cap` bounds the number produced.
pub fn encode_all(px: &[u16], width: usize, cap: usize) -> Vec<Vec<u8>> {
    fn rec(px: &[u16], width: usize, st: EncState, cur: Vec<u8>, acc: &mut Vec<Vec<u8>>, cap: usize) {
        if acc.len() >= cap {
            return;
        }
        if st.pos >= px.len() {
            acc.push(cur);
            return;
        }
        for o in options(px, width, &st) {
            let lens: Vec<usize> = if matches!(o.kind, Kind::Special1 | Kind::Special2) { vec![8] } else { (1..=o.max).collect() };
            for len in lens {
                for form in forms(o.kind, len) {
                    let mut s2 = st.clone();
                    let mut c2 = cur.clone();
                    emit(px, width, &mut s2, o.kind, len, form, o.new_fg, 0, &mut c2);
                    rec(px, width, s2, c2, acc, cap);
                    if acc.len() >= cap {
                        return;
                    }
                }
            }
        }
    }
    let mut acc = Vec::new();
    rec(px, width, EncState::new(), Vec::new(), &mut acc, cap);
    acc
}

#[cfg(test)]
mod test {
    use super::*;

    #[test]
    fn widen_is_rounding() {
        for c in 0..32u32 {
            let want = ((c as f64) * 255.0 / 31.0).round() as u8;
            assert_eq!(widen565((c as u16) << 11)[2], want);
            assert_eq!(widen565(c as u16)[0], want);
        }
        for c in 0..64u32 {
            let want = ((c as f64) * 255.0 / 63.0).round() as u8;
            assert_eq!(widen565((c as u16) << 5)[1], want);
        }
    }

    #[test]
    fn all_encodings_decode() {
        let imgs: Vec<(Vec<u16>, usize)> = vec![
            (vec![0, 0, 0xFFFF, 0xFFFF, 0, 0xFFFF], 2),
            (vec![1, 2, 1, 2, 1, 2], 3),
            (vec![5, 5, 5, 5, 5 ^ 0xFFFF, 5], 2),
            (vec![0xFFFF; 6], 3),
            (vec![7, 0, 7, 0], 1),
        ];
        for (px, w) in imgs {
            let all = encode_all(&px, w, 200_000);
            assert!(all.len() > 10);
            for e in all {
                assert_eq!(decode(&e, w, px.len() / w).unwrap(), px, "encoding {:02x?}", e);
            }
        }
    }

    #[test]
    fn random_encodings_decode() {
        let mut s = 12345u64;
        let mut rnd = move |n: usize| {
            s ^= s << 13;
            s ^= s >> 7;
            s ^= s << 17;
            (s % n.max(1) as u64) as usize
        };
        for w in [1usize, 3, 8, 17, 40] {
            for h in [1usize, 2, 5] {
                for pal in [2usize, 3, 65536] {
                    let cols = [0u16, 0xFFFF, 0x1234];
                    let px: Vec<u16> = (0..w * h).map(|_| if pal <= 3 { cols[rnd(pal)] } else { rnd(65536) as u16 }).collect();
                    for _ in 0..50 {
                        let (e, _) = encode_random(&px, w, &mut rnd);
                        assert_eq!(decode(&e, w, h).unwrap(), px);
                    }
                }
            }
        }
    }
}
