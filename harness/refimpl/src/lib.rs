//! Independent reference implementations (codecs, models, reference server).
//! This crate must never depend on the `rdp` crate.
pub mod crypto;
pub mod der;
pub mod gcc;
pub mod ntlm;
pub mod per;
pub mod planar;
pub mod rd;
pub mod rle16;
pub mod server;
pub mod wire;
