//! Independent reference implementations (codecs, models, reference server).
//! This crate must never depend on the `rdp` crate.
pub mod crypto;
pub mod planar;
pub mod rle16;
