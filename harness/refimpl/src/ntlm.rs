//! Independent MS-NLMP (NTLMv2) server side: CHALLENGE builder with field map, strict
//! NEGOTIATE / AUTHENTICATE parsers and the verifier of C15; CredSSP TSRequest codec.
use crate::crypto::{self, hmac_md5, Rc4};
use crate::der::{self, Der, LenForm, Node};
use crate::rd::{perr, Built, PResult, ParseError, Rd};

pub const NEG_56: u32 = 0x8000_0000;
pub const NEG_KEY_EXCH: u32 = 0x4000_0000;
pub const NEG_128: u32 = 0x2000_0000;
pub const NEG_VERSION: u32 = 0x0200_0000;
pub const NEG_TARGET_INFO: u32 = 0x0080_0000;
pub const NEG_ESS: u32 = 0x0008_0000;
pub const NEG_TARGET_TYPE_SERVER: u32 = 0x0002_0000;
pub const NEG_TARGET_TYPE_DOMAIN: u32 = 0x0001_0000;
pub const NEG_ALWAYS_SIGN: u32 = 0x0000_8000;
pub const NEG_NTLM: u32 = 0x0000_0200;
pub const NEG_SEAL: u32 = 0x0000_0020;
pub const NEG_SIGN: u32 = 0x0000_0010;
pub const NEG_REQUEST_TARGET: u32 = 0x0000_0004;
pub const NEG_OEM: u32 = 0x0000_0002;
pub const NEG_UNICODE: u32 = 0x0000_0001;

/// flags every generated CHALLENGE carries (what the client asks for and an NTLMv2 server grants)
pub const MANDATORY: u32 = NEG_KEY_EXCH | NEG_128 | NEG_ESS | NEG_ALWAYS_SIGN | NEG_NTLM | NEG_SEAL | NEG_SIGN | NEG_TARGET_INFO;

pub const AV_EOL: u16 = 0;
pub const AV_TIMESTAMP: u16 = 7;

#[derive(Debug, Clone, PartialEq, Eq)]
pub struct Negotiate {
    pub flags: u32,
    pub domain: Vec<u8>,
    pub workstation: Vec<u8>,
}

fn field<'a>(msg: &'a [u8], r: &mut Rd, what: &str, min_off: usize) -> PResult<&'a [u8]> {
    let len = r.u16le()? as usize;
    let max = r.u16le()? as usize;
    let off = r.u32le()? as usize;
    if max < len {
        return perr(format!("{}: MaxLen {} < Len {}", what, max, len));
    }
    if len == 0 {
        return Ok(&msg[0..0]);
    }
    if off < min_off {
        return perr(format!("{}: offset {} points into the fixed part (payload starts at {})", what, off, min_off));
    }
    if off + len > msg.len() {
        return perr(format!("{}: offset {} + length {} exceeds the message ({} bytes)", what, off, len, msg.len()));
    }
    Ok(&msg[off..off + len])
}

pub fn parse_negotiate(msg: &[u8]) -> PResult<Negotiate> {
    let mut r = Rd::new(msg);
    if r.take(8)? != b"NTLMSSP\0" {
        return perr("NEGOTIATE: signature");
    }
    if r.u32le()? != 1 {
        return perr("NEGOTIATE: MessageType");
    }
    let flags = r.u32le()?;
    let fixed = if flags & NEG_VERSION != 0 { 40 } else { 32 };
    if msg.len() < 32 {
        return perr("NEGOTIATE: shorter than its fixed part");
    }
    let domain = field(msg, &mut r, "NEGOTIATE.DomainName", fixed)?.to_vec();
    let workstation = field(msg, &mut r, "NEGOTIATE.Workstation", fixed)?.to_vec();
    if flags & NEG_VERSION != 0 {
        r.take(8)?;
    }
    Ok(Negotiate { flags, domain, workstation })
}

#[derive(Debug, Clone, PartialEq, Eq, Hash, serde::Serialize, serde::Deserialize)]
pub struct Challenge {
    pub flags: u32,
    pub server_challenge: Vec<u8>,
    pub target_name: Vec<u8>,
    /// AV pairs without the terminating EOL (appended by the builder)
    pub target_info: Vec<(u16, Vec<u8>)>,
    pub version: Vec<u8>,
    /// 0 = name then info, 1 = info then name
    pub payload_order: u8,
    /// padding bytes between the fixed part and the payload, and between the two payload fields
    pub gap: u8,
    /// TargetInfoMaxLen - TargetInfoLen and TargetNameMaxLen - TargetNameLen (MaxLen must be ignored by the receiver)
    #[serde(default)]
    pub max_len_delta: u16,
}

pub fn target_info_bytes(c: &Challenge) -> Vec<u8> {
    let mut v = Vec::new();
    for (id, val) in &c.target_info {
        v.extend_from_slice(&id.to_le_bytes());
        v.extend_from_slice(&(val.len() as u16).to_le_bytes());
        v.extend_from_slice(val);
    }
    v.extend_from_slice(&[0, 0, 0, 0]);
    v
}

pub fn build_challenge(c: &Challenge) -> Built {
    let has_version = c.flags & NEG_VERSION != 0;
    let fixed = if has_version { 56 } else { 48 };
    let ti = target_info_bytes(c);
    let gap = c.gap as usize;
    let (name_off, info_off) = if c.payload_order == 0 { (fixed + gap, fixed + gap + c.target_name.len() + gap) } else { (fixed + gap + ti.len() + gap, fixed + gap) };
    let mut b = Built::new();
    b.blob("Signature", b"NTLMSSP\0");
    b.u32le("MessageType", 2);
    b.u16le("TargetNameLen", c.target_name.len() as u16);
    b.u16le("TargetNameMaxLen", (c.target_name.len() as u16).saturating_add(c.max_len_delta));
    b.u32le("TargetNameBufferOffset", name_off as u32);
    b.u32le("NegotiateFlags", c.flags);
    b.blob("ServerChallenge", &c.server_challenge);
    b.blob("Reserved", &[0; 8]);
    b.u16le("TargetInfoLen", ti.len() as u16);
    b.u16le("TargetInfoMaxLen", (ti.len() as u16).saturating_add(c.max_len_delta));
    b.u32le("TargetInfoBufferOffset", info_off as u32);
    if has_version {
        b.blob("Version", &c.version);
    }
    b.blob("gap0", &vec![0xEE; gap]);
    let mut info = Built::new();
    for (i, (id, val)) in c.target_info.iter().enumerate() {
        info.u16le(&format!("av{}.AvId", i), *id);
        info.u16le(&format!("av{}.AvLen", i), val.len() as u16);
        info.blob(&format!("av{}.Value", i), val);
    }
    info.u16le("eol.AvId", 0);
    info.u16le("eol.AvLen", 0);
    if c.payload_order == 0 {
        b.blob("TargetName", &c.target_name);
        b.blob("gap1", &vec![0xEE; gap]);
        b.nest("TargetInfo", &info);
    } else {
        b.nest("TargetInfo", &info);
        b.blob("gap1", &vec![0xEE; gap]);
        b.blob("TargetName", &c.target_name);
    }
    b
}

#[derive(Debug, Clone, PartialEq, Eq)]
pub struct Authenticate {
    pub lm: Vec<u8>,
    pub nt: Vec<u8>,
    pub domain: Vec<u8>,
    pub user: Vec<u8>,
    pub workstation: Vec<u8>,
    pub session_key: Vec<u8>,
    pub flags: u32,
    pub mic_offset: usize,
    pub payload_start: usize,
    pub notes: Vec<String>,
}

/// strict layout parser of the AUTHENTICATE message
pub fn parse_authenticate(msg: &[u8]) -> PResult<Authenticate> {
    let mut r = Rd::new(msg);
    if msg.len() < 64 {
        return perr(format!("AUTHENTICATE: {} bytes, shorter than the fixed part", msg.len()));
    }
    if r.take(8)? != b"NTLMSSP\0" {
        return perr("AUTHENTICATE: signature");
    }
    if r.u32le()? != 3 {
        return perr("AUTHENTICATE: MessageType");
    }
    // flags sit after the six field descriptors
    let flags = u32::from_le_bytes([msg[60], msg[61], msg[62], msg[63]]);
    let header_end = if flags & NEG_VERSION != 0 { 72 } else { 64 };
    let lm = field(msg, &mut r, "LmChallengeResponse", header_end)?.to_vec();
    let nt = field(msg, &mut r, "NtChallengeResponse", header_end)?.to_vec();
    let domain = field(msg, &mut r, "DomainName", header_end)?.to_vec();
    let user = field(msg, &mut r, "UserName", header_end)?.to_vec();
    let workstation = field(msg, &mut r, "Workstation", header_end)?.to_vec();
    let session_key = field(msg, &mut r, "EncryptedRandomSessionKey", header_end)?.to_vec();
    // lowest payload offset
    let mut offs = Vec::new();
    let mut rr = Rd::new(&msg[12..60]);
    for _ in 0..6 {
        let len = rr.u16le()? as usize;
        let _ = rr.u16le()?;
        let off = rr.u32le()? as usize;
        if len > 0 {
            offs.push((off, len));
        }
    }
    let payload_start = offs.iter().map(|x| x.0).min().unwrap_or(msg.len());
    // fields must not overlap each other
    let mut sorted = offs.clone();
    sorted.sort();
    for w in sorted.windows(2) {
        if w[0].0 + w[0].1 > w[1].0 {
            return perr(format!("AUTHENTICATE: payload fields overlap ({:?} and {:?})", w[0], w[1]));
        }
    }
    let mut notes = Vec::new();
    // the MIC is the 16 bytes between the fixed header implied by the flags and the payload (DESIGN §4.5)
    if payload_start < header_end + 16 {
        return perr(format!("AUTHENTICATE: payload starts at {} leaving no room for the 16-byte MIC after the {}-byte header", payload_start, header_end));
    }
    if payload_start != header_end + 16 {
        return perr(format!("AUTHENTICATE: {} bytes between the header ({} bytes) and the payload, expected exactly the 16-byte MIC", payload_start - header_end, header_end));
    }
    if flags & NEG_VERSION == 0 {
        notes.push("Version field omitted: MIC sits at offset 64 instead of 72".to_string());
    }
    Ok(Authenticate { lm, nt, domain, user, workstation, session_key, flags, mic_offset: header_end, payload_start, notes })
}

#[derive(Debug, Clone, PartialEq, Eq)]
pub struct Account {
    pub domain: String,
    pub user: String,
    pub nt_hash: Vec<u8>,
}

#[derive(Debug, Clone)]
pub struct Verified {
    pub exported_session_key: Vec<u8>,
    pub auth: Authenticate,
}

/// Accept or reject an AUTHENTICATE token exactly as an MS-NLMP server holding the account's NT hash would.
pub fn verify_authenticate(account: &Account, negotiate: &[u8], challenge_bytes: &[u8], challenge: &Challenge, auth_bytes: &[u8]) -> Result<Verified, String> {
    let a = parse_authenticate(auth_bytes).map_err(|e| format!("layout: {}", e.0))?;
    let unicode = challenge.flags & NEG_UNICODE != 0;
    let enc = |s: &str| if unicode { crypto::utf16le(s) } else { s.as_bytes().to_vec() };
    if a.user != enc(&account.user) {
        return Err(format!("identity: UserName field {:02x?} is not the account's user name {:?} ({})", a.user, account.user, if unicode { "UTF-16LE" } else { "OEM" }));
    }
    if a.domain != enc(&account.domain) {
        return Err(format!("identity: DomainName field {:02x?} is not the account's domain {:?}", a.domain, account.domain));
    }
    for needed in [NEG_KEY_EXCH, NEG_ESS, NEG_SEAL, NEG_SIGN, NEG_NTLM, NEG_128] {
        // (a flag the CHALLENGE itself did not carry cannot be demanded back: hostile-server cases of C01)
        if challenge.flags & needed != 0 && a.flags & needed == 0 {
            return Err(format!("flags: AUTHENTICATE NegotiateFlags {:#010x} lack {:#010x}", a.flags, needed));
        }
    }
    if a.nt.len() < 16 + 32 {
        return Err(format!("nt-response: {} bytes, too short for NTProofStr + NTLMv2 client challenge", a.nt.len()));
    }
    let (proof, blob) = a.nt.split_at(16);
    if blob[0] != 1 || blob[1] != 1 {
        return Err(format!("nt-response: RespType/HiRespType {} {}", blob[0], blob[1]));
    }
    if blob[2..8].iter().any(|b| *b != 0) {
        return Err("nt-response: reserved bytes after the response type are not zero".into());
    }
    let ts = &blob[8..16];
    let server_ts = challenge.target_info.iter().find(|(id, _)| *id == AV_TIMESTAMP).map(|(_, v)| v.clone());
    if let Some(st) = &server_ts {
        if ts != &st[..] {
            return Err(format!("nt-response: timestamp {:02x?} is not the server's MsvAvTimestamp {:02x?}", ts, st));
        }
    }
    let client_challenge = &blob[16..24];
    if blob[24..28].iter().any(|b| *b != 0) {
        return Err("nt-response: reserved bytes after the client challenge are not zero".into());
    }
    // the client copies the server's AV pairs; MS-NLMP 3.1.5.1.2 lets it add or rewrite MsvAvFlags (6), MsvAvTargetName (9) and
    // MsvAvChannelBindings (10): those ids are left out of the comparison. The list ends with MsvAvEOL; zero padding may follow.
    let av = &blob[28..];
    let mut client_pairs: Vec<(u16, Vec<u8>)> = Vec::new();
    let mut p = 0usize;
    let mut terminated = false;
    while p + 4 <= av.len() {
        let id = u16::from_le_bytes([av[p], av[p + 1]]);
        let len = u16::from_le_bytes([av[p + 2], av[p + 3]]) as usize;
        p += 4;
        if id == 0 {
            if len != 0 {
                return Err("nt-response: MsvAvEOL with a non-zero length in the client challenge".into());
            }
            terminated = true;
            break;
        }
        if p + len > av.len() {
            return Err(format!("nt-response: AV pair {} of {} bytes runs past the end of the client challenge", id, len));
        }
        client_pairs.push((id, av[p..p + len].to_vec()));
        p += len;
    }
    if !terminated {
        return Err(format!("nt-response: the AV pairs in the client challenge ({} bytes) are not terminated by MsvAvEOL", av.len()));
    }
    if av.len() - p > 8 || av[p..].iter().any(|b| *b != 0) {
        return Err(format!("nt-response: {} bytes after MsvAvEOL in the client challenge (only zero padding may follow)", av.len() - p));
    }
    let client_flags = client_pairs.iter().find(|(id, v)| *id == 6 && v.len() == 4).map(|(_, v)| u32::from_le_bytes([v[0], v[1], v[2], v[3]])).unwrap_or(0);
    let free = |id: &u16| matches!(*id, 6 | 9 | 10);
    let want: Vec<&(u16, Vec<u8>)> = challenge.target_info.iter().filter(|(id, _)| !free(id)).collect();
    let got: Vec<&(u16, Vec<u8>)> = client_pairs.iter().filter(|(id, _)| !free(id)).collect();
    if want != got {
        return Err(format!("nt-response: AV pairs in the client challenge ({} pairs, {} bytes) are not the server's target info ({} pairs)", client_pairs.len(), av.len(), challenge.target_info.len()));
    }
    let key = crypto::ntowfv2(&account.nt_hash, &account.user, &account.domain);
    let mut data = challenge.server_challenge.clone();
    data.extend_from_slice(blob);
    let want = hmac_md5(&key, &data);
    if proof != &want[..] {
        return Err("nt-proof: NTProofStr does not verify against the account's NT hash".into());
    }
    // LM response: Z(24) or a valid LMv2 response
    if a.lm.len() != 24 {
        return Err(format!("lm-response: {} bytes, expected 24", a.lm.len()));
    }
    if a.lm.iter().any(|b| *b != 0) {
        let cc = &a.lm[16..24];
        let mut d = challenge.server_challenge.clone();
        d.extend_from_slice(cc);
        if a.lm[..16] != hmac_md5(&key, &d)[..] {
            return Err("lm-response: neither Z(24) nor a valid LMv2 response".into());
        }
        if cc != client_challenge {
            return Err("lm-response: LMv2 client challenge differs from the NTLMv2 client challenge".into());
        }
    }
    // key exchange
    let session_base = hmac_md5(&key, proof);
    // a server that did not offer key exchange and a client that did not do one: the exported key is the key exchange key,
    // which is the session base key under NTLMv2
    let no_kx = challenge.flags & NEG_KEY_EXCH == 0 && a.flags & NEG_KEY_EXCH == 0 && a.session_key.is_empty();
    if !no_kx && a.session_key.len() != 16 {
        return Err(format!("key-exchange: EncryptedRandomSessionKey is {} bytes", a.session_key.len()));
    }
    let exported = if no_kx { session_base.clone() } else { Rc4::new(&session_base).apply(&a.session_key) };
    // MIC over the three messages with the MIC field zeroed
    let mut zeroed = auth_bytes.to_vec();
    for b in zeroed[a.mic_offset..a.mic_offset + 16].iter_mut() {
        *b = 0;
    }
    let mut all = negotiate.to_vec();
    all.extend_from_slice(challenge_bytes);
    all.extend_from_slice(&zeroed);
    let mic = hmac_md5(&exported, &all);
    // the MIC is announced by the server's timestamp or by the client's MsvAvFlags bit 2; otherwise the field is ignored
    let mic_expected = server_ts.is_some() || client_flags & 2 != 0;
    if mic_expected && auth_bytes[a.mic_offset..a.mic_offset + 16] != mic[..] {
        return Err("mic: the MIC does not verify over NEGOTIATE, CHALLENGE and AUTHENTICATE".into());
    }
    Ok(Verified { exported_session_key: exported, auth: a })
}

// --------------------------------------------------------------------------------------------
// CredSSP
// --------------------------------------------------------------------------------------------

#[derive(Debug, Clone, PartialEq, Eq, Default)]
pub struct TsRequest {
    pub version: i64,
    pub nego_tokens: Vec<Vec<u8>>,
    pub auth_info: Option<Vec<u8>>,
    pub pub_key_auth: Option<Vec<u8>>,
    pub error_code: Option<i64>,
    pub client_nonce: Option<Vec<u8>>,
}

/// strict DER parser of a TSRequest; returns the request and the number of bytes consumed
pub fn parse_ts_request(data: &[u8], strict: bool) -> PResult<(TsRequest, usize)> {
    let d = Der { strict };
    let mut r = Rd::new(data);
    let mut s = d.seq(&mut r, "TSRequest")?;
    let used = r.pos;
    let mut t = TsRequest::default();
    let mut v = d.explicit(&mut s, 0, "TSRequest.version")?;
    t.version = d.int(&mut v, "version")?;
    v.expect_end("version")?;
    let mut last = 0u8;
    while !s.at_end() {
        let tag = d.peek(&s);
        if tag & 0xE0 != 0xA0 {
            return perr(format!("TSRequest: unexpected tag 0x{:02x}", tag));
        }
        let n = tag & 0x1F;
        if n <= last {
            return perr(format!("TSRequest: field [{}] out of order", n));
        }
        last = n;
        let mut f = d.explicit(&mut s, n, "TSRequest field")?;
        match n {
            1 => {
                let mut so = d.seq(&mut f, "negoTokens")?;
                while !so.at_end() {
                    let mut item = d.seq(&mut so, "NegoData item")?;
                    let mut tok = d.explicit(&mut item, 0, "negoToken")?;
                    t.nego_tokens.push(d.octets(&mut tok, "negoToken")?.to_vec());
                    tok.expect_end("negoToken")?;
                    item.expect_end("NegoData item")?;
                }
            }
            2 => t.auth_info = Some(d.octets(&mut f, "authInfo")?.to_vec()),
            3 => t.pub_key_auth = Some(d.octets(&mut f, "pubKeyAuth")?.to_vec()),
            4 => t.error_code = Some(d.int(&mut f, "errorCode")?),
            5 => t.client_nonce = Some(d.octets(&mut f, "clientNonce")?.to_vec()),
            _ => return perr(format!("TSRequest: unknown field [{}]", n)),
        }
        f.expect_end("TSRequest field")?;
    }
    Ok((t, used))
}

pub fn build_ts_request(version: u32, nego: Option<&[u8]>, auth_info: Option<&[u8]>, pub_key_auth: Option<&[u8]>, form: LenForm) -> Vec<u8> {
    let mut items = vec![Node::Explicit(0, Box::new(Node::Int(version)))];
    if let Some(n) = nego {
        items.push(Node::Explicit(1, Box::new(Node::SeqOf(vec![Node::Seq(vec![Node::Explicit(0, Box::new(Node::Octets(n.to_vec())))])]))));
    }
    if let Some(a) = auth_info {
        items.push(Node::Explicit(2, Box::new(Node::Octets(a.to_vec()))));
    }
    if let Some(p) = pub_key_auth {
        items.push(Node::Explicit(3, Box::new(Node::Octets(p.to_vec()))));
    }
    der::encode(&Node::Seq(items), form)
}

#[derive(Debug, Clone, PartialEq, Eq)]
pub struct TsCredentials {
    pub cred_type: i64,
    pub domain: Vec<u8>,
    pub user: Vec<u8>,
    pub password: Vec<u8>,
}

pub fn parse_ts_credentials(data: &[u8]) -> PResult<TsCredentials> {
    let d = Der { strict: true };
    let mut r = Rd::new(data);
    let mut s = d.seq(&mut r, "TSCredentials")?;
    r.expect_end("TSCredentials")?;
    let mut t = d.explicit(&mut s, 0, "credType")?;
    let cred_type = d.int(&mut t, "credType")?;
    t.expect_end("credType")?;
    let mut c = d.explicit(&mut s, 1, "credentials")?;
    let inner = d.octets(&mut c, "credentials")?;
    c.expect_end("credentials")?;
    s.expect_end("TSCredentials")?;
    if cred_type != 1 {
        return perr(format!("TSCredentials.credType {}", cred_type));
    }
    let mut ir = Rd::new(inner);
    let mut p = d.seq(&mut ir, "TSPasswordCreds")?;
    ir.expect_end("TSPasswordCreds")?;
    let mut get = |n: u8, what: &str| -> PResult<Vec<u8>> {
        let mut f = d.explicit(&mut p, n, what)?;
        let v = d.octets(&mut f, what)?.to_vec();
        f.expect_end(what)?;
        Ok(v)
    };
    let domain = get(0, "domainName")?;
    let user = get(1, "userName")?;
    let password = get(2, "password")?;
    p.expect_end("TSPasswordCreds").map_err(|e| ParseError(e.0))?;
    Ok(TsCredentials { cred_type, domain, user, password })
}

/// little-endian big-integer increment (what a CredSSP server applies to the public key)
pub fn increment_le(key: &[u8]) -> Vec<u8> {
    let mut v = key.to_vec();
    for b in v.iter_mut() {
        let (n, carry) = b.overflowing_add(1);
        *b = n;
        if !carry {
            return v;
        }
    }
    v.push(1);
    v
}

#[cfg(test)]
mod test {
    use super::*;
    #[test]
    fn ts_request_roundtrip() {
        let b = build_ts_request(2, Some(b"tok"), None, Some(b"pk"), LenForm::Minimal);
        let (t, used) = parse_ts_request(&b, true).unwrap();
        assert_eq!(used, b.len());
        assert_eq!(t.version, 2);
        assert_eq!(t.nego_tokens, vec![b"tok".to_vec()]);
        assert_eq!(t.pub_key_auth, Some(b"pk".to_vec()));
        // the repository's fixed vector for TSCredentials (test_create_ts_credentials)
        let creds = [48u8, 41, 160, 3, 2, 1, 1, 161, 34, 4, 32, 48, 30, 160, 8, 4, 6, 100, 111, 109, 97, 105, 110, 161, 6, 4, 4, 117, 115, 101, 114, 162, 10, 4, 8, 112, 97, 115, 115, 119, 111, 114, 100];
        let c = parse_ts_credentials(&creds).unwrap();
        assert_eq!(c.domain, b"domain");
        assert_eq!(c.password, b"password");
        assert_eq!(increment_le(&[0xFF, 0x01]), vec![0x00, 0x02]);
    }
    #[test]
    fn challenge_layout() {
        let c = Challenge { flags: MANDATORY | NEG_UNICODE | NEG_VERSION, server_challenge: vec![1, 2, 3, 4, 5, 6, 7, 8], target_name: crypto::utf16le("SRV"), target_info: vec![(1, crypto::utf16le("SRV")), (7, vec![9; 8])], version: vec![6, 1, 0, 0, 0, 0, 0, 15], payload_order: 0, gap: 0, max_len_delta: 0 };
        let b = build_challenge(&c);
        assert_eq!(&b.bytes[0..12], b"NTLMSSP\0\x02\0\0\0");
        assert_eq!(b.bytes.len(), 56 + 6 + (4 + 6) + (4 + 8) + 4);
    }
}
