//! Sans-IO reference RDP server (from MCS connect-initial onwards; negotiation, TLS and CredSSP are
//! driven by the lanes). `feed` consumes client bytes and returns the frames a conforming server
//! sends next; everything received is parsed with the strict parsers and recorded.

use crate::gcc::{self, CcRsp};
use crate::rd::{Built, Field};
use crate::wire::{self, ConfirmActive, ConnectInitial, DataBody, DemandActive, DomainPdu, InfoPacket, License, SharePdu};

#[derive(Debug, Clone, PartialEq, Eq, Hash, serde::Serialize, serde::Deserialize)]
pub struct ServerProfile {
    pub selected_protocol: u32,
    pub user_id: u16,
    pub io_channel: u16,
    pub server_user: u16,
    pub ccrsp: CcRsp,
    pub ber_long: u8,
    pub connect_id: u32,
    pub domain_params: [u32; 8],
    pub license: License,
    /// demand-active PDUs: the first activation and every reactivation round
    pub activations: Vec<DemandActive>,
    /// true: answer the finalization sequence and run the reactivation rounds without being told
    pub auto: bool,
    /// frames sent right after the last activation completed (auto mode): scripted post-activation traffic
    #[serde(default)]
    pub post_activation: Vec<Vec<u8>>,
    /// how the deactivate-all of a reactivation round is framed: 0 = alone in its MCS frame; 1 = behind a data PDU the client
    /// does not parse (save session info); 2 = in front of one; 3 = behind a set-error-info PDU
    #[serde(default)]
    pub pack_deactivate: u8,
    /// raw frames sent right before the licensing PDU (hostile / unusual servers: auto-detect requests, heartbeats ...)
    #[serde(default)]
    pub pre_license: Vec<Vec<u8>>,
    /// data PDUs a client has to ignore, sent in front of the server's finalization PDUs: bit k (0..3) = in front of synchronize /
    /// control-cooperate / control-granted / font-map; bits 4-5 = what: 0 Set Error Info (ERRINFO_NONE) in a frame of its own,
    /// 1 the same in the MCS frame of the reply, 2 Save Session Info in a frame of its own, 3 both kinds
    #[serde(default)]
    pub finalization_noise: u8,
}

impl ServerProfile {
    pub fn simple(user_id: u16, share_id: u32) -> ServerProfile {
        ServerProfile {
            selected_protocol: 1,
            user_id,
            io_channel: 1003,
            server_user: 1002,
            ccrsp: CcRsp {
                node_id: 31219,
                tag: 1,
                result: 0,
                blocks: vec![
                    gcc::ScBlock::Core { version: 0x00080004, requested: Some(1), early_caps: None },
                    gcc::ScBlock::Security { method: 0, level: 0 },
                    gcc::ScBlock::Net { io_channel: 1003, ids: vec![], pad: false },
                ],
                long_lengths: false,
            },
            ber_long: 0,
            connect_id: 0,
            domain_params: [34, 3, 0, 1, 0, 1, 0xfff8, 2],
            license: License::ValidClient { blob_type: 4, blob: vec![] },
            activations: vec![DemandActive { share_id, source: b"RDP\0".to_vec(), caps: wire::sample_server_caps(), session_id: 0 }],
            auto: true,
            post_activation: Vec::new(),
            pack_deactivate: 0,
            pre_license: Vec::new(),
            finalization_noise: 0,
        }
    }
}

#[derive(Debug, Clone, PartialEq, Eq)]
pub enum ClientEvent {
    ConnectInitial(Box<ConnectInitial>),
    ErectDomain,
    AttachUser,
    Join { initiator: u16, channel: u16 },
    ClientInfo { initiator: u16, channel: u16, info: InfoPacket },
    ConfirmActive { initiator: u16, channel: u16, source: u16, pdu: ConfirmActive },
    Data { initiator: u16, channel: u16, source: u16, share_id: u32, pdu_type2: u8, body: DataBody },
    Disconnect { trailing: usize },
    /// a frame the strict parsers rejected (the reason is also in `violations`)
    Malformed(String),
}

impl ClientEvent {
    pub fn kind(&self) -> String {
        match self {
            ClientEvent::ConnectInitial(_) => "connect-initial".into(),
            ClientEvent::ErectDomain => "erect-domain".into(),
            ClientEvent::AttachUser => "attach-user".into(),
            ClientEvent::Join { .. } => "join".into(),
            ClientEvent::ClientInfo { .. } => "client-info".into(),
            ClientEvent::ConfirmActive { .. } => "confirm-active".into(),
            ClientEvent::Data { body, pdu_type2, .. } => match body {
                DataBody::Synchronize { .. } => "synchronize".into(),
                DataBody::Control { action, .. } => format!("control({})", action),
                DataBody::FontList { .. } => "font-list".into(),
                DataBody::Input(_) => "input".into(),
                DataBody::Other(_) => format!("data(0x{:02x})", pdu_type2),
            },
            ClientEvent::Disconnect { .. } => "disconnect".into(),
            ClientEvent::Malformed(_) => "malformed".into(),
        }
    }
}

#[derive(Debug, Clone, Copy, PartialEq, Eq)]
pub enum Phase {
    ConnectInitial,
    ErectDomain,
    AttachUser,
    Joins,
    ClientInfo,
    /// auto mode: waiting for confirm-active (stage 0) and the four finalization PDUs (stages 1..4)
    Activation(u8),
    Active,
    Closed,
}

#[derive(Debug, Clone, PartialEq, Eq, Hash, serde::Serialize, serde::Deserialize)]
pub enum FaultKind {
    /// set the n-th field (index modulo the number of scalar fields) to a value
    SetField { field: u16, value: u32 },
    /// keep only the first n bytes (n modulo length)
    Truncate(u16),
    Extend(Vec<u8>),
    /// xor bytes at positions (modulo length)
    Xor(Vec<(u16, u8)>),
    /// replace the payload after the TPKT header (the TPKT length is recomputed)
    ReplaceBody(Vec<u8>),
    /// replace the whole frame
    ReplaceFrame(Vec<u8>),
}

#[derive(Debug, Clone, PartialEq, Eq, Hash, serde::Serialize, serde::Deserialize)]
pub struct Fault {
    /// index of the outgoing server message the fault applies to
    pub message: u16,
    pub kind: FaultKind,
    /// optional second fault on the same message (double faults)
    pub kind2: Option<FaultKind>,
}

#[derive(Debug, Clone)]
pub struct OutMsg {
    pub name: &'static str,
    pub bytes: Vec<u8>,
    pub fields: Vec<Field>,
    pub faulted: Option<String>,
}

pub fn apply_fault(b: &Built, kind: &FaultKind) -> (Vec<u8>, String) {
    let mut bytes = b.bytes.clone();
    let scalars: Vec<&Field> = b.fields.iter().filter(|f| f.width > 0 && f.off + f.width as usize <= b.bytes.len()).collect();
    let desc;
    match kind {
        FaultKind::SetField { field, value } => {
            if scalars.is_empty() {
                return (bytes, "no-op".into());
            }
            let f = scalars[*field as usize % scalars.len()];
            let v = *value;
            match (f.width, f.be) {
                (1, _) => bytes[f.off] = v as u8,
                (2, false) => bytes[f.off..f.off + 2].copy_from_slice(&(v as u16).to_le_bytes()),
                (2, true) => bytes[f.off..f.off + 2].copy_from_slice(&(v as u16).to_be_bytes()),
                (4, false) => bytes[f.off..f.off + 4].copy_from_slice(&v.to_le_bytes()),
                _ => bytes[f.off..f.off + 4].copy_from_slice(&v.to_be_bytes()),
            }
            desc = format!("set {}={:#x}", f.name, v);
        }
        FaultKind::Truncate(n) => {
            let k = *n as usize % bytes.len().max(1);
            bytes.truncate(k);
            desc = format!("truncate to {}", k);
        }
        FaultKind::Extend(e) => {
            bytes.extend_from_slice(e);
            desc = format!("extend by {}", e.len());
        }
        FaultKind::Xor(v) => {
            for (p, x) in v {
                if !bytes.is_empty() {
                    let i = *p as usize % bytes.len();
                    bytes[i] ^= *x;
                }
            }
            desc = format!("xor {} bytes", v.len());
        }
        FaultKind::ReplaceBody(body) => {
            let mut f = vec![3u8, 0, 0, 0];
            f.extend_from_slice(body);
            let l = f.len().min(0xFFFF);
            f[2] = (l >> 8) as u8;
            f[3] = l as u8;
            bytes = f;
            desc = "replace body".into();
        }
        FaultKind::ReplaceFrame(f) => {
            bytes = f.clone();
            desc = "replace frame".into();
        }
    }
    (bytes, desc)
}

pub struct Server {
    pub profile: ServerProfile,
    pub phase: Phase,
    inbuf: Vec<u8>,
    pub events: Vec<(ClientEvent, Phase)>,
    pub violations: Vec<String>,
    pub notes: Vec<String>,
    remaining_joins: Vec<u16>,
    pub act_idx: usize,
    pub share_id: Option<u32>,
    pub fault: Option<Fault>,
    pub sent: u16,
    /// total client bytes consumed (complete frames)
    pub consumed: usize,
    /// raw TPDUs received, with the phase at arrival
    pub frames: Vec<(Phase, Vec<u8>)>,
}

impl Server {
    pub fn new(profile: ServerProfile) -> Server {
        Server { profile, phase: Phase::ConnectInitial, inbuf: Vec::new(), events: Vec::new(), violations: Vec::new(), notes: Vec::new(), remaining_joins: Vec::new(), act_idx: 0, share_id: None, fault: None, sent: 0, consumed: 0, frames: Vec::new() }
    }

    fn emit(&mut self, out: &mut Vec<OutMsg>, name: &'static str, b: Built) {
        let idx = self.sent;
        self.sent += 1;
        match &self.fault {
            Some(f) if f.message == idx => {
                let (mut bytes, mut desc) = apply_fault(&b, &f.kind);
                if let Some(k2) = &f.kind2 {
                    let b2 = Built { bytes, fields: b.fields.iter().filter(|x| x.off + x.width as usize <= b.bytes.len()).cloned().collect() };
                    let fields_ok: Vec<Field> = b2.fields.iter().filter(|x| x.off + (x.width as usize) <= b2.bytes.len()).cloned().collect();
                    let b3 = Built { bytes: b2.bytes, fields: fields_ok };
                    let (by, d2) = apply_fault(&b3, k2);
                    bytes = by;
                    desc = format!("{} + {}", desc, d2);
                }
                out.push(OutMsg { name, bytes, fields: b.fields, faulted: Some(desc) });
            }
            _ => out.push(OutMsg { name, bytes: b.bytes, fields: b.fields, faulted: None }),
        }
    }

    /// frame a share-control PDU for the I/O channel
    pub fn wrap(&self, share_pdu: &Built) -> Built {
        wire::send_data_indication(self.profile.server_user, self.profile.io_channel, share_pdu)
    }

    pub fn current_share(&self) -> u32 {
        self.share_id.unwrap_or(0)
    }

    /// manual mode helpers: build the frame for one server PDU of the activation alphabet
    pub fn pdu_demand_active(&mut self, d: &DemandActive) -> Built {
        self.share_id = Some(d.share_id);
        self.wrap(&wire::demand_active(d, self.profile.server_user))
    }

    fn violation(&mut self, s: String) {
        if self.violations.len() < 32 {
            self.violations.push(s);
        }
    }

    /// Consume client bytes; returns the frames to send back (in order).
    pub fn feed(&mut self, data: &[u8]) -> Vec<OutMsg> {
        self.inbuf.extend_from_slice(data);
        let mut out = Vec::new();
        loop {
            let buf = std::mem::take(&mut self.inbuf);
            let (frames, used) = match wire::split_tpkt(&buf) {
                Ok(x) => x,
                Err(e) => {
                    self.violation(format!("framing: {}", e.0));
                    self.events.push((ClientEvent::Malformed(e.0), self.phase));
                    self.phase = Phase::Closed;
                    return out;
                }
            };
            if frames.is_empty() {
                self.inbuf = buf;
                return out;
            }
            // process exactly one frame, keep the rest for the dependency rule
            let frame = frames[0].to_vec();
            let first_len = frame.len() + 4;
            let rest_nonempty = buf.len() > first_len;
            self.inbuf = buf[first_len..].to_vec();
            let _ = used;
            self.consumed += first_len;
            if self.frames.len() < 4096 {
                self.frames.push((self.phase, frame.clone()));
            }
            let before = out.len();
            let gating = self.handle(&frame, &mut out);
            if gating && out.len() > before && rest_nonempty {
                let name = out.last().map(|m| m.name).unwrap_or("?");
                self.violation(format!("dependency: the client wrote its next message ({} bytes already received) before it could have read the server's {}", self.inbuf.len(), name));
            }
        }
    }

    /// returns true when the reply produced gates the client's next message
    fn handle(&mut self, tpdu: &[u8], out: &mut Vec<OutMsg>) -> bool {
        // X.224 data header
        if tpdu.len() < 3 || tpdu[0] != 2 || tpdu[1] != 0xF0 || tpdu[2] != 0x80 {
            let m = format!("X.224 data header {:02x?}", &tpdu[..tpdu.len().min(3)]);
            self.violation(m.clone());
            self.events.push((ClientEvent::Malformed(m), self.phase));
            return false;
        }
        let mcs = &tpdu[3..];
        let phase = self.phase;
        if phase == Phase::ConnectInitial {
            match wire::parse_connect_initial(mcs) {
                Ok(ci) => {
                    self.events.push((ClientEvent::ConnectInitial(Box::new(ci)), phase));
                }
                Err(e) => {
                    let m = format!("connect-initial: {}", e.0);
                    self.violation(m.clone());
                    self.events.push((ClientEvent::Malformed(m), phase));
                }
            }
            let user_data = gcc::build_ccrsp(&self.profile.ccrsp);
            let cr = wire::connect_response(0, self.profile.connect_id, self.profile.domain_params, &user_data, self.profile.ber_long);
            let frame = wire::tpkt(&wire::x224_data(&cr));
            self.emit(out, "connect-response", frame);
            self.phase = Phase::ErectDomain;
            return true;
        }
        let pdu = match wire::parse_domain_pdu(mcs) {
            Ok(p) => p,
            Err(e) => {
                let m = format!("MCS domain PDU in phase {:?}: {}", phase, e.0);
                self.violation(m.clone());
                self.events.push((ClientEvent::Malformed(m), phase));
                return false;
            }
        };
        match pdu {
            DomainPdu::ErectDomain { .. } => {
                self.events.push((ClientEvent::ErectDomain, phase));
                if phase != Phase::ErectDomain {
                    self.violation(format!("order: erect-domain in phase {:?}", phase));
                } else {
                    self.phase = Phase::AttachUser;
                }
                false
            }
            DomainPdu::AttachUserRequest => {
                self.events.push((ClientEvent::AttachUser, phase));
                if phase != Phase::AttachUser {
                    self.violation(format!("order: attach-user in phase {:?}", phase));
                    return false;
                }
                let f = wire::attach_user_confirm(0, self.profile.user_id);
                self.emit(out, "attach-user-confirm", f);
                self.remaining_joins = vec![self.profile.user_id, self.profile.io_channel];
                for id in self.profile.ccrsp.blocks.iter() {
                    if let gcc::ScBlock::Net { .. } = id {
                        // static virtual channels are only joined when the client asked for them; the client requests none
                    }
                }
                self.phase = Phase::Joins;
                true
            }
            DomainPdu::ChannelJoinRequest { initiator, channel } => {
                self.events.push((ClientEvent::Join { initiator, channel }, phase));
                if phase != Phase::Joins {
                    self.violation(format!("order: channel-join in phase {:?}", phase));
                    return false;
                }
                if initiator != self.profile.user_id {
                    self.violation(format!("identifier: channel-join initiator {} but the assigned user id is {}", initiator, self.profile.user_id));
                }
                match self.remaining_joins.iter().position(|c| *c == channel) {
                    Some(i) => {
                        self.remaining_joins.remove(i);
                    }
                    None => self.violation(format!("order: join of channel {} (not requested or already joined)", channel)),
                }
                let f = wire::channel_join_confirm(0, initiator, channel, channel);
                self.emit(out, "channel-join-confirm", f);
                if self.remaining_joins.is_empty() {
                    self.phase = Phase::ClientInfo;
                }
                true
            }
            DomainPdu::DisconnectProviderUltimatum { trailing } => {
                self.events.push((ClientEvent::Disconnect { trailing }, phase));
                if trailing > 0 {
                    self.notes.push(format!("disconnect-provider ultimatum followed by {} trailing bytes", trailing));
                }
                self.phase = Phase::Closed;
                false
            }
            DomainPdu::SendDataRequest { initiator, channel, data } => {
                if initiator != self.profile.user_id {
                    self.violation(format!("identifier: send-data initiator {} but the assigned user id is {}", initiator, self.profile.user_id));
                }
                if channel != self.profile.io_channel {
                    self.violation(format!("identifier: send-data on channel {} (I/O channel is {})", channel, self.profile.io_channel));
                }
                if phase == Phase::ClientInfo {
                    match wire::parse_client_info(data) {
                        Ok(info) => self.events.push((ClientEvent::ClientInfo { initiator, channel, info }, phase)),
                        Err(e) => {
                            let m = format!("client info: {}", e.0);
                            self.violation(m.clone());
                            self.events.push((ClientEvent::Malformed(m), phase));
                        }
                    }
                    for fr in self.profile.pre_license.clone() {
                        let mut b = Built::new();
                        b.blob("scripted", &fr);
                        self.emit(out, "pre-license", b);
                    }
                    let lic = wire::license_pdu(&self.profile.license, 0x0080);
                    let f = wire::send_data_indication(self.profile.server_user, self.profile.io_channel, &lic);
                    self.emit(out, "license", f);
                    if self.profile.auto {
                        let d = self.profile.activations[0].clone();
                        let f = self.pdu_demand_active(&d);
                        self.emit(out, "demand-active", f);
                        self.act_idx = 0;
                        self.phase = Phase::Activation(0);
                    } else {
                        self.phase = Phase::Active;
                    }
                    return true;
                }
                if matches!(phase, Phase::ConnectInitial | Phase::ErectDomain | Phase::AttachUser | Phase::Joins) {
                    self.violation(format!("order: send-data request in phase {:?}", phase));
                    self.events.push((ClientEvent::Malformed("early send-data".into()), phase));
                    return false;
                }
                match wire::parse_share_pdu(data) {
                    Err(e) => {
                        let m = format!("share PDU: {}", e.0);
                        self.violation(m.clone());
                        self.events.push((ClientEvent::Malformed(m), phase));
                    }
                    Ok((source, SharePdu::ConfirmActive(ca))) => {
                        if source != self.profile.user_id {
                            self.violation(format!("identifier: confirm-active PDUSource {} but the user id is {}", source, self.profile.user_id));
                        }
                        if Some(ca.share_id) != self.share_id {
                            self.violation(format!("identifier: confirm-active shareId {:#x} but the latest demand-active carried {:#x?}", ca.share_id, self.share_id));
                        }
                        if ca.originator != 0x03EA {
                            self.violation(format!("identifier: confirm-active originatorId {:#x}", ca.originator));
                        }
                        if let Phase::Activation(st) = phase {
                            if st != 0 {
                                self.violation(format!("order: confirm-active at finalization stage {}", st));
                            }
                            self.phase = Phase::Activation(1);
                        }
                        self.events.push((ClientEvent::ConfirmActive { initiator, channel, source, pdu: ca }, phase));
                    }
                    Ok((source, SharePdu::Data { share_id, pdu_type2, body, .. })) => {
                        if source != self.profile.user_id {
                            self.violation(format!("identifier: data PDU PDUSource {} but the user id is {}", source, self.profile.user_id));
                        }
                        if Some(share_id) != self.share_id {
                            self.violation(format!("identifier: data PDU shareId {:#x} but the latest demand-active carried {:#x?}", share_id, self.share_id));
                        }
                        self.events.push((ClientEvent::Data { initiator, channel, source, share_id, pdu_type2, body: body.clone() }, phase));
                        if let Phase::Activation(st) = phase {
                            let sid = self.current_share();
                            let su = self.profile.server_user;
                            let noise = self.profile.finalization_noise;
                            // the reply of this stage, with the ignorable PDUs the profile asks for in front of it
                            let reply = |me: &mut Server, out: &mut Vec<OutMsg>, name: &'static str, pdu: Built| {
                                let wanted = (1..=4).contains(&st) && noise & (1 << (st - 1)) != 0;
                                if !wanted {
                                    let f = me.wrap(&pdu);
                                    me.emit(out, name, f);
                                    return;
                                }
                                let sei = wire::set_error_info(sid, su, 0);
                                let ssi = wire::other_data_pdu(sid, su, 0x26, &[0, 0, 0, 0, 0, 0, 0, 0]);
                                match (noise >> 4) & 3 {
                                    0 => {
                                        let f = me.wrap(&sei);
                                        me.emit(out, "ignorable", f);
                                        let f = me.wrap(&pdu);
                                        me.emit(out, name, f);
                                    }
                                    1 => {
                                        let mut frame = Built::new();
                                        frame.nest("sei", &sei);
                                        frame.nest("reply", &pdu);
                                        let f = me.wrap(&frame);
                                        me.emit(out, name, f);
                                    }
                                    2 => {
                                        let f = me.wrap(&ssi);
                                        me.emit(out, "ignorable", f);
                                        let f = me.wrap(&pdu);
                                        me.emit(out, name, f);
                                    }
                                    _ => {
                                        let f = me.wrap(&sei);
                                        me.emit(out, "ignorable", f);
                                        let f = me.wrap(&ssi);
                                        me.emit(out, "ignorable", f);
                                        let f = me.wrap(&pdu);
                                        me.emit(out, name, f);
                                    }
                                }
                            };
                            let expected = match (st, &body) {
                                (1, DataBody::Synchronize { message_type: 1, .. }) => {
                                    reply(self, out, "synchronize", wire::synchronize(sid, su, self.profile.user_id));
                                    true
                                }
                                (2, DataBody::Control { action: 4, .. }) => {
                                    reply(self, out, "control-cooperate", wire::control(sid, su, 4, 0, 0));
                                    true
                                }
                                (3, DataBody::Control { action: 1, .. }) => {
                                    reply(self, out, "control-granted", wire::control(sid, su, 2, self.profile.user_id, 0x03EA));
                                    true
                                }
                                (4, DataBody::FontList { .. }) => {
                                    reply(self, out, "font-map", wire::font_map(sid, su));
                                    true
                                }
                                _ => false,
                            };
                            if !expected {
                                self.violation(format!("order: at finalization stage {} the client sent {:?}", st, body));
                            } else if st < 4 {
                                self.phase = Phase::Activation(st + 1);
                            } else {
                                // activation complete: next reactivation round or active
                                self.act_idx += 1;
                                if self.act_idx < self.profile.activations.len() {
                                    let dea = wire::deactivate_all(sid, su);
                                    let mut frame = Built::new();
                                    match self.profile.pack_deactivate % 4 {
                                        1 => {
                                            frame.nest("ssi", &wire::other_data_pdu(sid, su, 0x26, &[0, 0, 0, 0, 0, 0, 0, 0]));
                                            frame.nest("dea", &dea);
                                        }
                                        2 => {
                                            frame.nest("dea", &dea);
                                            frame.nest("ssi", &wire::other_data_pdu(sid, su, 0x26, &[0, 0, 0, 0, 0, 0, 0, 0]));
                                        }
                                        3 => {
                                            frame.nest("sei", &wire::set_error_info(sid, su, 0));
                                            frame.nest("dea", &dea);
                                        }
                                        _ => {
                                            frame.nest("dea", &dea);
                                        }
                                    }
                                    let f = self.wrap(&frame);
                                    self.emit(out, "deactivate-all", f);
                                    let d = self.profile.activations[self.act_idx].clone();
                                    let f = self.pdu_demand_active(&d);
                                    self.emit(out, "demand-active", f);
                                    self.phase = Phase::Activation(0);
                                } else {
                                    self.phase = Phase::Active;
                                    for f in self.profile.post_activation.clone() {
                                        let mut b = Built::new();
                                        b.blob("scripted", &f);
                                        self.emit(out, "scripted", b);
                                    }
                                }
                            }
                        }
                    }
                }
                false
            }
        }
    }
}
