//! Strict parsers for everything the client emits and builders (with field maps) for everything a
//! server sends: TPKT, X.224, MCS (BER connect PDUs, PER domain PDUs), security header / info packet,
//! licensing, share control / share data PDUs, capability sets, input PDU, fast-path output.
//! Written from RFC 1006, X.224, T.125, MS-RDPBCGR; independent of the library under test.

use crate::der::{self, Der, LenForm, Node};
use crate::gcc::{self, ClientBlocks};
use crate::per;
use crate::rd::{perr, Built, PResult, ParseError, Rd};

// --------------------------------------------------------------------------------------------
// framing
// --------------------------------------------------------------------------------------------

/// Split a client byte stream into TPKT frames (strict). Returns frames and the number of bytes consumed.
pub fn split_tpkt(data: &[u8]) -> PResult<(Vec<&[u8]>, usize)> {
    let mut frames = Vec::new();
    let mut pos = 0;
    while data.len() - pos >= 4 {
        if data[pos] != 3 {
            return perr(format!("TPKT version byte 0x{:02x} at offset {}", data[pos], pos));
        }
        if data[pos + 1] != 0 {
            return perr(format!("TPKT reserved byte 0x{:02x}", data[pos + 1]));
        }
        let len = ((data[pos + 2] as usize) << 8) | data[pos + 3] as usize;
        if len < 7 {
            return perr(format!("TPKT length {} too small", len));
        }
        if data.len() - pos < len {
            break;
        }
        frames.push(&data[pos + 4..pos + len]);
        pos += len;
    }
    Ok((frames, pos))
}

pub fn tpkt(payload: &Built) -> Built {
    let mut b = Built::new();
    b.u8("tpkt.version", 3);
    b.u8("tpkt.reserved", 0);
    b.u16be("tpkt.length", (payload.bytes.len() + 4) as u16);
    b.nest("tpdu", payload);
    b
}

pub fn x224_data(payload: &Built) -> Built {
    let mut b = Built::new();
    b.u8("x224.li", 2);
    b.u8("x224.code", 0xF0);
    b.u8("x224.eot", 0x80);
    b.nest("mcs", payload);
    b
}

#[derive(Debug, Clone, PartialEq, Eq)]
pub struct ConnectionRequest {
    pub cookie: Option<Vec<u8>>,
    pub neg: Option<(u8, u32)>, // flags, requestedProtocols
}

pub fn parse_connection_request(tpdu: &[u8]) -> PResult<ConnectionRequest> {
    let mut r = Rd::new(tpdu);
    let li = r.u8()? as usize;
    if li != tpdu.len() - 1 {
        return perr(format!("X.224 CR: LI {} but {} bytes follow", li, tpdu.len() - 1));
    }
    let code = r.u8()?;
    if code & 0xF0 != 0xE0 {
        return perr(format!("X.224 CR: code 0x{:02x}", code));
    }
    let dst = r.u16be()?;
    let _src = r.u16be()?;
    let class = r.u8()?;
    if dst != 0 {
        return perr("X.224 CR: DST-REF must be 0");
    }
    if class != 0 {
        return perr("X.224 CR: class must be 0");
    }
    let rest = r.rest();
    let mut cookie = None;
    let mut var = rest;
    if let Some(p) = rest.windows(2).position(|w| w == b"\r\n") {
        if rest.starts_with(b"Cookie: ") || rest.starts_with(b"\x03\x00\x00") {
            cookie = Some(rest[..p].to_vec());
            var = &rest[p + 2..];
        }
    }
    let neg = if var.is_empty() {
        None
    } else {
        let mut v = Rd::new(var);
        let t = v.u8()?;
        if t != 1 {
            return perr(format!("RDP_NEG_REQ: type {}", t));
        }
        let flags = v.u8()?;
        let len = v.u16le()?;
        if len != 8 {
            return perr(format!("RDP_NEG_REQ: length {}", len));
        }
        let p = v.u32le()?;
        // an optional correlation info may follow when flag 0x08 is set
        if flags & 0x08 != 0 {
            let ct = v.u8()?;
            let _f = v.u8()?;
            let l = v.u16le()?;
            if ct != 6 || l != 36 {
                return perr("RDP_NEG_CORRELATION_INFO malformed");
            }
            v.take(32)?;
        }
        v.expect_end("X.224 CR")?;
        Some((flags, p))
    };
    Ok(ConnectionRequest { cookie, neg })
}

#[derive(Debug, Clone, PartialEq, Eq, Hash, serde::Serialize, serde::Deserialize)]
pub enum NegReply {
    /// RDP_NEG_RSP
    Response { flags: u8, selected: u32 },
    /// RDP_NEG_FAILURE
    Failure { flags: u8, code: u32 },
    /// arbitrary type byte with an 8-byte body
    Other { typ: u8, flags: u8, length: u16, value: u32 },
    /// bare connection confirm (no negotiation data)
    Absent,
}

pub fn connection_confirm(reply: &NegReply) -> Built {
    let mut neg = Built::new();
    match reply {
        NegReply::Response { flags, selected } => {
            neg.u8("neg.type", 2).u8("neg.flags", *flags).u16le("neg.length", 8).u32le("neg.selectedProtocol", *selected);
        }
        NegReply::Failure { flags, code } => {
            neg.u8("neg.type", 3).u8("neg.flags", *flags).u16le("neg.length", 8).u32le("neg.failureCode", *code);
        }
        NegReply::Other { typ, flags, length, value } => {
            neg.u8("neg.type", *typ).u8("neg.flags", *flags).u16le("neg.length", *length).u32le("neg.value", *value);
        }
        NegReply::Absent => {}
    }
    let mut b = Built::new();
    b.u8("x224.li", (6 + neg.bytes.len()) as u8);
    b.u8("x224.code", 0xD0);
    b.u16be("x224.dstref", 0);
    b.u16be("x224.srcref", 0x1234);
    b.u8("x224.class", 0);
    b.nest("cc", &neg);
    tpkt(&b)
}

// --------------------------------------------------------------------------------------------
// MCS
// --------------------------------------------------------------------------------------------

#[derive(Debug, Clone, PartialEq, Eq)]
pub struct ConnectInitial {
    pub calling: Vec<u8>,
    pub called: Vec<u8>,
    pub upward: bool,
    pub params: [[i64; 8]; 3],
    pub blocks: ClientBlocks,
}

fn domain_params(d: &Der, r: &mut Rd, what: &str) -> PResult<[i64; 8]> {
    let mut s = d.seq(r, what)?;
    let mut out = [0i64; 8];
    for (i, o) in out.iter_mut().enumerate() {
        *o = d.int(&mut s, &format!("{}[{}]", what, i))?;
        if *o < 0 {
            return perr(format!("{}[{}] negative", what, i));
        }
    }
    s.expect_end(what)?;
    Ok(out)
}

pub fn parse_connect_initial(mcs: &[u8]) -> PResult<ConnectInitial> {
    let d = Der { strict: false };
    let mut r = Rd::new(mcs);
    let mut ci = d.app(&mut r, 101, "Connect-Initial")?;
    r.expect_end("Connect-Initial")?;
    let calling = d.octets(&mut ci, "callingDomainSelector")?.to_vec();
    let called = d.octets(&mut ci, "calledDomainSelector")?.to_vec();
    let upward = d.boolean(&mut ci, "upwardFlag")?;
    let t = domain_params(&d, &mut ci, "targetParameters")?;
    let mi = domain_params(&d, &mut ci, "minimumParameters")?;
    let ma = domain_params(&d, &mut ci, "maximumParameters")?;
    let ud = d.octets(&mut ci, "userData")?;
    ci.expect_end("Connect-Initial body")?;
    let user = gcc::parse_ccrq(ud)?;
    let blocks = gcc::parse_client_blocks(user)?;
    Ok(ConnectInitial { calling, called, upward, params: [t, mi, ma], blocks })
}

pub fn connect_response(result: u8, connect_id: u32, params: [u32; 8], user_data: &Built, long_form: u8) -> Built {
    // build with the DER helper for the scalar parts, but keep a field map for the user data
    let form = if long_form == 0 { LenForm::Minimal } else { LenForm::Long(long_form) };
    let mut body = Built::new();
    body.blob("result", &der::encode(&Node::Enum(result as i64), form));
    body.blob("calledConnectId", &der::encode(&Node::Int(connect_id), form));
    body.blob("domainParameters", &der::encode(&Node::Seq(params.iter().map(|p| Node::Int(*p)).collect()), form));
    let mut hdr = vec![0x04u8];
    der::put_len(&mut hdr, user_data.bytes.len(), form);
    body.blob("userData.hdr", &hdr);
    body.nest("gcc", user_data);
    let mut out = Built::new();
    let mut h = der::app_tag(102);
    der::put_len(&mut h, body.bytes.len(), form);
    out.blob("connectResponse.hdr", &h);
    out.nest("cr", &body);
    out
}

#[derive(Debug, Clone, PartialEq, Eq)]
pub enum DomainPdu<'a> {
    ErectDomain { sub_height: u32, sub_interval: u32 },
    AttachUserRequest,
    ChannelJoinRequest { initiator: u16, channel: u16 },
    SendDataRequest { initiator: u16, channel: u16, data: &'a [u8] },
    DisconnectProviderUltimatum { trailing: usize },
}

pub fn parse_domain_pdu(mcs: &[u8]) -> PResult<DomainPdu> {
    let mut r = Rd::new(mcs);
    let h = r.u8()?;
    match h >> 2 {
        1 => {
            let a = per::read_integer(&mut r)?;
            let b = per::read_integer(&mut r)?;
            r.expect_end("ErectDomainRequest")?;
            Ok(DomainPdu::ErectDomain { sub_height: a, sub_interval: b })
        }
        10 => {
            r.expect_end("AttachUserRequest")?;
            Ok(DomainPdu::AttachUserRequest)
        }
        14 => {
            if h & 3 != 0 {
                return perr("ChannelJoinRequest: extension bits set");
            }
            let initiator = per::read_integer16(&mut r, 1001)?;
            let channel = r.u16be()?;
            r.expect_end("ChannelJoinRequest")?;
            Ok(DomainPdu::ChannelJoinRequest { initiator, channel })
        }
        25 => {
            let initiator = per::read_integer16(&mut r, 1001)?;
            let channel = r.u16be()?;
            let prio = r.u8()?;
            if prio & 0x30 != 0x30 {
                return perr(format!("SendDataRequest: segmentation 0x{:02x} (begin|end expected)", prio));
            }
            let len = per::read_length_strict(&mut r)?;
            if len != r.remaining() {
                return perr(format!("SendDataRequest: length {} but {} bytes follow", len, r.remaining()));
            }
            Ok(DomainPdu::SendDataRequest { initiator, channel, data: r.rest() })
        }
        8 => {
            // reason is the next 3 bits: 0x21 0x80 = rn-user-requested
            let b = r.u8()?;
            if h != 0x21 || b & 0x80 == 0 {
                return perr(format!("DisconnectProviderUltimatum: {:02x} {:02x}", h, b));
            }
            Ok(DomainPdu::DisconnectProviderUltimatum { trailing: r.remaining() })
        }
        other => perr(format!("unexpected DomainMCSPDU choice {}", other)),
    }
}

pub fn attach_user_confirm(result: u8, initiator: u16) -> Built {
    let mut b = Built::new();
    b.u8("mcs.header", 0x2E);
    b.u8("mcs.result", result);
    b.u16be("mcs.initiator", initiator.wrapping_sub(1001));
    tpkt(&x224_data(&b))
}

pub fn channel_join_confirm(result: u8, initiator: u16, requested: u16, channel: u16) -> Built {
    let mut b = Built::new();
    b.u8("mcs.header", 0x3E);
    b.u8("mcs.result", result);
    b.u16be("mcs.initiator", initiator.wrapping_sub(1001));
    b.u16be("mcs.requested", requested);
    b.u16be("mcs.channelId", channel);
    tpkt(&x224_data(&b))
}

pub fn send_data_indication(initiator: u16, channel: u16, payload: &Built) -> Built {
    let mut b = Built::new();
    b.u8("mcs.header", 0x68);
    b.u16be("mcs.initiator", initiator.wrapping_sub(1001));
    b.u16be("mcs.channelId", channel);
    b.u8("mcs.dataPriority", 0x70);
    let mut l = Vec::new();
    per::write_length(&mut l, payload.bytes.len().min(0x7FFF));
    b.blob("mcs.length", &l);
    b.nest("data", payload);
    tpkt(&x224_data(&b))
}

pub fn disconnect_provider_ultimatum() -> Built {
    let mut b = Built::new();
    b.u8("mcs.header", 0x21);
    b.u8("mcs.reason", 0x80);
    tpkt(&x224_data(&b))
}

// --------------------------------------------------------------------------------------------
// Security header, Client Info, licensing
// --------------------------------------------------------------------------------------------

#[derive(Debug, Clone, PartialEq, Eq)]
pub struct InfoPacket {
    pub code_page: u32,
    pub flags: u32,
    pub domain: Vec<u16>,
    pub user: Vec<u16>,
    pub password: Vec<u16>,
    pub shell: Vec<u16>,
    pub working_dir: Vec<u16>,
    pub extended: Option<ExtendedInfo>,
}

#[derive(Debug, Clone, PartialEq, Eq)]
pub struct ExtendedInfo {
    pub address_family: u16,
    pub address: Vec<u16>,
    pub dir: Vec<u16>,
    pub session_id: u32,
    pub performance_flags: u32,
}

pub const INFO_UNICODE: u32 = 0x10;
pub const INFO_AUTOLOGON: u32 = 0x08;

fn units(b: &[u8]) -> Vec<u16> {
    b.chunks(2).map(|c| c[0] as u16 | ((*c.get(1).unwrap_or(&0) as u16) << 8)).collect()
}

fn info_string(r: &mut Rd, cb: usize, what: &str) -> PResult<Vec<u16>> {
    // cb excludes the mandatory 2-byte terminator
    if cb % 2 != 0 {
        return perr(format!("{}: odd byte count {}", what, cb));
    }
    let s = r.take(cb).map_err(|e| ParseError(format!("{}: {}", what, e.0)))?;
    let t = r.u16le().map_err(|e| ParseError(format!("{} terminator: {}", what, e.0)))?;
    if t != 0 {
        return perr(format!("{}: terminator is 0x{:04x}", what, t));
    }
    let u = units(s);
    if u.contains(&0) {
        return perr(format!("{}: embedded NUL inside the counted part", what));
    }
    Ok(u)
}

fn ext_string(r: &mut Rd, what: &str) -> PResult<Vec<u16>> {
    // cb includes the mandatory terminator
    let cb = r.u16le()? as usize;
    if cb < 2 || cb % 2 != 0 {
        return perr(format!("{}: byte count {} must include the 2-byte terminator", what, cb));
    }
    let s = r.take(cb).map_err(|e| ParseError(format!("{}: {}", what, e.0)))?;
    let u = units(s);
    if *u.last().unwrap() != 0 {
        return perr(format!("{}: not NUL terminated", what));
    }
    Ok(u[..u.len() - 1].to_vec())
}

/// payload = security header + TS_INFO_PACKET
pub fn parse_client_info(data: &[u8]) -> PResult<InfoPacket> {
    let mut r = Rd::new(data);
    let flags = r.u16le()?;
    let _hi = r.u16le()?;
    if flags & 0x0040 == 0 {
        return perr(format!("security header flags 0x{:04x}: SEC_INFO_PKT missing", flags));
    }
    if flags & 0x0008 != 0 {
        return perr("SEC_ENCRYPT set on a TLS connection");
    }
    let code_page = r.u32le()?;
    let iflags = r.u32le()?;
    if iflags & INFO_UNICODE == 0 {
        return perr("INFO_UNICODE not set (strings are UTF-16)");
    }
    let cb_domain = r.u16le()? as usize;
    let cb_user = r.u16le()? as usize;
    let cb_pass = r.u16le()? as usize;
    let cb_shell = r.u16le()? as usize;
    let cb_dir = r.u16le()? as usize;
    let domain = info_string(&mut r, cb_domain, "Domain")?;
    let user = info_string(&mut r, cb_user, "UserName")?;
    let password = info_string(&mut r, cb_pass, "Password")?;
    let shell = info_string(&mut r, cb_shell, "AlternateShell")?;
    let working_dir = info_string(&mut r, cb_dir, "WorkingDir")?;
    let extended = if r.at_end() {
        None
    } else {
        let af = r.u16le()?;
        if af != 2 && af != 0x17 && af != 0 {
            return perr(format!("clientAddressFamily 0x{:04x}", af));
        }
        let address = ext_string(&mut r, "clientAddress")?;
        let dir = ext_string(&mut r, "clientDir")?;
        r.take(172).map_err(|e| ParseError(format!("clientTimeZone: {}", e.0)))?;
        let session_id = r.u32le()?;
        let performance_flags = r.u32le()?;
        if !r.at_end() {
            let cb = r.u16le()? as usize;
            r.take(cb)?;
            // reserved1/2, dynamic time zone… : accept whole trailing fields only loosely
            let _ = r.rest();
        }
        Some(ExtendedInfo { address_family: af, address, dir, session_id, performance_flags })
    };
    r.expect_end("TS_INFO_PACKET")?;
    Ok(InfoPacket { code_page, flags: iflags, domain, user, password, shell, working_dir, extended })
}

#[derive(Debug, Clone, PartialEq, Eq, Hash, serde::Serialize, serde::Deserialize)]
pub enum License {
    /// ERROR_ALERT with STATUS_VALID_CLIENT / ST_NO_TRANSITION
    ValidClient { blob_type: u16, blob: Vec<u8> },
    /// NEW_LICENSE with an opaque body
    NewLicense { body: Vec<u8> },
    /// anything else (hostile / non-accepting)
    Custom { msg_type: u8, flags: u8, error: u32, transition: u32, blob_type: u16, blob: Vec<u8> },
}

pub fn license_pdu(l: &License, sec_flags: u16) -> Built {
    let mut body = Built::new();
    let (msg_type, pflags) = match l {
        License::ValidClient { blob_type, blob } => {
            body.u32le("dwErrorCode", 7).u32le("dwStateTransition", 2).u16le("wBlobType", *blob_type).u16le("wBlobLen", blob.len() as u16).blob("blobData", blob);
            (0xFFu8, 0x03u8)
        }
        License::NewLicense { body: b } => {
            body.blob("newLicense", b);
            (0x03, 0x03)
        }
        License::Custom { msg_type, flags, error, transition, blob_type, blob } => {
            body.u32le("dwErrorCode", *error).u32le("dwStateTransition", *transition).u16le("wBlobType", *blob_type).u16le("wBlobLen", blob.len() as u16).blob("blobData", blob);
            (*msg_type, *flags)
        }
    };
    let mut b = Built::new();
    b.u16le("sec.flags", sec_flags);
    b.u16le("sec.flagsHi", 0);
    b.u8("lic.bMsgType", msg_type);
    b.u8("lic.flags", pflags);
    b.u16le("lic.wMsgSize", (body.bytes.len() + 4) as u16);
    b.nest("lic", &body);
    b
}

// --------------------------------------------------------------------------------------------
// Share control / share data
// --------------------------------------------------------------------------------------------

pub const PDUTYPE_DEMAND_ACTIVE: u16 = 0x11;
pub const PDUTYPE_CONFIRM_ACTIVE: u16 = 0x13;
pub const PDUTYPE_DEACTIVATE_ALL: u16 = 0x16;
pub const PDUTYPE_DATA: u16 = 0x17;

pub fn share_control(pdu_type: u16, source: u16, body: &Built) -> Built {
    let mut b = Built::new();
    b.u16le("sc.totalLength", (body.bytes.len() + 6) as u16);
    b.u16le("sc.pduType", pdu_type);
    b.u16le("sc.pduSource", source);
    b.nest("pdu", body);
    b
}

pub fn share_data(share_id: u32, source: u16, pdu_type2: u8, payload: &Built) -> Built {
    let mut b = Built::new();
    b.u32le("sd.shareId", share_id);
    b.u8("sd.pad1", 0);
    b.u8("sd.streamId", 1);
    // the captured server PDUs in the repository carry uncompressedLength == totalLength
    b.u16le("sd.uncompressedLength", (payload.bytes.len() + 18) as u16);
    b.u8("sd.pduType2", pdu_type2);
    b.u8("sd.compressedType", 0);
    b.u16le("sd.compressedLength", 0);
    b.nest("body", payload);
    share_control(PDUTYPE_DATA, source, &b)
}

#[derive(Debug, Clone, PartialEq, Eq, Hash, serde::Serialize, serde::Deserialize)]
pub struct DemandActive {
    pub share_id: u32,
    pub source: Vec<u8>,
    pub caps: Vec<(u16, Vec<u8>)>,
    pub session_id: u32,
}

pub fn demand_active(d: &DemandActive, pdu_source: u16) -> Built {
    let mut caps = Built::new();
    for (i, (t, body)) in d.caps.iter().enumerate() {
        let mut c = Built::new();
        c.u16le("capabilitySetType", *t);
        c.u16le("lengthCapability", (body.len() + 4) as u16);
        c.blob("capabilityData", body);
        caps.nest(&format!("cap{}", i), &c);
    }
    let mut b = Built::new();
    b.u32le("da.shareId", d.share_id);
    b.u16le("da.lengthSourceDescriptor", d.source.len() as u16);
    b.u16le("da.lengthCombinedCapabilities", (caps.bytes.len() + 4) as u16);
    b.blob("da.sourceDescriptor", &d.source);
    b.u16le("da.numberCapabilities", d.caps.len() as u16);
    b.u16le("da.pad2Octets", 0);
    b.nest("da.caps", &caps);
    b.u32le("da.sessionId", d.session_id);
    let mut out = share_control(PDUTYPE_DEMAND_ACTIVE, pdu_source, &b);
    // the 16-bit words of every capability body as fields of their own, appended after the
    // structural fields so that the indices of those stay what they were
    let mut words = Vec::new();
    for (i, (_, body)) in d.caps.iter().enumerate() {
        let suffix = format!("cap{}.capabilityData", i);
        if let Some(f) = out.fields.iter().find(|f| f.name.ends_with(&suffix)) {
            for j in 0..body.len() / 2 {
                words.push(crate::rd::Field { name: format!("{}.w{}", f.name, j), off: f.off + 2 * j, width: 2, be: false });
            }
            if body.len() % 2 == 1 {
                words.push(crate::rd::Field { name: format!("{}.b{}", f.name, body.len() - 1), off: f.off + body.len() - 1, width: 1, be: false });
            }
        }
    }
    out.fields.extend(words);
    out
}

pub fn deactivate_all(share_id: u32, pdu_source: u16) -> Built {
    let mut b = Built::new();
    b.u32le("dea.shareId", share_id);
    b.u16le("dea.lengthSourceDescriptor", 1);
    b.blob("dea.sourceDescriptor", &[0]);
    share_control(PDUTYPE_DEACTIVATE_ALL, pdu_source, &b)
}

pub fn synchronize(share_id: u32, source: u16, target: u16) -> Built {
    let mut p = Built::new();
    p.u16le("sync.messageType", 1).u16le("sync.targetUser", target);
    share_data(share_id, source, 0x1F, &p)
}

pub fn control(share_id: u32, source: u16, action: u16, grant: u16, control_id: u32) -> Built {
    let mut p = Built::new();
    p.u16le("ctl.action", action).u16le("ctl.grantId", grant).u32le("ctl.controlId", control_id);
    share_data(share_id, source, 0x14, &p)
}

pub fn font_map(share_id: u32, source: u16) -> Built {
    let mut p = Built::new();
    p.u16le("fm.numberEntries", 0).u16le("fm.totalNumEntries", 0).u16le("fm.mapFlags", 3).u16le("fm.entrySize", 4);
    share_data(share_id, source, 0x28, &p)
}

pub fn set_error_info(share_id: u32, source: u16, code: u32) -> Built {
    let mut p = Built::new();
    p.u32le("err.errorInfo", code);
    share_data(share_id, source, 0x2F, &p)
}

pub fn other_data_pdu(share_id: u32, source: u16, pdu_type2: u8, body: &[u8]) -> Built {
    let mut p = Built::new();
    p.blob("other.body", body);
    share_data(share_id, source, pdu_type2, &p)
}

/// spec sizes (whole capability set, header included) of the capability sets a client may send
pub fn capability_size_ok(typ: u16, total: usize) -> Option<bool> {
    Some(match typ {
        0x0001 => total == 24,
        0x0002 => total == 28,
        0x0003 => total == 88,
        0x0004 => total == 40,
        0x0005 => total == 12,
        0x0007 => total == 12,
        0x0008 => total == 8 || total == 10,
        0x0009 => total == 8,
        0x000A => total == 8,
        0x000C => total == 8,
        0x000D => total == 88,
        0x000E => total == 8 || total == 4,
        0x000F => total == 8,
        0x0010 => total == 52,
        0x0011 => total == 12,
        0x0012 => total == 8,
        0x0013 => total == 40,
        0x0014 => total == 8 || total == 12,
        0x0015 => total == 12,
        0x0016 => total == 40,
        0x0017 => total == 8,
        0x0018 => total == 11,
        0x0019 => total == 6,
        0x001A => total == 8,
        0x001B => total == 6,
        0x001C => total == 12,
        0x001D => total >= 5,
        0x001E => total == 8,
        _ => return None,
    })
}

#[derive(Debug, Clone, PartialEq, Eq)]
pub struct ConfirmActive {
    pub share_id: u32,
    pub originator: u16,
    pub source: Vec<u8>,
    pub caps: Vec<(u16, Vec<u8>)>,
}

#[derive(Debug, Clone, PartialEq, Eq)]
pub enum InputEvent {
    Mouse { time: u32, flags: u16, x: u16, y: u16 },
    Scancode { time: u32, flags: u16, code: u16, pad: u16 },
    Other { time: u32, typ: u16, data: Vec<u8> },
}

#[derive(Debug, Clone, PartialEq, Eq)]
pub enum DataBody {
    Synchronize { message_type: u16, target: u16 },
    Control { action: u16, grant: u16, control: u32 },
    FontList { number: u16, total: u16, flags: u16, entry_size: u16 },
    Input(Vec<InputEvent>),
    Other(Vec<u8>),
}

#[derive(Debug, Clone, PartialEq, Eq)]
pub enum SharePdu {
    ConfirmActive(ConfirmActive),
    Data { share_id: u32, stream_id: u8, pdu_type2: u8, body: DataBody },
}

/// Strict parser of one share control PDU sent by the client (returns pduSource too)
pub fn parse_share_pdu(data: &[u8]) -> PResult<(u16, SharePdu)> {
    let mut r = Rd::new(data);
    let total = r.u16le()? as usize;
    if total != data.len() {
        return perr(format!("shareControlHeader.totalLength {} but the PDU has {} bytes", total, data.len()));
    }
    let t = r.u16le()?;
    if t & 0xFFF0 != 0x0010 {
        return perr(format!("shareControlHeader.pduType 0x{:04x}: protocol version must be 1", t));
    }
    let source = r.u16le()?;
    match t & 0xF {
        3 => {
            let share_id = r.u32le()?;
            let originator = r.u16le()?;
            let lsd = r.u16le()? as usize;
            let lcc = r.u16le()? as usize;
            let src = r.take(lsd).map_err(|e| ParseError(format!("sourceDescriptor: {}", e.0)))?.to_vec();
            if lcc != r.remaining() {
                return perr(format!("confirm active: lengthCombinedCapabilities {} but {} bytes follow", lcc, r.remaining()));
            }
            let n = r.u16le()? as usize;
            let _pad = r.u16le()?;
            let mut caps = Vec::new();
            while !r.at_end() {
                let ct = r.u16le()?;
                let cl = r.u16le()? as usize;
                if cl < 4 {
                    return perr(format!("capability 0x{:04x}: lengthCapability {}", ct, cl));
                }
                let body = r.take(cl - 4).map_err(|e| ParseError(format!("capability 0x{:04x} length {}: {}", ct, cl, e.0)))?;
                match capability_size_ok(ct, cl) {
                    Some(true) => {}
                    Some(false) => return perr(format!("capability 0x{:04x}: lengthCapability {} is not the specified size", ct, cl)),
                    None => return perr(format!("capability type 0x{:04x} unknown", ct)),
                }
                caps.push((ct, body.to_vec()));
            }
            if n != caps.len() {
                return perr(format!("confirm active: numberCapabilities {} but {} capability sets", n, caps.len()));
            }
            Ok((source, SharePdu::ConfirmActive(ConfirmActive { share_id, originator, source: src, caps })))
        }
        7 => {
            let share_id = r.u32le()?;
            let _pad1 = r.u8()?;
            let stream_id = r.u8()?;
            let ulen = r.u16le()? as usize;
            let t2 = r.u8()?;
            let ctype = r.u8()?;
            let clen = r.u16le()?;
            let payload = r.rest();
            // two accepted conventions for uncompressedLength (DESIGN §4.5)
            if ulen != total && ulen != payload.len() + 4 {
                return perr(format!("shareDataHeader.uncompressedLength {} (totalLength {}, payload {})", ulen, total, payload.len()));
            }
            if ctype != 0 || clen != 0 {
                return perr("shareDataHeader: compression announced by a client that does not compress");
            }
            let mut p = Rd::new(payload);
            let body = match t2 {
                0x1F => {
                    let m = p.u16le()?;
                    let t = p.u16le()?;
                    p.expect_end("synchronize PDU")?;
                    DataBody::Synchronize { message_type: m, target: t }
                }
                0x14 => {
                    let a = p.u16le()?;
                    let g = p.u16le()?;
                    let c = p.u32le()?;
                    p.expect_end("control PDU")?;
                    DataBody::Control { action: a, grant: g, control: c }
                }
                0x27 => {
                    let a = p.u16le()?;
                    let b = p.u16le()?;
                    let c = p.u16le()?;
                    let d = p.u16le()?;
                    p.expect_end("font list PDU")?;
                    DataBody::FontList { number: a, total: b, flags: c, entry_size: d }
                }
                0x1C => {
                    let n = p.u16le()? as usize;
                    let _pad = p.u16le()?;
                    let mut ev = Vec::new();
                    while !p.at_end() {
                        let time = p.u32le()?;
                        let typ = p.u16le()?;
                        match typ {
                            0x8001 | 0x8002 => ev.push(InputEvent::Mouse { time, flags: p.u16le()?, x: p.u16le()?, y: p.u16le()? }),
                            0x0004 | 0x0005 => ev.push(InputEvent::Scancode { time, flags: p.u16le()?, code: p.u16le()?, pad: p.u16le()? }),
                            0x0000 => ev.push(InputEvent::Other { time, typ, data: p.take(6)?.to_vec() }),
                            _ => return perr(format!("input event type 0x{:04x}", typ)),
                        }
                    }
                    if n != ev.len() {
                        return perr(format!("input PDU: numEvents {} but {} events", n, ev.len()));
                    }
                    DataBody::Input(ev)
                }
                _ => DataBody::Other(payload.to_vec()),
            };
            Ok((source, SharePdu::Data { share_id, stream_id, pdu_type2: t2, body }))
        }
        other => perr(format!("unexpected share PDU type {} from a client", other)),
    }
}

// --------------------------------------------------------------------------------------------
// fast-path output (server -> client)
// --------------------------------------------------------------------------------------------

#[derive(Debug, Clone, PartialEq, Eq, Hash, serde::Serialize, serde::Deserialize)]
pub struct Rect {
    pub left: u16,
    pub top: u16,
    pub right: u16,
    pub bottom: u16,
    pub width: u16,
    pub height: u16,
    pub bpp: u16,
    pub flags: u16,
    /// TS_CD_HEADER fields (first row size is always 0) when flags has COMPRESSION and not NO_HDR
    pub cd_scan_width: u16,
    pub cd_uncompressed: u16,
    pub data: Vec<u8>,
}

#[derive(Debug, Clone, PartialEq, Eq, Hash, serde::Serialize, serde::Deserialize)]
pub enum FpUpdate {
    Bitmap(Vec<Rect>),
    Synchronize,
    PointerNull,
    PointerDefault,
    ColorPointer { cache: u16, hot: u32, width: u16, height: u16, and_mask: Vec<u8>, xor_mask: Vec<u8>, pad: bool },
    /// any other update code with an opaque body
    Other { code: u8, body: Vec<u8> },
}

pub fn rect_has_cd_header(flags: u16) -> bool {
    flags & 0x0001 != 0 && flags & 0x0400 == 0
}

pub fn fp_update(u: &FpUpdate) -> Built {
    let mut body = Built::new();
    let code = match u {
        FpUpdate::Bitmap(rects) => {
            body.u16le("updateType", 1);
            body.u16le("numberRectangles", rects.len() as u16);
            for (i, r) in rects.iter().enumerate() {
                let mut b = Built::new();
                b.u16le("destLeft", r.left).u16le("destTop", r.top).u16le("destRight", r.right).u16le("destBottom", r.bottom);
                b.u16le("width", r.width).u16le("height", r.height).u16le("bitsPerPixel", r.bpp).u16le("flags", r.flags);
                if rect_has_cd_header(r.flags) {
                    b.u16le("bitmapLength", (r.data.len() + 8) as u16);
                    b.u16le("cbCompFirstRowSize", 0).u16le("cbCompMainBodySize", r.data.len() as u16).u16le("cbScanWidth", r.cd_scan_width).u16le("cbUncompressedSize", r.cd_uncompressed);
                } else {
                    b.u16le("bitmapLength", r.data.len() as u16);
                }
                b.blob("bitmapDataStream", &r.data);
                body.nest(&format!("rect{}", i), &b);
            }
            1u8
        }
        FpUpdate::Synchronize => 3,
        FpUpdate::PointerNull => 5,
        FpUpdate::PointerDefault => 6,
        FpUpdate::ColorPointer { cache, hot, width, height, and_mask, xor_mask, pad } => {
            body.u16le("cacheIndex", *cache).u32le("hotSpot", *hot).u16le("width", *width).u16le("height", *height);
            body.u16le("lengthAndMask", and_mask.len() as u16).u16le("lengthXorMask", xor_mask.len() as u16);
            body.blob("xorMaskData", xor_mask).blob("andMaskData", and_mask);
            if *pad {
                body.u8("pad", 0);
            }
            9
        }
        FpUpdate::Other { code, body: b } => {
            body.blob("body", b);
            *code & 0x0F
        }
    };
    let mut b = Built::new();
    b.u8("updateHeader", code);
    b.u16le("size", body.bytes.len() as u16);
    b.nest("data", &body);
    b
}

/// one fast-path output PDU; `long_len` forces the two-byte length form; `first` supplies numEvents/flags bits
pub fn fast_path_pdu(updates: &[FpUpdate], first: u8, long_len: bool) -> Built {
    let mut body = Built::new();
    for (i, u) in updates.iter().enumerate() {
        body.nest(&format!("update{}", i), &fp_update(u));
    }
    let mut b = Built::new();
    b.u8("fp.header", first & 0xFC);
    let short_total = body.bytes.len() + 2;
    if !long_len && short_total < 0x80 {
        b.u8("fp.length1", short_total as u8);
    } else {
        let total = body.bytes.len() + 3;
        b.u8("fp.length1", 0x80 | ((total >> 8) & 0x7F) as u8);
        b.u8("fp.length2", (total & 0xFF) as u8);
    }
    b.nest("fp", &body);
    b
}

/// The repository's captured demand-active capability sets (test_demand_active_pdu), used as the "known real server" sample.
/// BER / DER length-form mutations: for every TLV header found by walking `bytes` from `start` (descending into constructed
/// elements), copies of `bytes` in which that header's length octets are replaced by long forms of 1..=8 octets (and the reserved
/// 0xFF, and the indefinite 0x80) holding the true length (non-minimal), all ones, 0x7F.., 0x80 00.., and true length + 1.
/// Enclosing lengths are left as they are: every parser on the way must cope with both the value and the inconsistency.
pub fn der_length_mutations(bytes: &[u8], start: usize) -> Vec<Vec<u8>> {
    fn walk(b: &[u8], mut pos: usize, end: usize, depth: usize, out: &mut Vec<(usize, usize, usize)>) {
        while pos + 2 <= end && depth < 12 {
            let tag = b[pos];
            let mut p = pos + 1;
            if tag & 0x1F == 0x1F {
                while p < end && b[p] & 0x80 != 0 {
                    p += 1;
                }
                p += 1;
            }
            if p >= end {
                return;
            }
            let l0 = b[p];
            let (len, lsize) = if l0 < 0x80 {
                (l0 as usize, 1)
            } else {
                let n = (l0 & 0x7F) as usize;
                if n == 0 || n > 4 || p + 1 + n > end {
                    return;
                }
                (b[p + 1..p + 1 + n].iter().fold(0usize, |a, x| (a << 8) | *x as usize), 1 + n)
            };
            out.push((p, lsize, len));
            let body = p + lsize;
            if body + len > end {
                return;
            }
            if tag & 0x20 != 0 {
                walk(b, body, body + len, depth + 1, out);
            }
            pos = body + len;
        }
    }
    let mut hdrs = Vec::new();
    walk(bytes, start, bytes.len(), 0, &mut hdrs);
    let mut v = Vec::new();
    for (p, lsize, len) in hdrs {
        let mut forms: Vec<Vec<u8>> = vec![vec![0x80], vec![0xFF]];
        for n in 1..=8usize {
            let be = |x: u64| -> Vec<u8> { (0..n).map(|i| (x >> (8 * (n - 1 - i))) as u8).collect() };
            let max = if n == 8 { u64::MAX } else { (1u64 << (8 * n)) - 1 };
            for val in [len as u64 & max, max, max >> 1, (max >> 1) + 1, (len as u64 + 1) & max] {
                let mut f = vec![0x80 | n as u8];
                f.extend_from_slice(&be(val));
                forms.push(f);
            }
        }
        for f in forms {
            let mut m = bytes[..p].to_vec();
            m.extend_from_slice(&f);
            m.extend_from_slice(&bytes[p + lsize..]);
            v.push(m);
        }
    }
    v
}

pub fn sample_server_caps() -> Vec<(u16, Vec<u8>)> {
    const V: [u8; 431] = [
        9, 0, 8, 0, 234, 3, 0, 0, 1, 0, 24, 0, 1, 0, 3, 0, 0, 2, 0, 0, 0, 0, 29, 4, 0, 0, 0, 0, 0, 0, 1, 1, 20, 0, 12, 0, 2, 0, 0, 0, 64, 6, 0, 0, 10, 0, 8, 0, 6, 0, 0, 0, 8, 0, 10, 0, 1, 0, 25, 0, 25, 0, 27, 0, 6, 0, 3, 0, 14, 0, 8, 0, 1, 0, 0, 0, 2, 0, 28, 0, 32, 0, 1, 0, 1, 0, 1, 0, 32, 3, 88, 2, 0, 0, 1, 0, 1, 0, 0, 30, 1, 0, 0, 0, 29, 0, 96, 0, 4, 185, 27, 141, 202, 15, 0, 79, 21, 88, 159, 174, 45, 26, 135, 226, 214, 0, 3, 0, 1, 1, 3, 18, 47, 119, 118, 114, 189, 99, 68, 175, 179, 183, 60, 156, 111, 120, 134, 0, 4, 0, 0, 0, 0, 0, 166, 81, 67, 156, 53, 53, 174, 66, 145, 12, 205, 252, 229, 118, 11, 88, 0, 4, 0, 0, 0, 0, 0, 212, 204, 68, 39, 138, 157, 116, 78, 128, 60, 14, 203, 238, 161, 156, 84, 0, 4, 0, 0, 0, 0, 0, 3, 0, 88, 0, 0, 0, 0, 0, 0, 0, 0, 0, 0, 0, 0, 0, 0, 0, 0, 0, 64, 66, 15, 0, 1, 0, 20, 0, 0, 0, 1, 0, 0, 0, 170, 0, 1, 1, 1, 1, 1, 0, 0, 0, 1, 0, 0, 1, 0, 0, 0, 1, 1, 1, 1, 1, 1, 1, 1, 0, 1, 1, 1, 1, 0, 0, 0, 0, 161, 6, 6, 0, 64, 66, 15, 0, 64, 66, 15, 0, 1, 0, 0, 0, 0, 0, 0, 0, 18, 0, 8, 0, 1, 0, 0, 0, 13, 0, 88, 0, 117, 3, 0, 0, 0, 0, 0, 0, 0, 0, 0, 0, 0, 0, 0, 0, 0, 0, 0, 0, 0, 0, 0, 0, 0, 0, 0, 0, 0, 0, 0, 0, 0, 0, 0, 0, 0, 0, 0, 0, 0, 0, 0, 0, 0, 0, 0, 0, 0, 0, 0, 0, 0, 0, 0, 0, 0, 0, 0, 0, 0, 0, 0, 0, 0, 0, 0, 0, 0, 0, 0, 0, 0, 0, 0, 0, 0, 0, 0, 0, 0, 0, 0, 0, 23, 0, 8, 0, 255, 0, 0, 0, 24, 0, 11, 0, 2, 0, 0, 0, 3, 12, 0, 26, 0, 8, 0, 43, 72, 9, 0, 28, 0, 12, 0, 82, 0, 0, 0, 0, 0, 0, 0, 30, 0, 8, 0, 0, 0, 0, 0
    ];
    let mut r = Rd::new(&V);
    let mut caps = Vec::new();
    while r.remaining() >= 4 {
        let t = r.u16le().unwrap();
        let l = r.u16le().unwrap() as usize;
        if l < 4 || r.remaining() < l - 4 {
            break;
        }
        caps.push((t, r.take(l - 4).unwrap().to_vec()));
    }
    caps
}

#[cfg(test)]
mod test {
    use super::*;
    #[test]
    fn sample_caps_parse() {
        let c = sample_server_caps();
        assert_eq!(c.len(), 17);
        assert_eq!(c[0].0, 9);
        assert_eq!(c[16].0, 30);
    }
    #[test]
    fn repo_vectors() {
        // the repository's own fixed client vectors must be accepted by the strict parsers
        let cr = [14u8, 224, 0, 0, 0, 0, 0, 1, 0, 8, 0, 3, 0, 0, 0];
        let r = parse_connection_request(&cr).unwrap();
        assert_eq!(r.neg, Some((0, 3)));
        assert_eq!(parse_domain_pdu(&[4, 1, 0, 1, 0]).unwrap(), DomainPdu::ErectDomain { sub_height: 0, sub_interval: 0 });
        assert_eq!(parse_domain_pdu(&[40]).unwrap(), DomainPdu::AttachUserRequest);
        // captured server sync PDU from the repository parses with the reference builders' layout
        let s = synchronize(0x000103ea, 1002, 1002);
        assert_eq!(s.bytes, vec![22, 0, 23, 0, 234, 3, 234, 3, 1, 0, 0, 1, 22, 0, 31, 0, 0, 0, 1, 0, 234, 3]);
    }
}
