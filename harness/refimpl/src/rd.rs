//! Strict byte reader / writer helpers used by all reference parsers.

#[derive(Debug, Clone, PartialEq, Eq)]
pub struct ParseError(pub String);

pub type PResult<T> = Result<T, ParseError>;

pub fn perr<T>(msg: impl Into<String>) -> PResult<T> {
    Err(ParseError(msg.into()))
}

pub struct Rd<'a> {
    pub data: &'a [u8],
    pub pos: usize,
}

impl<'a> Rd<'a> {
    pub fn new(data: &'a [u8]) -> Self {
        Rd { data, pos: 0 }
    }
    pub fn remaining(&self) -> usize {
        self.data.len() - self.pos
    }
    pub fn at_end(&self) -> bool {
        self.pos >= self.data.len()
    }
    pub fn u8(&mut self) -> PResult<u8> {
        if self.pos >= self.data.len() {
            return perr(format!("truncated at offset {}", self.pos));
        }
        let v = self.data[self.pos];
        self.pos += 1;
        Ok(v)
    }
    pub fn u16le(&mut self) -> PResult<u16> {
        let a = self.u8()? as u16;
        let b = self.u8()? as u16;
        Ok(a | (b << 8))
    }
    pub fn u16be(&mut self) -> PResult<u16> {
        let a = self.u8()? as u16;
        let b = self.u8()? as u16;
        Ok((a << 8) | b)
    }
    pub fn u32le(&mut self) -> PResult<u32> {
        let a = self.u16le()? as u32;
        let b = self.u16le()? as u32;
        Ok(a | (b << 16))
    }
    pub fn u32be(&mut self) -> PResult<u32> {
        let a = self.u16be()? as u32;
        let b = self.u16be()? as u32;
        Ok((a << 16) | b)
    }
    pub fn take(&mut self, n: usize) -> PResult<&'a [u8]> {
        if self.remaining() < n {
            return perr(format!("truncated: need {} bytes at offset {}, have {}", n, self.pos, self.remaining()));
        }
        let s = &self.data[self.pos..self.pos + n];
        self.pos += n;
        Ok(s)
    }
    pub fn rest(&mut self) -> &'a [u8] {
        let s = &self.data[self.pos..];
        self.pos = self.data.len();
        s
    }
    pub fn expect_end(&self, what: &str) -> PResult<()> {
        if self.at_end() {
            Ok(())
        } else {
            perr(format!("{}: {} trailing bytes", what, self.remaining()))
        }
    }
}

pub fn put16le(v: &mut Vec<u8>, x: u16) {
    v.push((x & 0xFF) as u8);
    v.push((x >> 8) as u8);
}
pub fn put16be(v: &mut Vec<u8>, x: u16) {
    v.push((x >> 8) as u8);
    v.push((x & 0xFF) as u8);
}
pub fn put32le(v: &mut Vec<u8>, x: u32) {
    put16le(v, (x & 0xFFFF) as u16);
    put16le(v, (x >> 16) as u16);
}
pub fn put32be(v: &mut Vec<u8>, x: u32) {
    put16be(v, (x >> 16) as u16);
    put16be(v, (x & 0xFFFF) as u16);
}

/// Field map entry of a generated message: where a field sits, for fault injection.
#[derive(Debug, Clone, PartialEq, Eq, Hash, serde::Serialize, serde::Deserialize)]
pub struct Field {
    pub name: String,
    pub off: usize,
    pub width: u8, // 1, 2, 4 ; 0 = blob
    pub be: bool,
}

#[derive(Debug, Clone, Default)]
pub struct Built {
    pub bytes: Vec<u8>,
    pub fields: Vec<Field>,
}

impl Built {
    pub fn new() -> Self {
        Built::default()
    }
    pub fn u8(&mut self, name: &str, v: u8) -> &mut Self {
        self.fields.push(Field { name: name.to_string(), off: self.bytes.len(), width: 1, be: false });
        self.bytes.push(v);
        self
    }
    pub fn u16le(&mut self, name: &str, v: u16) -> &mut Self {
        self.fields.push(Field { name: name.to_string(), off: self.bytes.len(), width: 2, be: false });
        put16le(&mut self.bytes, v);
        self
    }
    pub fn u16be(&mut self, name: &str, v: u16) -> &mut Self {
        self.fields.push(Field { name: name.to_string(), off: self.bytes.len(), width: 2, be: true });
        put16be(&mut self.bytes, v);
        self
    }
    pub fn u32le(&mut self, name: &str, v: u32) -> &mut Self {
        self.fields.push(Field { name: name.to_string(), off: self.bytes.len(), width: 4, be: false });
        put32le(&mut self.bytes, v);
        self
    }
    pub fn u32be(&mut self, name: &str, v: u32) -> &mut Self {
        self.fields.push(Field { name: name.to_string(), off: self.bytes.len(), width: 4, be: true });
        put32be(&mut self.bytes, v);
        self
    }
    pub fn blob(&mut self, name: &str, b: &[u8]) -> &mut Self {
        self.fields.push(Field { name: name.to_string(), off: self.bytes.len(), width: 0, be: false });
        self.bytes.extend_from_slice(b);
        self
    }
    /// append another built message, shifting its field offsets and prefixing names
    pub fn nest(&mut self, prefix: &str, inner: &Built) -> &mut Self {
        let base = self.bytes.len();
        for f in &inner.fields {
            self.fields.push(Field { name: format!("{}.{}", prefix, f.name), off: base + f.off, width: f.width, be: f.be });
        }
        self.bytes.extend_from_slice(&inner.bytes);
        self
    }
    /// wrap: header built first, then this content (offsets shifted)
    pub fn prefixed(header: Built, prefix: &str, inner: &Built) -> Built {
        let mut b = header;
        b.nest(prefix, inner);
        b
    }
    pub fn patch16le(&mut self, off: usize, v: u16) {
        self.bytes[off] = (v & 0xFF) as u8;
        self.bytes[off + 1] = (v >> 8) as u8;
    }
}
