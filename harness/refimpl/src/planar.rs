//! Planar RLE, 32 bpp (MS-RDPEGDI §3.1.9), format header 0x10 (RLE, alpha plane present, no
//! chroma subsampling, no colour loss). Reference decoder + nondeterministic encoder.
//! Images are top-down BGRA byte vectors of `w*h*4` bytes.

#[derive(Debug, Clone, PartialEq, Eq)]
pub enum DecodeError {
    BadHeader(u8),
    Truncated,
    SegmentCrossesScanline,
    EmptySegment,
}

/// Decode into top-down BGRA. Planes come in the order A, R, G, B; scanlines bottom-up.
pub fn decode(src: &[u8], w: usize, h: usize) -> Result<Vec<u8>, DecodeError> {
    let mut p = 0usize;
    let hdr = *src.get(0).ok_or(DecodeError::Truncated)?;
    p += 1;
    if hdr != 0x10 {
        return Err(DecodeError::BadHeader(hdr));
    }
    let mut out = vec![0u8; w * h * 4];
    for &chan in &[3usize, 2, 1, 0] {
        // plane values in wire order
        let mut plane = vec![0u8; w * h];
        for line in 0..h {
            let mut x = 0usize;
            let mut last: i32 = 0; // last raw value (absolute or delta)
            while x < w {
                let c = *src.get(p).ok_or(DecodeError::Truncated)?;
                p += 1;
                let mut run = (c & 0x0F) as usize;
                let mut raw = (c >> 4) as usize;
                if run == 1 {
                    run = 16 + raw;
                    raw = 0;
                } else if run == 2 {
                    run = 32 + raw;
                    raw = 0;
                }
                if raw + run == 0 {
                    return Err(DecodeError::EmptySegment);
                }
                if x + raw + run > w {
                    return Err(DecodeError::SegmentCrossesScanline);
                }
                for _ in 0..raw {
                    let b = *src.get(p).ok_or(DecodeError::Truncated)?;
                    p += 1;
                    if line == 0 {
                        last = b as i32;
                        plane[x] = b;
                    } else {
                        last = if b & 1 != 0 { -(((b >> 1) as i32) + 1) } else { (b >> 1) as i32 };
                        plane[line * w + x] = (plane[(line - 1) * w + x] as i32 + last) as u8;
                    }
                    x += 1;
                }
                for _ in 0..run {
                    if line == 0 {
                        plane[x] = last as u8;
                    } else {
                        plane[line * w + x] = (plane[(line - 1) * w + x] as i32 + last) as u8;
                    }
                    x += 1;
                }
            }
        }
        for line in 0..h {
            let row = h - 1 - line;
            for x in 0..w {
                out[(row * w + x) * 4 + chan] = plane[line * w + x];
            }
        }
    }
    Ok(out)
}

/// value sequence (absolute bytes on the first scanline, encoded deltas afterwards) of one scanline
fn line_values(plane: &[u8], w: usize, line: usize) -> Vec<(u8, i32)> {
    // returns (byte to transmit, decoded "last" value)
    (0..w)
        .map(|x| {
            let cur = plane[line * w + x];
            if line == 0 {
                (cur, cur as i32)
            } else {
                let d = cur.wrapping_sub(plane[(line - 1) * w + x]) as i8 as i32;
                let b = if d >= 0 { (d * 2) as u8 } else { ((-d) * 2 - 1) as u8 };
                (b, d)
            }
        })
        .collect()
}

/// Encode with a nondeterministic segmentation; `choose(n)` returns an index below n.
/// Returns the bytes and the number of (raw, run) segments that had a non-empty run.
pub fn encode(bgra: &[u8], w: usize, h: usize, choose: &mut dyn FnMut(usize) -> usize) -> (Vec<u8>, usize) {
    let mut out = vec![0x10u8];
    let mut runs = 0usize;
    for &chan in &[3usize, 2, 1, 0] {
        let mut plane = vec![0u8; w * h];
        for line in 0..h {
            let row = h - 1 - line;
            for x in 0..w {
                plane[line * w + x] = bgra[(row * w + x) * 4 + chan];
            }
        }
        for line in 0..h {
            let vals = line_values(&plane, w, line);
            let mut x = 0usize;
            let mut last: i32 = 0;
            while x < w {
                let rem = w - x;
                // how long a run of `last` could start right here (no raw bytes)
                let run0 = vals[x..].iter().take_while(|v| v.1 == last).count();
                let style = choose(4);
                if run0 >= 16 && style != 0 {
                    // long run segment, 16..=47
                    let r = if choose(3) == 0 { 16 + choose(run0.min(47) - 15) } else { run0.min(47) };
                    if r < 32 {
                        out.push((((r - 16) as u8) << 4) | 1);
                    } else {
                        out.push((((r - 32) as u8) << 4) | 2);
                    }
                    x += r;
                    runs += 1;
                    continue;
                }
                if run0 >= 3 && style == 1 {
                    // run-only short segment (raw = 0)
                    let r = 3 + choose(run0.min(15) - 2);
                    out.push(r as u8);
                    x += r;
                    runs += 1;
                    continue;
                }
                // raw bytes followed by an optional run
                let max_raw = rem.min(15);
                let raw = match style {
                    0 => 1 + choose(max_raw),
                    _ => {
                        // greedy: raw bytes until a run of >= 3 equal values starts
                        let mut r = 1;
                        while r < max_raw {
                            let v = vals[x + r - 1].1;
                            let follow = vals[x + r..].iter().take_while(|q| q.1 == v).count();
                            if follow >= 3 {
                                break;
                            }
                            r += 1;
                        }
                        r
                    }
                };
                let lastv = vals[x + raw - 1].1;
                let avail = vals[x + raw..].iter().take_while(|q| q.1 == lastv).count().min(15);
                let run = if avail >= 3 {
                    match choose(3) {
                        0 => 0,
                        1 => 3 + choose(avail - 2),
                        _ => avail,
                    }
                } else {
                    0
                };
                out.push(((raw as u8) << 4) | run as u8);
                for i in 0..raw {
                    out.push(vals[x + i].0);
                }
                if run > 0 {
                    runs += 1;
                }
                last = lastv;
                x += raw + run;
            }
        }
    }
    (out, runs)
}

#[cfg(test)]
mod test {
    use super::*;
    #[test]
    fn roundtrip() {
        let mut s = 99u64;
        let mut rnd = move |n: usize| {
            s ^= s << 13;
            s ^= s >> 7;
            s ^= s << 17;
            (s % n.max(1) as u64) as usize
        };
        for w in [1usize, 2, 3, 16, 17, 50, 64] {
            for h in [1usize, 2, 3, 9] {
                for mode in 0..3 {
                    let img: Vec<u8> = (0..w * h * 4)
                        .map(|i| match mode {
                            0 => rnd(256) as u8,
                            1 => ((i / 4) / 7) as u8,
                            _ => 0x80,
                        })
                        .collect();
                    for _ in 0..30 {
                        let (e, _) = encode(&img, w, h, &mut rnd);
                        assert_eq!(decode(&e, w, h).unwrap(), img, "w={} h={} mode={}", w, h, mode);
                    }
                }
            }
        }
    }
}
