//! T.124 conference create request / response and the RDP user-data blocks (MS-RDPBCGR 2.2.1.3 / 2.2.1.4).
use crate::per;
use crate::rd::{perr, Built, PResult, Rd};

pub const T124_OID: [u8; 6] = [0, 0, 20, 124, 0, 1];

#[derive(Debug, Clone, PartialEq, Eq)]
pub struct CsCore {
    pub version: u32,
    pub width: u16,
    pub height: u16,
    pub color_depth: u16,
    pub sas: u16,
    pub kbd_layout: u32,
    pub build: u32,
    /// UTF-16 code units before the terminator
    pub client_name: Vec<u16>,
    pub kbd_type: u32,
    pub kbd_subtype: u32,
    pub kbd_fn_keys: u32,
    pub post_beta2_color_depth: Option<u16>,
    pub product_id: Option<u16>,
    pub serial: Option<u32>,
    pub high_color_depth: Option<u16>,
    pub supported_depths: Option<u16>,
    pub early_caps: Option<u16>,
    pub connection_type: Option<u8>,
    pub server_selected_protocol: Option<u32>,
    pub body_len: usize,
}

#[derive(Debug, Clone, PartialEq, Eq)]
pub struct ClientBlocks {
    pub core: CsCore,
    pub enc_methods: u32,
    pub ext_enc_methods: u32,
    pub channels: Vec<(Vec<u8>, u32)>,
    pub order: Vec<u16>,
}

/// Strict parser of ConferenceCreateRequest (returns the user data)
pub fn parse_ccrq(data: &[u8]) -> PResult<&[u8]> {
    let mut r = Rd::new(data);
    if r.u8()? != 0 {
        return perr("CCRq: choice of t124Identifier must be 0 (object)");
    }
    let oid = per::read_oid6(&mut r)?;
    if oid != T124_OID {
        return perr(format!("CCRq: OID {:?}", oid));
    }
    let l = per::read_length_strict(&mut r)?;
    if l != r.remaining() {
        return perr(format!("CCRq: connectPDU length {} but {} bytes follow", l, r.remaining()));
    }
    if r.u8()? != 0 {
        return perr("CCRq: connectPDU choice must be 0 (conferenceCreateRequest)");
    }
    if r.u8()? != 0x08 {
        return perr("CCRq: selection must be 0x08 (userData present)");
    }
    // conferenceName: numeric string "1" (length offset 1 => length octet 0, digits packed 4 bits)
    if r.u8()? != 0 {
        return perr("CCRq: numeric string length");
    }
    if r.u8()? != 0x10 {
        return perr("CCRq: numeric string '1'");
    }
    if r.u8()? != 0 {
        return perr("CCRq: padding");
    }
    if r.u8()? != 1 {
        return perr("CCRq: number of user-data sets must be 1");
    }
    if r.u8()? != 0xC0 {
        return perr("CCRq: key choice must be 0xC0 (h221NonStandard)");
    }
    let key = per::read_octets(&mut r, 4)?;
    if key != b"Duca" {
        return perr(format!("CCRq: H.221 key {:?}", key));
    }
    let ul = per::read_length_strict(&mut r)?;
    if ul != r.remaining() {
        return perr(format!("CCRq: user data length {} but {} bytes follow", ul, r.remaining()));
    }
    Ok(r.rest())
}

fn parse_cs_core(body: &[u8]) -> PResult<CsCore> {
    let mut r = Rd::new(body);
    let version = r.u32le()?;
    let width = r.u16le()?;
    let height = r.u16le()?;
    let color_depth = r.u16le()?;
    let sas = r.u16le()?;
    let kbd_layout = r.u32le()?;
    let build = r.u32le()?;
    let name = r.take(32)?;
    let units: Vec<u16> = name.chunks(2).map(|c| c[0] as u16 | ((c[1] as u16) << 8)).collect();
    let term = units.iter().position(|u| *u == 0);
    let client_name = match term {
        Some(i) => {
            if units[i..].iter().any(|u| *u != 0) {
                return perr("CS_CORE: clientName has data after its terminator");
            }
            units[..i].to_vec()
        }
        None => return perr("CS_CORE: clientName is not NUL-terminated within its 32 bytes"),
    };
    let kbd_type = r.u32le()?;
    let kbd_subtype = r.u32le()?;
    let kbd_fn_keys = r.u32le()?;
    let _ime = r.take(64)?;
    let mut c = CsCore {
        version,
        width,
        height,
        color_depth,
        sas,
        kbd_layout,
        build,
        client_name,
        kbd_type,
        kbd_subtype,
        kbd_fn_keys,
        post_beta2_color_depth: None,
        product_id: None,
        serial: None,
        high_color_depth: None,
        supported_depths: None,
        early_caps: None,
        connection_type: None,
        server_selected_protocol: None,
        body_len: body.len(),
    };
    // optional fields: the block may end at any field boundary
    macro_rules! opt {
        ($e:expr) => {
            if r.at_end() {
                return Ok(c);
            } else {
                $e
            }
        };
    }
    opt!(c.post_beta2_color_depth = Some(r.u16le()?));
    opt!(c.product_id = Some(r.u16le()?));
    opt!(c.serial = Some(r.u32le()?));
    opt!(c.high_color_depth = Some(r.u16le()?));
    opt!(c.supported_depths = Some(r.u16le()?));
    opt!(c.early_caps = Some(r.u16le()?));
    opt!({
        r.take(64)?;
    });
    opt!(c.connection_type = Some(r.u8()?));
    opt!({
        r.u8()?;
    });
    opt!(c.server_selected_protocol = Some(r.u32le()?));
    // later optional fields (desktopPhysicalWidth ...): accept whole fields only
    opt!({
        r.u32le()?;
    });
    opt!({
        r.u32le()?;
    });
    opt!({
        r.u16le()?;
    });
    opt!({
        r.u32le()?;
    });
    opt!({
        r.u32le()?;
    });
    r.expect_end("CS_CORE")?;
    Ok(c)
}

/// Strict parser of the client user-data blocks
pub fn parse_client_blocks(data: &[u8]) -> PResult<ClientBlocks> {
    let mut r = Rd::new(data);
    let mut core = None;
    let mut sec = None;
    let mut net = None;
    let mut order = Vec::new();
    while !r.at_end() {
        let typ = r.u16le()?;
        let len = r.u16le()? as usize;
        if len < 4 {
            return perr(format!("block 0x{:04x}: length {} shorter than its header", typ, len));
        }
        let body = r.take(len - 4).map_err(|e| crate::rd::ParseError(format!("block 0x{:04x} length {}: {}", typ, len, e.0)))?;
        order.push(typ);
        match typ {
            0xC001 => {
                if core.is_some() {
                    return perr("duplicate CS_CORE");
                }
                core = Some(parse_cs_core(body)?)
            }
            0xC002 => {
                if body.len() != 8 {
                    return perr(format!("CS_SECURITY body {} bytes, expected 8", body.len()));
                }
                let mut b = Rd::new(body);
                sec = Some((b.u32le()?, b.u32le()?));
            }
            0xC003 => {
                let mut b = Rd::new(body);
                let n = b.u32le()? as usize;
                if n > 31 {
                    return perr(format!("CS_NET channelCount {}", n));
                }
                if b.remaining() != n * 12 {
                    return perr(format!("CS_NET channelCount {} but {} bytes of channel definitions", n, b.remaining()));
                }
                let mut ch = Vec::new();
                for _ in 0..n {
                    let name = b.take(8)?.to_vec();
                    let opt = b.u32le()?;
                    ch.push((name, opt));
                }
                net = Some(ch);
            }
            0xC004 | 0xC005 | 0xC006 | 0xC008 | 0xC00A => {}
            _ => return perr(format!("unknown client block type 0x{:04x}", typ)),
        }
    }
    let core = core.ok_or(crate::rd::ParseError("CS_CORE missing".into()))?;
    let (enc_methods, ext_enc_methods) = sec.ok_or(crate::rd::ParseError("CS_SECURITY missing".into()))?;
    if order.first() != Some(&0xC001) {
        return perr("CS_CORE must be the first block");
    }
    Ok(ClientBlocks { core, enc_methods, ext_enc_methods, channels: net.unwrap_or_default(), order })
}

#[derive(Debug, Clone, PartialEq, Eq, Hash, serde::Serialize, serde::Deserialize)]
pub enum ScBlock {
    Core { version: u32, requested: Option<u32>, early_caps: Option<u32> },
    Security { method: u32, level: u32 },
    Net { io_channel: u16, ids: Vec<u16>, pad: bool },
    Unknown { typ: u16, body: Vec<u8> },
    /// SC_SECURITY as a server that selects Standard RDP Security sends it: with serverRandomLen, serverCertLen, the random and
    /// the certificate
    SecurityFull { method: u32, level: u32, random: Vec<u8>, cert: Vec<u8> },
}

#[derive(Debug, Clone, PartialEq, Eq, Hash, serde::Serialize, serde::Deserialize)]
pub struct CcRsp {
    pub node_id: u16, // >= 1001
    pub tag: u32,
    pub result: u8,
    pub blocks: Vec<ScBlock>,
    /// use the (non-canonical) two-octet PER length form even for small values
    pub long_lengths: bool,
}

pub fn build_sc_blocks(blocks: &[ScBlock]) -> Built {
    let mut b = Built::new();
    for (i, blk) in blocks.iter().enumerate() {
        let mut body = Built::new();
        let typ = match blk {
            ScBlock::Core { version, requested, early_caps } => {
                body.u32le("version", *version);
                if let Some(r) = requested {
                    body.u32le("clientRequestedProtocols", *r);
                    if let Some(e) = early_caps {
                        body.u32le("earlyCapabilityFlags", *e);
                    }
                }
                0x0C01
            }
            ScBlock::Security { method, level } => {
                body.u32le("encryptionMethod", *method);
                body.u32le("encryptionLevel", *level);
                0x0C02
            }
            ScBlock::Net { io_channel, ids, pad } => {
                body.u16le("MCSChannelId", *io_channel);
                body.u16le("channelCount", ids.len() as u16);
                for (k, id) in ids.iter().enumerate() {
                    body.u16le(&format!("channelId{}", k), *id);
                }
                if *pad {
                    body.u16le("pad", 0);
                }
                0x0C03
            }
            ScBlock::SecurityFull { method, level, random, cert } => {
                body.u32le("encryptionMethod", *method);
                body.u32le("encryptionLevel", *level);
                body.u32le("serverRandomLen", random.len() as u32);
                body.u32le("serverCertLen", cert.len() as u32);
                body.blob("serverRandom", random);
                body.blob("serverCertificate", cert);
                0x0C02
            }
            ScBlock::Unknown { typ, body: bb } => {
                body.blob("body", bb);
                *typ
            }
        };
        let mut h = Built::new();
        h.u16le("type", typ);
        h.u16le("length", (body.bytes.len() + 4) as u16);
        h.nest("body", &body);
        b.nest(&format!("block{}", i), &h);
    }
    b
}

/// Reference encoder of ConferenceCreateResponse with field map
pub fn build_ccrsp(c: &CcRsp) -> Built {
    let blocks = build_sc_blocks(&c.blocks);
    let wl = |out: &mut Vec<u8>, n: usize| {
        if c.long_lengths {
            per::write_length_long(out, n)
        } else {
            per::write_length(out, n)
        }
    };
    // inner part after the connectPDU length
    let mut inner = Built::new();
    inner.u8("choice", 0x14);
    inner.u16be("nodeID", c.node_id - 1001);
    let mut t = Vec::new();
    per::write_integer(&mut t, c.tag);
    inner.blob("tag", &t);
    inner.u8("result", c.result);
    inner.u8("numberOfSets", 1);
    inner.u8("keyChoice", 0xC0);
    inner.u8("h221KeyLength", 0);
    inner.blob("h221Key", b"McDn");
    let mut l = Vec::new();
    wl(&mut l, blocks.bytes.len());
    inner.blob("userDataLength", &l);
    inner.nest("userData", &blocks);
    let mut b = Built::new();
    b.u8("t124Choice", 0);
    b.u8("oidLength", 5);
    b.blob("oid", &[0x00, 0x14, 0x7C, 0x00, 0x01]);
    let mut l2 = Vec::new();
    wl(&mut l2, inner.bytes.len());
    b.blob("connectPDULength", &l2);
    b.nest("rsp", &inner);
    b
}

#[cfg(test)]
mod test {
    use super::*;
    #[test]
    fn ccrsp_shape() {
        let c = CcRsp { node_id: 31219, tag: 1, result: 0, blocks: vec![ScBlock::Core { version: 0x00080004, requested: Some(1), early_caps: None }, ScBlock::Net { io_channel: 1003, ids: vec![], pad: false }, ScBlock::Security { method: 0, level: 0 }], long_lengths: false };
        let b = build_ccrsp(&c);
        assert_eq!(&b.bytes[..7], &[0x00, 0x05, 0x00, 0x14, 0x7C, 0x00, 0x01]);
        assert_eq!(&b.bytes[8..12], &[0x14, 0x76, 0x0A, 0x01]);
    }
}
