#![no_main]
//! libFuzzer target: the byte string is decoded by the same decoder the property check uses and judged by the same oracle.
use libfuzzer_sys::fuzz_target;
fuzz_target!(|data: &[u8]| {
    // the library prints diagnostics with println!: keep them out of the campaign log
    engine::report::silence_library_stdout();
    let case = rdpcheck::props::c13::decode(&mut engine::Src::new(data));
    let out = rdpcheck::props::c13::run(&case);
    if let Some(f) = out.failure {
        if !f.signature.starts_with("inconclusive:") {
            panic!("VIOLATION {} signature={} detail={}", "C13", f.signature, f.detail);
        }
    }
});
