#![no_main]
//! libFuzzer target: the byte string is decoded by the same decoder the property check uses and judged by the same oracle.
use libfuzzer_sys::fuzz_target;
fuzz_target!(|data: &[u8]| {
    // the library prints diagnostics with println!: keep them out of the campaign log
    engine::report::silence_library_stdout();
    let case = (|s: &mut engine::Src| rdpcheck::props::c08::decode_grammar(s, 1 << 16))(&mut engine::Src::new(data));
    let out = rdpcheck::props::c08::run(&case);
    if let Some(f) = out.failure {
        if !f.signature.starts_with("inconclusive:") {
            panic!("VIOLATION {} signature={} detail={}", "C08", f.signature, f.detail);
        }
    }
});
