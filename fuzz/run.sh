#!/bin/bash
# usage: fuzz/run.sh <target> [runs] [extra libFuzzer args]   — coverage-guided campaign with the in-target oracle
# VERIF_FUZZ_JOBS (default 8) libFuzzer processes share one corpus; job i uses seed VERIF_SEED+i and executes <runs> inputs.
# A job ends after <runs> executions or VERIF_FUZZ_SECONDS (default 600), whichever comes first: both are budgets, not verdicts.
# exit 0 = no violation within the budget, 1 = crash artifact written (replay: ./check replay on {"property","section","bytes_hex"}), 2 = build problem
ROOT="$(cd "$(dirname "$0")/.." && pwd)"
cd "$ROOT/harness/rdpcheck" || exit 2
F="$ROOT/fuzz"
t="$1"; runs="${2:-200000}"; shift; shift
jobs="${VERIF_FUZZ_JOBS:-8}"
export CARGO_NET_OFFLINE=true RUSTC_BOOTSTRAP=1 SSL_CERT_FILE=/dev/null SSL_CERT_DIR=/nonexistent
cargo fuzz build --fuzz-dir "$F" "$t" >/tmp/fuzz-build.$$.log 2>&1 || { tail -20 /tmp/fuzz-build.$$.log; rm -f /tmp/fuzz-build.$$.log; exit 2; }
rm -f /tmp/fuzz-build.$$.log
bin="$F/target/x86_64-unknown-linux-gnu/release/$t"
[ -x "$bin" ] || { echo "fuzz binary $bin not found"; exit 2; }
mkdir -p "$F/corpus/$t" "$F/artifacts/$t"
seed="${VERIF_SEED:-1}"
pids=()
for i in $(seq 0 $((jobs - 1))); do
  "$bin" "$F/corpus/$t" -artifact_prefix="$F/artifacts/$t/" -runs="$runs" -max_total_time="${VERIF_FUZZ_SECONDS:-600}" -seed=$((seed + i)) -len_control=0 -max_len=512 -print_final_stats=1 "$@" > "$F/fuzz-$t.$i.log" 2>&1 &
  pids+=($!)
done
rc=0
for p in "${pids[@]}"; do wait "$p" || rc=1; done
# one combined log: the per-job statistics are summed by the caller
cat "$F"/fuzz-"$t".[0-9]*.log > "$F/fuzz-$t.log"; rm -f "$F"/fuzz-"$t".[0-9]*.log
grep -a -E "stat::number_of_executed_units|VIOLATION" "$F/fuzz-$t.log" | tail -10
[ $rc -eq 0 ] && exit 0
ls "$F/artifacts/$t/" 2>/dev/null | tail -3
exit 1
