#!/bin/bash
# usage: fuzz/run.sh <target> [runs] [extra libFuzzer args]   — coverage-guided campaign with the in-target oracle
# the campaign ends after <runs> executions or VERIF_FUZZ_SECONDS (default 600), whichever comes first: both are budgets, not verdicts
# exit 0 = no violation within the budget, 1 = crash artifact written (replay: ./check replay on {"property","section","bytes_hex"}), 2 = build problem
ROOT="$(cd "$(dirname "$0")/.." && pwd)"
cd "$ROOT/harness/rdpcheck" || exit 2
F="$ROOT/fuzz"
t="$1"; runs="${2:-200000}"; shift; shift
export CARGO_NET_OFFLINE=true RUSTC_BOOTSTRAP=1 SSL_CERT_FILE=/dev/null SSL_CERT_DIR=/nonexistent
cargo fuzz build --fuzz-dir "$F" "$t" >/tmp/fuzz-build.$$.log 2>&1 || { tail -20 /tmp/fuzz-build.$$.log; rm -f /tmp/fuzz-build.$$.log; exit 2; }
rm -f /tmp/fuzz-build.$$.log
mkdir -p $F/corpus/"$t"
cargo fuzz run --fuzz-dir "$F" "$t" -- -runs="$runs" -max_total_time="${VERIF_FUZZ_SECONDS:-600}" -seed="${VERIF_SEED:-1}" -len_control=0 -max_len=512 -print_final_stats=1 "$@" > $F/fuzz-"$t".log 2>&1; rc=$?
grep -E "stat::number_of_executed_units|cov:|VIOLATION" $F/fuzz-"$t".log | tail -4
[ $rc -eq 0 ] && exit 0
ls $F/artifacts/"$t"/ 2>/dev/null | tail -3
exit 1
