#!/bin/bash
# confirm a seeded change in a scratch worktree: compiles, 39 unit tests pass, demo fails with it and passes without
# usage: confirm_seed.sh <dir with patch.diff demo.rs> 
set -u
d="$1"; name=$(basename "$d")
wt=/tmp/cs-$name
export CARGO_TARGET_DIR=/tmp/cs-target CARGO_NET_OFFLINE=true
git -C /repo worktree add -q --detach "$wt" HEAD || exit 2
cd "$wt"
res() { echo "$name: $1"; }
if ! git apply "$d/patch.diff"; then res "PATCH-DOES-NOT-APPLY"; cd /; git -C /repo worktree remove --force "$wt"; exit 1; fi
lib=$(cargo test --offline --lib 2>&1 | grep "test result" | head -1)
# demos that need a TLS peer use the openssl crate (already in the lock file) as a dev-dependency
printf '\n[dev-dependencies]\nopenssl = "0.10"\n' >> Cargo.toml
mkdir -p tests; cp "$d/demo.rs" tests/demo.rs
with=$(cargo test --offline --features verif-hooks,integration --test demo 2>&1 | grep "test result" | head -1)
git checkout -q -- src 2>/dev/null
mkdir -p tests; cp "$d/demo.rs" tests/demo.rs
without=$(cargo test --offline --features verif-hooks,integration --test demo 2>&1 | grep "test result" | head -1)
cd /; git -C /repo worktree remove --force "$wt"
echo "$name: lib[$lib] with-patch[$with] without-patch[$without]"
