#!/bin/bash
# process_seeds.sh <Cnn-N>...: confirm each seed in /tmp/seed_out and run the property's quick check against it
# snapshot of the harness sources (must compile at this moment); the harness may be edited while the batch runs
# VERIF_SNAP / VERIF_SEED_WT / VERIF_ALT_TARGET / VERIF_SEED_OUT choose other scratch directories (to run next to a benign batch)
snap="${VERIF_SNAP:-/tmp/harness-snap}"
rsync -a --delete --exclude target /verif/harness/ "$snap/"
export VERIF_HARNESS_DIR="$snap"
for s in "$@"; do
  p="${s%%-*}"
  if [ -f /tmp/seed_out/$s/demo_append.rs ]; then c=$(tools/confirm_seed_gui.sh /tmp/seed_out/$s 2>&1 | tail -1); else c=$(tools/confirm_seed.sh /tmp/seed_out/$s 2>&1 | tail -1); fi
  echo "CONFIRM $c" | sed -E 's/; 0 ignored; 0 measured; 0 filtered out; finished in [0-9.]+s//g'
  tools/run_seed.sh /tmp/seed_out/$s $p 2>&1 | tail -3
done
