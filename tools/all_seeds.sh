#!/bin/bash
# re-run every kept seeded change against the check of its property; writes /verif/seeded/RESULTS.txt
# usage: all_seeds.sh            (everything, one lane)
#        all_seeds.sh <lane> <regex>   e.g. all_seeds.sh a 'C(0[1-9]|10)-'  : only matching seeds, results in seeded/RESULTS.<lane>.txt,
#                                    own scratch directories per lane (lanes may run side by side; concatenate afterwards)
cd /verif || exit 2
lane="${1:-all}"; re="${2:-.}"
export VERIF_SEED_WT=/tmp/seedrepo-$lane VERIF_ALT_TARGET=/tmp/verif-alt-target-$lane VERIF_SEED_OUT=/tmp/seedrun-$lane
rsync -a --delete --exclude target /verif/harness/ /tmp/harness-snap-$lane/
export VERIF_HARNESS_DIR=/tmp/harness-snap-$lane
res=seeded/RESULTS.txt; [ "$lane" != all ] && res=seeded/RESULTS.$lane.txt
: > $res
for d in seeded/*/; do
  n=$(basename "$d"); p="${n%%-*}"
  echo "$n" | grep -Eq "$re" || continue
  if grep -q '"superseded"' "$d/meta.json" 2>/dev/null; then echo "$n vs $p: superseded (unreachable on the fixed tree, see meta.json)" | tee -a $res; continue; fi
  r=$(tools/run_seed.sh "/verif/seeded/$n" "$p" 2>&1 | tail -1)
  echo "$r" | tee -a $res
done
grep -c "exit=1" $res
