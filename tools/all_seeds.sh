#!/bin/bash
# re-run every kept seeded change against the check of its property; writes /verif/seeded/RESULTS.txt
cd /verif || exit 2
: > seeded/RESULTS.txt
for d in seeded/*/; do
  n=$(basename "$d"); p="${n%%-*}"
  r=$(tools/run_seed.sh "/verif/seeded/$n" "$p" 2>&1 | tail -1)
  echo "$r" | tee -a seeded/RESULTS.txt
done
grep -c "exit=1" seeded/RESULTS.txt
