#!/bin/bash
# re-run every kept seeded change against the check of its property; writes /verif/seeded/RESULTS.txt
cd /verif || exit 2
# own scratch worktree / target / output directories: may run next to tools/process_seeds.sh
export VERIF_SEED_WT=/tmp/seedrepo-all VERIF_ALT_TARGET=/tmp/verif-alt-target-all VERIF_SEED_OUT=/tmp/seedrun-all
rsync -a --delete --exclude target /verif/harness/ /tmp/harness-snap-all/
export VERIF_HARNESS_DIR=/tmp/harness-snap-all
: > seeded/RESULTS.txt
for d in seeded/*/; do
  n=$(basename "$d"); p="${n%%-*}"
  if grep -q '"superseded"' "$d/meta.json" 2>/dev/null; then echo "$n vs $p: superseded (unreachable on the fixed tree, see meta.json)" | tee -a seeded/RESULTS.txt; continue; fi
  r=$(tools/run_seed.sh "/verif/seeded/$n" "$p" 2>&1 | tail -1)
  echo "$r" | tee -a seeded/RESULTS.txt
done
grep -c "exit=1" seeded/RESULTS.txt
