#!/bin/bash
# run_benign.sh <dir with patch.diff> [Cnn ...]: apply a behaviour-preserving change to a scratch worktree and run the quick
# checks (all 20 by default) against it. Every check must stay silent (exit 0). /repo is not touched.
d="$1"; shift
props="$*"; [ -z "$props" ] && props=$(seq -f "C%02g" 1 20)
wt="${VERIF_SEED_WT:-/tmp/seedrepo}"
git -C /repo worktree remove --force "$wt" >/dev/null 2>&1
git -C /repo worktree add -q --detach "$wt" HEAD || exit 2
( cd "$wt" && { git apply "$d/patch.diff" 2>/dev/null || git apply --3way "$d/patch.diff" >/dev/null 2>&1; } ) || { echo "$(basename $d): patch does not apply"; git -C /repo worktree remove --force "$wt"; exit 2; }
lib=$(cd "$wt" && CARGO_TARGET_DIR="${VERIF_CS_TARGET:-/tmp/cs-target}" cargo test --offline --lib 2>&1 | grep "test result" | head -1 | cut -c1-40)
echo "$(basename $d): unit tests [$lib]"
bad=0
for p in $props; do
  out=$(cd /verif && VERIF_REPO="$wt" VERIF_OUT_DIR="${VERIF_SEED_OUT:-/tmp/benignrun}" ./check "$p" quick 2>&1); code=$?
  if [ $code -ne 0 ]; then
    bad=1
    echo "$(basename $d) vs $p: exit=$code"
    echo "$out" | grep -E "VIOLATION|signature|detail|INCONCLUSIVE|BUILD" | head -6 | cut -c1-400
  fi
done
[ $bad -eq 0 ] && echo "$(basename $d): all checks silent"
git -C /repo worktree remove --force "$wt"
