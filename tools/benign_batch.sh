#!/bin/bash
# benign_batch.sh <id>...: run tools/run_benign.sh for each /tmp/benign_out/<id> against a snapshot of the harness
rsync -a --delete --exclude target /verif/harness/ /tmp/harness-snap/
export VERIF_HARNESS_DIR=/tmp/harness-snap
for b in "$@"; do tools/run_benign.sh /tmp/benign_out/$b; done
