#!/bin/bash
# run every quick check against /repo (refreshes /verif/evidence); prints one summary line per property
cd /verif || exit 2
rc=0
for n in $(seq -w 1 20); do
  p="C$n"
  out=$(./check $p quick 2>&1); code=$?
  echo "$out" | grep -E "^C[0-9]+ (quick|thorough)|VIOLATION|KNOWN-FINDING|INCONCLUSIVE" | tail -3
  echo "$p exit=$code"
  [ $code -ne 0 ] && rc=1
done
exit $rc
