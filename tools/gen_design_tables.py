#!/usr/bin/env python3
"""Regenerates the generated blocks of DESIGN.md (fix list, seeded-change table) between marker comments."""
import json, glob, os, re, subprocess
def fixes():
    kf = json.load(open('/verif/known-findings.json'))['findings']
    rows = ["| property | status | commit | what failed | signature (known-findings key) |", "|---|---|---|---|---|"]
    for f in kf:
        rows.append("| %s | %s | %s | %s | `%s` |" % (f['property'], f['status'], f.get('commit',''), f['what'].replace('|','/'), f['signature'].replace('|','/')))
    return "\n".join(rows)
def seeds():
    rows = ["| seed | property | change (one line) | needs to manifest | caught by |", "|---|---|---|---|---|"]
    for d in sorted(glob.glob('/verif/seeded/*')):
        try: m = json.load(open(d+'/meta.json'))
        except Exception: continue
        title = str(m.get('title', m.get('what_it_breaks','')))[:140].replace('|','/').replace('\n',' ')
        need = str(m.get('needs_to_manifest',''))[:160].replace('|','/').replace('\n',' ')
        caught = "; ".join(m.get('checks_run', [])).replace('|','/')
        rows.append("| %s | %s | %s | %s | %s |" % (os.path.basename(d), m.get('property',''), title, need, caught))
    return "\n".join(rows)
p='/verif/DESIGN.md'; s=open(p).read()
for name, fn in (("FIXES", fixes), ("SEEDS", seeds)):
    a = "<!-- BEGIN GENERATED %s -->" % name; b = "<!-- END GENERATED %s -->" % name
    if a in s:
        s = s[:s.index(a)+len(a)] + "\n" + fn() + "\n" + s[s.index(b):]
open(p,'w').write(s)
