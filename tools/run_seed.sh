#!/bin/bash
# run a property check against a seeded change WITHOUT touching /repo: the patch is applied to a scratch worktree and the
# harness is built against it (cargo paths override, separate target dir). usage: run_seed.sh <seed dir> <Cnn> [tier]
d="$1"; p="$2"; tier="${3:-quick}"
wt="${VERIF_SEED_WT:-/tmp/seedrepo}"
git -C /repo worktree remove --force "$wt" >/dev/null 2>&1
git -C /repo worktree add -q --detach "$wt" HEAD || exit 2
( cd "$wt" && { git apply "$d/patch.diff" 2>/dev/null || git apply --3way "$d/patch.diff" >/dev/null 2>&1; } ) || { echo "patch does not apply"; git -C /repo worktree remove --force "$wt"; exit 2; }
out=$(cd /verif && VERIF_REPO="$wt" VERIF_OUT_DIR="${VERIF_SEED_OUT:-/tmp/seedrun}" ./check "$p" "$tier" 2>&1); code=$?
git -C /repo worktree remove --force "$wt"
echo "$out" | grep -E "VIOLATION|signature|KNOWN|INCONCLUSIVE|BUILD" | head -8
echo "$(basename $d) vs $p: exit=$code"
