#!/bin/bash
# run a property check against a seeded change: apply to /repo, run, undo. usage: run_seed.sh <seed dir> <Cnn> [tier]
d="$1"; p="$2"; tier="${3:-quick}"
cd /repo || exit 2
if [ -n "$(git status --porcelain --untracked-files=no)" ]; then echo "/repo not clean"; exit 2; fi
git apply "$d/patch.diff" || { echo "patch does not apply"; exit 2; }
cd /verif && VERIF_DIR=/tmp/seedrun-$$ true
out=$(cd /verif && VERIF_OUT_DIR=/tmp/seedrun ./check "$p" "$tier" 2>&1); code=$?
git -C /repo checkout -- .
echo "$out" | grep -E "VIOLATION|signature|KNOWN|INCONCLUSIVE|BUILD" | head -8
echo "$(basename $d) vs $p: exit=$code"
