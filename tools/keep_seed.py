#!/usr/bin/env python3
"""keep_seed.py <seed dir> <caught-by summary...>: copy a confirmed seeded change to /verif/seeded/<id>/ and extend meta.json"""
import sys, json, os, shutil
d = sys.argv[1].rstrip('/'); name = os.path.basename(d)
dst = f"/verif/seeded/{name}"; os.makedirs(dst, exist_ok=True)
for f in os.listdir(d):
    if os.path.isfile(os.path.join(d, f)): shutil.copy(os.path.join(d, f), dst)
mp = os.path.join(dst, "meta.json")
try: meta = json.load(open(mp))
except Exception: meta = {}
meta["confirmed_by_me"] = "tools/confirm_seed.sh in a scratch worktree of /repo HEAD: cargo test --offline --lib = 39 passed with the patch; demo fails with the patch, passes without"
meta["checks_run"] = sys.argv[2:]
json.dump(meta, open(mp, "w"), indent=1)
print("kept", dst)
