#!/bin/bash
# benign_recheck.sh <lane> <regex> [Cnn ...]: run the given quick checks (all 20 by default) against every behaviour-preserving
# patch under /verif/benign whose name matches <regex>, with scratch directories of its own; every check must stay silent
cd /verif || exit 2
lane="$1"; re="$2"; shift 2
export VERIF_SEED_WT=/tmp/benrepo-$lane VERIF_ALT_TARGET=/tmp/verif-alt-target-ben$lane VERIF_SEED_OUT=/tmp/benrun-$lane VERIF_CS_TARGET=/tmp/cs-target-ben$lane
rsync -a --delete --exclude target /verif/harness/ /tmp/harness-snap-ben$lane/
export VERIF_HARNESS_DIR=/tmp/harness-snap-ben$lane
for d in benign/*/; do
  n=$(basename "$d")
  echo "$n" | grep -Eq "$re" || continue
  [ -f "$d/patch.diff" ] || continue
  tools/run_benign.sh "/verif/benign/$n" "$@"
done
