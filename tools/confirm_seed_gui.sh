#!/bin/bash
# like confirm_seed.sh for demonstrations that are appended to src/bin/mstsc-rs.rs (demo_append.rs)
set -u
d="$1"; name=$(basename "$d")
wt=/tmp/cs-$name
export CARGO_TARGET_DIR=/tmp/cs-target CARGO_NET_OFFLINE=true SSL_CERT_FILE=/dev/null SSL_CERT_DIR=/nonexistent
git -C /repo worktree add -q --detach "$wt" HEAD || exit 2
cd "$wt"
if ! git apply "$d/patch.diff"; then echo "$name: PATCH-DOES-NOT-APPLY"; cd /; git -C /repo worktree remove --force "$wt"; exit 1; fi
lib=$(cargo test --offline --lib 2>&1 | grep "test result" | head -1)
printf '\n[dev-dependencies]\nopenssl = "0.10"\n' >> Cargo.toml
cat "$d/demo_append.rs" >> src/bin/mstsc-rs.rs
with=$(timeout 600 cargo test --offline --features mstsc-rs,verif-hooks,integration --bin mstsc-rs 2>&1 | grep -E "test result|error\[" | head -1)
git checkout -q -- src
cat "$d/demo_append.rs" >> src/bin/mstsc-rs.rs
without=$(timeout 600 cargo test --offline --features mstsc-rs,verif-hooks,integration --bin mstsc-rs 2>&1 | grep -E "test result|error\[" | head -1)
cd /; git -C /repo worktree remove --force "$wt"
echo "$name: lib[$lib] with-patch[$with] without-patch[$without]"
