#!/usr/bin/env python3
"""add_finding.py fixed <Cnn> <commit-subject-needle> <signature> <what>   |   add_finding.py open <Cnn> <signature> <what>"""
import sys, json, subprocess
kf = json.load(open('/verif/known-findings.json'))
mode = sys.argv[1]
if mode == 'fixed':
    _, _, prop, needle, sig, what = sys.argv
    log = subprocess.check_output(["git","-C","/repo","log","--format=%h %s"]).decode().splitlines()
    c = [l.split()[0] for l in log if needle in l]
    assert len(c) == 1, (needle, c)
    e = {"property":prop,"status":"fixed","signature":sig,"commit":c[0],"what":what,"line":f"fixed: property={prop} {c[0]} {what}"}
else:
    _, _, prop, sig, what = sys.argv
    e = {"property":prop,"status":"open","signature":sig,"commit":"","what":what,"line":f"open: property={prop} {what}"}
kf["findings"] = [f for f in kf["findings"] if not (f["property"]==e["property"] and f["signature"]==e["signature"])] + [e]
json.dump(kf, open('/verif/known-findings.json','w'), indent=1)
print(e["line"])
