#!/bin/bash
# seed_sweep.sh <seed>...: run every quick check with each VERIF_SEED (evidence goes to a scratch directory); prints every
# run that did not exit 0. The unchanged tree must be silent under every seed.
cd /verif || exit 2
bad=0
for seed in "$@"; do
  for n in $(seq -w 1 20); do
    p="C$n"
    out=$(VERIF_SEED=$seed VERIF_OUT_DIR=/tmp/seedsweep ./check $p quick 2>&1); code=$?
    if [ $code -ne 0 ]; then
      bad=1
      echo "seed=$seed $p exit=$code"
      echo "$out" | grep -E "VIOLATION|signature|detail|INCONCLUSIVE" | head -5 | cut -c1-400
    fi
  done
  echo "seed=$seed done"
done
exit $bad
