#!/usr/bin/env python3
"""Regenerates /verif/MANIFEST.json from the table below (keeps the manifest valid and in sync)."""
import json, subprocess, os
HERE = os.path.dirname(os.path.dirname(os.path.abspath(__file__)))
ALL = ["C%02d" % i for i in range(1, 21)]
# id -> (level category, technique, level text, level note, design ref)
CHECKS = {
 "C08": ("exploration", "property-based testing: bounded-exhaustive enumeration of short inputs + grammar-aware generated streams (proptest byte->case decoders) with a totality/length/allocation oracle",
         "Every data string of length <=2 (<=3 thorough) on a grid of tiny sizes is enumerated; above that, millions of generated order-aware streams, mutated reference encodings and raw buffers; oracle = no panic, Ok implies len == w*h*4, allocation bound. Finds any total-function violation reachable by those generators; cannot show absence.",
         "Trusted: the harness's panic capture and counting allocator; dimensions capped for memory; direct decoder calls only with output slices at least as large as the library's own caller uses. A call that does not return is confirmed like in C05 (re-executed alone, 240 s) and reported as hang:call-does-not-return.", "DESIGN §6 C08"),
 "C09": ("exploration", "property-based testing: images x all conformant encodings from an independent nondeterministic reference encoder; oracle = source image + independent reference decoder",
         "Every tiny image with every encoding (capped), plus generated images up to 64x64 (256x256 thorough) with randomly chosen conformant encodings for interleaved RLE, planar RLE and raw; library output must equal the source image byte for byte.",
         "Trusted: reference encoder/decoder written from MS-RDPBCGR/MS-RDPEGDI (cross-checked against each other on every case; a disagreement is exit 2). Domain restrictions: no BG/FG/FGBG order straddles the first scanline boundary; raw 16 bpp only for even widths.", "DESIGN §6 C09"),
 "C13": ("exploration", "property-based testing: generated frame sequences x read-chunk schedules against a reference deframer with a consumed-byte counter; bounded-exhaustive sweep of all length values",
         "Every TPKT length (quick: all < 1400 plus strata; thorough: all 65536) and every fast-path length in both forms and every first byte is swept with several chunk schedules; generated multi-frame streams are read through a chunking transport and compared frame by frame (payload, kind, flags, exact consumption, sentinel frame).",
         "Trusted: the reference deframer (30 lines, RFC 1006 / MS-RDPBCGR 2.2.9.1.2). First bytes with action bits other than 00/0x03 are only required not to panic. x224 variant uses the verif-hooks constructor.", "DESIGN §6 C13"),
 "C14": ("fault_enumeration", "property-based testing with injected faults: generated payload sizes x short-write/EINTR/zero schedules x a hard write error at every byte position, oracle = prefix/completeness against reference framing",
         "All boundary lengths, every error position of small frames and every fixed cap are enumerated; generated schedules cover random caps, Ok(0), EINTR. Bytes accepted by the adversarial stream must be a prefix of the reference frame, Ok implies completeness, a healthy stream implies Ok, oversize implies Err with nothing written.",
         "Trusted: the adversarial Write implementation. Ok(0)/EINTR may be retried or reported (both allowed).", "DESIGN §6 C14"),
 "C16": ("exploration", "property-based testing: generated key material and bidirectional message histories against an independent MS-NLMP seal/unseal model; exhaustive single-bit flips, truncations and extensions",
         "Every gss_wrapex output in a history is compared byte for byte with an independent implementation pinned by the MS-NLMP 4.2.4 vectors; reference-server messages must unseal; every single-bit flip / truncation / extension of every server message of a set of histories must be rejected.",
         "Trusted: refimpl::crypto (own RC4 + RustCrypto md5/hmac pinned by RFC vectors and MS-NLMP 4.2.4.4).", "DESIGN §6 C16"),
 "C18": ("exploration", "property-based testing: generated message shapes with a mirror-tree reference serializer (round-trip + exact consumption), bounded-exhaustive PER domains, generated ASN.1 trees against a reference DER/BER codec, reference T.124 encoder/decoder differential",
         "PER lengths 0..0x7fff and all u16 integers exhaustively (all u32 in thorough), offset/minimum lattice, OID lattice incl. one-element-differs negatives, octet strings at every length boundary; hundreds of thousands of generated message shapes (Size, SkipField, Option, Array, Check) checked for length()==bytes, to_vec==reference bytes, read-back of every leaf and sentinel left unread; ASN.1 trees (MCS/CredSSP shapes) to_der==reference DER and from_der/from_ber of short/long forms; GCC request for every user-data length 0..3000 through a strict T.124 decoder and generated server responses through read_conference_create_response.",
         "Trusted: refimpl per/der/gcc codecs (written from the specifications; pinned by the repository's own captured vectors). Preconditions from callers are built into the shape generator (bounded arrays/options, non-empty array elements).", "DESIGN §6 C18"),
 "C03": ("exploration", "property-based testing: generated (configuration, conforming-server profile) pairs run against a sans-IO reference server that parses every client message strictly and checks order, dependency and identifiers",
         "Tens of thousands (1.5 M thorough) of whole connections (MCS connect, client info/licence, 1-4 activations, shutdown) against generated conforming servers: user ids across 1001..65535, any share id, block orders / optional fields / unknown blocks, BER length forms, licence variants, known and unknown capability sets, chunked delivery. The decoded client sequence must be exactly the mandated one, each dependent message written only after its reply was readable, identifiers as assigned.",
         "Trusted: refimpl wire parsers + sans-IO server. Mem lane uses the verif-hooks constructors in place of the TLS-only X.224 negotiation; conforming-server domain restrictions in DESIGN §4.5 (I/O channel 1003, user id != 1003, preamble flags 0x03).", "DESIGN §6 C03"),
 "C04": ("exploration", "property-based testing: generated configurations (Unicode string classes straddling the 15/16/32 unit boundaries) with every emitted byte parsed by strict independent reference parsers",
         "Every client PDU of generated connections is parsed strictly (TPKT, X.224, BER connect-initial, T.124 request, CS_CORE/CS_SECURITY/CS_NET sizes, 32-byte NUL-terminated client name, cb* counts and terminators, MCS PER lengths, share headers, confirm-active counts and specified capability sizes, input PDU numEvents) and decoded values are compared with the configuration.",
         "Trusted: strict parsers written from MS-RDPBCGR / T.124 / T.125 (pinned by the repository's own captured vectors). NTLM/CredSSP tokens are covered by C15's verifier (same strict layout rules).", "DESIGN §6 C04"),
 "C05": ("fault_enumeration", "fault injection over reference-server conversations with field maps: exhaustive per-field value sweeps, truncations, extensions, double faults, all short byte strings at parser entries; oracle = Ok/Err, no panic/spin/allocation blow-up",
         "Every scalar field of every setup message (connection confirm, connect-response with GCC blocks, attach-user / channel-join confirms, licence) is set to every 8-bit value or the 16/32-bit boundary values; every truncation point; generated xor corruption and fault pairs over generated server profiles; every byte string of length <= 2 (3 thorough) at gcc / licence / PER entries and as the confirm payload.",
         "Trusted: panic hook + counting allocator + EOF-read counter in the scripted transports. Allocation bounds: single <= 1 MiB + 64 n, total <= 16 MiB + 4096 n (also over the whole of mcs.connect + sec.connect). A call that does not return (the per-case watchdog ends the run) is re-executed alone in a fresh process: still burning CPU after 240 s it is reported as hang:call-does-not-return, otherwise the run stays inconclusive (exit 2).", "DESIGN §6 C05"),
 "C06": ("fault_enumeration", "fault injection in every activation state: exhaustive per-field value sweeps of every server PDU kind, truncations, extensions, double faults, free payloads, all short byte strings at the share-PDU / fast-path parser entries",
         "The client is driven into each of its six states by a conforming prefix, reads one hostile frame (every field of demand-active incl. capability sets, deactivate-all, synchronize, control, font map, set-error-info, unknown data PDU, fast-path bitmap/pointer/sync/unknown updates set to every 8-bit / boundary value; truncations; generated corruption) and then one valid frame. Only Ok/Err are acceptable.",
         "Trusted: as C05 (allocation bounds, hang confirmation).", "DESIGN §6 C06"),
 "C10": ("exploration", "property-based testing: generated fast-path streams against a reference description (differential on the sequence of callbacks)",
         "Generated sequences of fast-path PDUs (0..6 updates each, bitmap updates with 0..5 rectangles, compression header present or not, data up to the 15-bit limit, both length forms, pointer / synchronize / unsupported updates interleaved) on an activated session; the callback sequence must equal the transmitted rectangles element for element.",
         "Trusted: refimpl fast-path builder. Domain: uncompressed, unfragmented updates (as the property states).", "DESIGN §6 C10"),
 "C11": ("exploration", "property-based testing: generated input histories interleaved with server traffic; the reference server decodes input PDUs strictly and compares one-to-one",
         "All 8 button/state combinations at boundary coordinates plus generated histories of up to 40 steps (pointer, key, unsendable event, server traffic, write and try_write) over generated user ids / share ids.",
         "Trusted: refimpl strict share/input PDU parser.", "DESIGN §6 C11"),
 "C12": ("exploration", "model-based testing: bounded-exhaustive histories over the 11-letter server alphabet against a reference activation automaton, input attempt after every step",
         "Every history up to length 5 (6 thorough) plus biased random histories up to length 60, each on a fresh connected client; after every step the client's emissions, input acceptance (write / try_write) with byte counts, and bitmap callbacks are compared with the automaton written from the property (set-valued where the property is silent).",
         "Trusted: the 40-line reference automaton and the strict parsers. Several PDUs per frame are asserted only while the client is active (there the property determines the outcome).", "DESIGN §6 C12"),
 "C01": ("fault_enumeration", "fault enumeration over the final CredSSP reply through real TLS: exhaustive single-bit flips and truncations of the honest reply, structured forgeries (offsets, wrong keys, other certificate, reflection, re-encoding), two-connection histories (reused authentication object; relay presenting a certificate with the issuer and serial number of an earlier one under another key), classified by the reference CredSSP/NTLM server itself",
         "Whole NLA handshakes through Connector::connect against an in-process OpenSSL acceptor and reference NTLM/CredSSP server. For every reply that does not prove the session key the call must fail and the server, reading to EOF, must receive zero bytes after the AUTHENTICATE message; that the honest reply is followed by the credentials is only a guard against a vacuous pass (C03 states that connecting succeeds).",
         "Trusted: refimpl::ntlm verifier and seal model (pinned by MS-NLMP 4.2.4 vectors), OpenSSL. Replies the reference side itself accepts (e.g. a flipped bit in the unchecked version INTEGER, another sequence number under a valid signature) are not required to be refused.", "DESIGN §6 C01"),
 "C02": ("exploration", "bounded-exhaustive negotiation replies x configurations on a scripted transport with a raw-transcript oracle, plus generated whole connections through real TLS with trusted / untrusted certificates",
         "Every low-byte selected-protocol value, every flag byte, every reply type byte, failures, absent data, truncations and extensions for Connector::connect (NLA on/off, certificate checking on/off, restricted admin, blank credentials) and x224::Client::connect (masks 1/2/3, with/without authentication protocol): unless a single offered protocol is selected the call fails and nothing is written after the connection request; otherwise only TLS records follow. TLS sub-lane: raw transcript = request + TLS records; untrusted certificate with checking on gives Err before any TSRequest / RDP byte; CA-signed accepted; untrusted accepted when checking is off.",
         "Trusted: TLS record header recogniser, OpenSSL chain validation against the harness CA (SSL_CERT_FILE). X.224 header fields other than the negotiation structure are not asserted.", "DESIGN §6 C02"),
 "C07": ("fault_enumeration", "fault injection over reference CHALLENGE / TSRequest messages with field maps (exhaustive per-field boundary sweeps, every AvId, truncations, double faults, DER trees, all short strings) at the four parser entries and through real NLA handshakes",
         "Ntlm::read_challenge_message, cssp::read_ts_server_challenge, cssp::read_ts_validate and gss_unwrapex on several challenge layouts (with/without version, both payload orders, no timestamp, empty target info) with every scalar field swept, every truncation, generated corruption; whole handshakes with a faulty CHALLENGE TSRequest or final reply. Only Ok/Err are acceptable.",
         "Trusted: as C05. Adversarial certificates for the X.509 parser are not generated.", "DESIGN §6 C07"),
 "C15": ("exploration", "property-based testing: generated identities, passwords / NT hashes and CHALLENGE messages; an independent MS-NLMP server verifier derives everything from the three messages",
         "Tens of thousands (2 M thorough) of tokens: offset/length pairs, identity fields, NTProofStr, client-challenge blob, LMv2, key exchange, MIC, then session-security interop; hash-login and password-login verify against the same account.",
         "Trusted: refimpl::ntlm + refimpl::crypto (MS-NLMP 4.2.4 vectors). Upper-casing restricted to characters on which Unicode and Windows agree.", "DESIGN §6 C15"),
 "C17": ("exploration", "all 32 option combinations plus generated credentials as whole connections through real TLS; decrypted payload oracle + negative substring search over every byte on the wire",
         "Connector::connect with every combination of NLA, restricted admin, blank credentials, auto logon, password/hash against the reference CredSSP + RDP server: TSCredentials and Client Info contents per mode, request flags, INFO_AUTOLOGON; the password's UTF-8/UTF-16LE/BE encodings must not occur on the raw transport, in NTLM tokens, or in any other TLS-protected message.",
         "Trusted: reference server decryption (OpenSSL + refimpl seal model), strict Client Info parser.", "DESIGN §6 C17"),
 "C19": ("exploration", "property-based testing of the binary's private blit (source included from the working tree): bounded-exhaustive small geometries + generated geometries/encodings; oracle = safe reference blit, canary region, AddressSanitizer build with case journal",
         "Every rectangle over coordinates {0..5, 65535} for several tiny windows and image sizes, plus 150 k (10 M thorough) generated window / rectangle / image / depth / encoding combinations; run twice: normal build (panic capture, canary behind the buffer, exact-copy and nothing-else-changed oracle) and AddressSanitizer build (any out-of-bounds access aborts and is attributed to the journalled case).",
         "Trusted: include!-based access to fast_bitmap_transfer (no repository change), ASan via the stable toolchain with RUSTC_BOOTSTRAP=1, reference encoders of C09 for compressed inputs.", "DESIGN §6 C19"),
 "C20": ("exploration", "scenario-based testing of the binary's receive thread on a real TLS session: generated record/segment packings x end modes x protocol points x concurrent writers with deadline + 'poke' (metamorphic) confirmation",
         "A fixed matrix (every end mode at every protocol point; every packing) plus 150 (5 000 thorough) generated scenarios run one at a time: every PDU sent must be dispatched while the server stays silent (a miss is confirmed by a poke PDU), the thread must finish within 5 s of the end event and release the shared client, nothing is lost or reordered.",
         "Weakest claim: liveness approximated by deadlines with >250x margin; the harness owns the server's schedule only, client-side interleavings are perturbed (delays, writer threads) but not controlled. Socket pair instead of TCP (no RST).", "DESIGN §6 C20"),
}
NOT_YET = "check not built yet in this session (machinery under construction; see DESIGN.md §10 build order)"
def main():
    src_commits = subprocess.check_output(["git", "-C", "/repo", "log", "--format=%H %s"]).decode().splitlines()
    hooks = [l.split()[0] for l in src_commits if "verif-hooks" in l]
    m = {
     "version": 1,
     "setup_cmd": "cd /verif/harness && CARGO_NET_OFFLINE=true cargo build --release --offline 2>&1 | tail -2 && RUSTC_BOOTSTRAP=1 RUSTFLAGS='-Zsanitizer=address --cfg verif_asan' CARGO_NET_OFFLINE=true cargo build --release --offline -p guicheck --target x86_64-unknown-linux-gnu --target-dir target/asan 2>&1 | tail -2",
     "hooks": {
       "guard": "cargo feature verif-hooks (off by default)",
       "enable": "the harness depends on rdp-rs = { path = \"/repo\", features = [\"verif-hooks\", \"integration\"] }",
       "baseline_off_cmd": "cd /repo && CARGO_NET_OFFLINE=true cargo test --workspace --no-fail-fast --offline --lib",
       "source_commits": hooks,
       "add_only": True,
     },
     "engines": [
       {"name": "guicheck", "path": "harness/guicheck", "serves_properties": ["C19", "C20"], "kind_free_text": "includes src/bin/mstsc-rs.rs of the working tree into a module to reach its private functions; normal + AddressSanitizer builds; real TLS session scenarios for the receive thread"},
       {"name": "rdpcheck", "path": "harness/rdpcheck", "serves_properties": sorted(k for k in CHECKS.keys() if k not in ("C19", "C20")), "kind_free_text": "proptest-driven byte->case decoders, bounded-exhaustive enumerations, independent reference codecs/models (harness/refimpl), evidence + replay engine (harness/engine)"},
     ],
     "checks": [],
     "not_applicable": [],
     "notes": "All checks: exit 0 held / 1 violation (VIOLATION line) / 2 inconclusive. Known findings: /verif/known-findings.json. Replay: ./check replay <file>.",
    }
    for pid in ALL:
        if pid in CHECKS:
            cat, tech, text, note, ref = CHECKS[pid]
            m["checks"].append({
              "property_id": pid,
              "quick_cmd": "./check %s quick" % pid,
              "thorough_cmd": "./check %s thorough" % pid,
              "evidence_file": "/verif/evidence/%s.json" % pid,
              "replay_cmd_template": "./check replay {path}",
              "engine": "guicheck" if pid in ("C19", "C20") else "rdpcheck",
              "level_claimed": {"category": cat, "text": text, "design_ref": ref},
              "level_note": note,
              "technique": tech,
            })
        else:
            m["not_applicable"].append({"property_id": pid, "reason": NOT_YET})
    json.dump(m, open(os.path.join(HERE, "MANIFEST.json"), "w"), indent=1)
main()
