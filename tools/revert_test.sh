#!/bin/bash
# check that a fix commit is needed: revert it in /repo's working tree, run the check (expect exit 1), restore.
# usage: revert_test.sh <commit> <Cnn>
c="$1"; p="$2"
cd /repo || exit 2
if [ -n "$(git status --porcelain --untracked-files=no)" ]; then echo "/repo not clean"; exit 2; fi
git show "$c" | git apply -R || { echo "cannot revert $c"; exit 2; }
out=$(cd /verif && VERIF_OUT_DIR=/tmp/seedrun ./check "$p" quick 2>&1); code=$?
git checkout -- .
echo "$out" | grep -E "signature|VIOLATION|BUILD" | cut -c1-220 | head -4
echo "revert $c vs $p: exit=$code"
