#!/bin/bash
# show that a fix commit is needed: build the harness against a scratch worktree with that commit reverted and run
# the check (expect exit 1). /repo itself is not touched. usage: revert_test.sh <commit> <Cnn>
c="$1"; p="$2"; wt=/tmp/seedrepo
git -C /repo worktree remove --force "$wt" >/dev/null 2>&1
git -C /repo worktree add -q --detach "$wt" HEAD || exit 2
( cd "$wt" && git show "$c" | git apply -R --3way >/dev/null 2>&1 ) || { echo "cannot revert $c"; git -C /repo worktree remove --force "$wt"; exit 2; }
out=$(cd /verif && VERIF_REPO="$wt" VERIF_OUT_DIR=/tmp/seedrun ./check "$p" quick 2>&1); code=$?
git -C /repo worktree remove --force "$wt"
echo "$out" | grep -E "signature|VIOLATION|BUILD" | cut -c1-220 | head -4
echo "revert $c vs $p: exit=$code"
